"""Reader for /repo/src/operator-info.in (the MathML operator dictionary as MathCAT ships it).
Used to build workloads over all dictionary operators and by the C03 reference parser.  Parsed with regexes; shares no code with MathCAT."""
import os
import re

from . import core

_ENTRY = re.compile(r'^\s*"((?:[^"\\]|\\.)*)"\s*=>\s*(.*)$')
_INFO = re.compile(r"OperatorInfo\{\s*op_type:\s*OperatorTypes::([A-Z_]+)\s*,\s*priority:\s*(\d+)")


def _unescape(s):
    out, i = [], 0
    while i < len(s):
        c = s[i]
        if c == "\\" and i + 1 < len(s):
            n = s[i + 1]
            if n == "u":
                m = re.match(r"\\u\{([0-9A-Fa-f]+)\}", s[i:])
                if m:
                    out.append(chr(int(m.group(1), 16)))
                    i += len(m.group(0))
                    continue
            out.append({"n": "\n", "t": "\t", "\\": "\\", '"': '"', "'": "'"}.get(n, n))
            i += 2
            continue
        out.append(c)
        i += 1
    return "".join(out)


def load(repo=None):
    """returns {operator text: [(form, priority), ...]} with form in PREFIX INFIX POSTFIX LEFT_FENCE RIGHT_FENCE ... as written in the file"""
    path = os.path.join(repo or core.REPO, "src", "operator-info.in")
    ops = {}
    cur = None
    with open(path, encoding="utf-8") as f:
        for line in f:
            code = line.split("//")[0] if not line.lstrip().startswith('"//') else line
            m = _ENTRY.match(line)
            if m:
                cur = _unescape(m.group(1))
                ops.setdefault(cur, [])
                rest = m.group(2)
            else:
                rest = code
            if cur is None:
                continue
            for form, prio in _INFO.findall(rest):
                ops[cur].append((form, int(prio)))
    return {k: v for k, v in ops.items() if v}
