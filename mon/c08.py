"""C08 — no API call crashes the host; errors are reported and recoverable.
Every public entry point is driven with hostile arguments in random order through the driver, one library call per protocol call, so that
a panic (caught in the driver, with the first libmathcat frame), an abort / stack overflow (driver death: the open call is the witness) or a
hang (watchdog) is attributed to one call.  After errors and panics a valid probe expression is set and its outputs are compared with a
fresh session's.  The recorded op scripts of a sample of sessions are replayed in a debug-assertion build and under AddressSanitizer."""
import os
import random
import re
import time
import xml.etree.ElementTree as ET

from . import configs, core, gen, gen_hostile, sanit, shrink

PROP = "C08"
PROBE = "<math><mfrac><mrow><mi>x</mi><mo>+</mo><mn>12</mn></mrow><msqrt><mi>y</mi></msqrt></mfrac><mo>=</mo><msup><mi>z</mi><mn>2</mn></msup></math>"
PROBE_OPS = [("set_mathml", PROBE), ("get_spoken_text",), ("get_braille", ""), ("get_overview_text",), ("get_navigation_mathml_id",), ("do_navigate_command", "ZoomIn"), ("get_navigation_braille",)]
CONFIGS = [
    {"TTS": "None", "Language": "en", "BrailleCode": "Nemeth"},
    {"TTS": "None", "Language": "en", "SpeechStyle": "SimpleSpeak", "BrailleCode": "UEB", "Verbosity": "Verbose"},
    {"TTS": "SSML", "Language": "sv", "BrailleCode": "Swedish", "Bookmark": "true"},
    {"TTS": "None", "Language": "fi", "BrailleCode": "CMU", "BrailleNavHighlight": "All"},
    {"TTS": "SAPI5", "Language": "es", "BrailleCode": "LaTeX", "Verbosity": "Terse"},
    {"TTS": "None", "Language": "vi", "BrailleCode": "Vietnam", "NavMode": "Character"},
    {"TTS": "None", "Language": "zh-tw", "BrailleCode": "ASCIIMath", "NavMode": "Simple"},
    {"TTS": "None", "Language": "de", "BrailleCode": "UEB", "DecimalSeparator": ","},
]
GETTERS = ["get_spoken_text", "get_overview_text", "get_navigation_braille", "get_navigation_mathml", "get_navigation_mathml_id", "get_braille_position"]
ID_RX = re.compile(r"""\sid=['"]([^'"]*)['"]""")
NUM = re.compile(r"\d+")


def msg_class(msg):
    m = msg.split("\n")[0]
    m = re.sub(r"'[^']*'", "'…'", m)
    m = re.sub(r'"[^"]*"', '"…"', m)
    m = re.sub(r"<.*", "<…", m)
    m = re.sub(r"Some\(.*", "Some(…", m)
    m = NUM.sub("N", m)
    return m[:70].strip()


def panic_sig(op_name, p):
    fn = (p.get("fn") or "?").split(" <- ")[0]
    fn = re.sub(r"::\{\{closure\}\}|::\{closure#\d+\}", "", fn)
    fn = re.sub(r"<([A-Za-z0-9_:]+)>", r"\1", fn)          # nightly prints <path::Type>::method
    return "panic | %s | %s | %s" % (op_name, fn, msg_class(p.get("msg", "")))


def strip_ids(v):
    if isinstance(v, str):
        return re.sub(r"M[0-9a-z]{7}-\d+", "ID", v)
    if isinstance(v, list):
        return [strip_ids(x) for x in v]
    return v


def result_key(r):
    if r is None:
        return ("died",)
    if r["r"] == "ok":
        return ("ok", strip_ids(r.get("v")))
    if r["r"] == "err":
        return ("err",)
    return (r["r"],)


class Ref:
    """fresh-session reference outputs of the probe, per configuration"""
    cache = {}

    @classmethod
    def get(cls, cfg_index, flavour="native"):
        key = (cfg_index, flavour)
        if key not in cls.cache:
            with core.Session(CONFIGS[cfg_index], flavour=flavour, timeout=60) as s:
                res = s.batch(PROBE_OPS, timeout=120)
                if res is None or res[0]["r"] != "ok":
                    raise core.Inconclusive("probe expression fails in a fresh session: %r" % (res,))
                cls.cache[key] = [result_key(r) for r in res]
        return cls.cache[key]


def make_ops(rng, h, n, kind):
    """abstract op list of one session; ids are resolved at run time ('@id' = an id of the current expression if there is one)"""
    ops = []
    for _ in range(n):
        k = rng.random()
        if kind == "prefs":
            if k < 0.55:
                ops.append(("set_preference",) + h.pref_pair())
            elif k < 0.75:
                ops.append(("get_preference", rng.choice(h.prefs)))
            elif k < 0.85:
                ops.append(("set_mathml", gen.Textbook(rng, max_depth=2).expression()[0].xml(), "textbook"))
            else:
                ops.append((rng.choice(["get_spoken_text", "get_braille_", "get_overview_text", "do_navigate_command"]),))
            continue
        if k < 0.03:
            # a position INSIDE a multi-character leaf with non-ASCII text, then every getter that looks at the character under the position
            text = rng.choice(["größe", "día", "naïve café", "αβγ", "x½y", "для", "a\u00a0\u00a0b", "∑∏∫", "𝒜𝒫x", "中文字", "e\u0301e\u0301"])
            tag = rng.choice(["mtext", "mi", "mn", "mo"])
            wrap = rng.choice(["%s", "<mrow><mi>x</mi><mo>=</mo>%s</mrow>", "<msup><mi>x</mi>%s</msup>", "<mfrac><mn>1</mn>%s</mfrac>"])
            ops.append(("set_mathml", "<math>" + wrap % ("<%s>%s</%s>" % (tag, text, tag)) + "</math>", "non-ascii-leaf"))
            for off in rng.sample([0, 1, 2, 3, 4, 5], 3):
                ops.append(("set_navigation_node", "@last", off))
                ops.append((rng.choice(["get_navigation_braille", "get_braille_position", "get_navigation_mathml", "get_navigation_mathml_id"]),))
                if rng.random() < 0.5:
                    ops.append(("do_navigate_command", rng.choice(["ReadCurrent", "DescribeCurrent", "WhereAmI", "MoveNext", "MovePrevious", "ZoomIn"])))
                    ops.append(("get_navigation_braille",))
        elif k < 0.38:
            s, cls, _ = h.mathml()
            ops.append(("set_mathml", s, cls))
        elif k < 0.58:
            ops.append((rng.choice(GETTERS),))
        elif k < 0.66:
            ops.append(("get_braille", "@id"))
        elif k < 0.82:
            ops.append(("do_navigate_command", h.nav_command()))
        elif k < 0.87:
            ops.append(("do_navigate_keypress",) + h.keypress())
        elif k < 0.92:
            ops.append(("set_navigation_node", "@id", h.offset()))
        elif k < 0.97:
            ops.append(("get_navigation_node_from_braille_position", h.position()))
        elif k < 0.985:
            ops.append(("set_preference",) + h.pref_pair())
        else:
            ops.append(("get_version",))
    out = []
    for o in ops:
        if o[0] == "get_braille_":
            out.append(("get_braille", ""))
        elif o == ("do_navigate_command",):
            out.append(("do_navigate_command", "ZoomIn"))
        else:
            out.append(o)
    return out


def concrete(op, ids, h):
    """resolve '@id' placeholders; returns the tuple passed to the driver (the set_mathml class tag is dropped)"""
    if op[0] == "set_mathml":
        return ("set_mathml", op[1])
    return tuple(h.node_id(ids) if a == "@id" else ((ids[-1] if ids else "nosuch") if a == "@last" else a) for a in op)


def run_session(spec_session, st, flavour="native", record=None, judge_recovery=True):
    """run one hostile session; returns list of violations.  record (list) receives the concrete ops and result classes."""
    rng = random.Random(spec_session["seed"])
    h = gen_hostile.Hostile(rng)
    kind = spec_session["kind"]
    cfg_index = spec_session["cfg"]
    ops = make_ops(rng, h, spec_session["n"], kind)
    violations = []
    timeout = spec_session.get("watchdog", 20) * (1 if flavour == "native" else 6)
    d = core.Driver(flavour, timeout=timeout, stack_kb=8192 if flavour == "native" else 65536)
    history = []
    ids = []
    try:
        if kind != "uninit":
            d.init(CONFIGS[cfg_index])
        else:
            if rng.random() < 0.5:
                d.call("set_rules_dir", core.RULES)
        for op in ops:
            c = concrete(op, ids, h)
            history.append(c)
            t0 = time.time()
            try:
                r = d.call(*c)
            except core.DriverDied as e:
                st.count("driver_deaths")
                sigtxt = "abort | %s | %s | %s" % (core.describe_exit(e.returncode), c[0], op[2] if op[0] == "set_mathml" else "-")
                if flavour == "asan" and "AddressSanitizer" in e.stderr_tail:
                    m = re.search(r"ERROR: AddressSanitizer: (\S+)", e.stderr_tail)
                    sigtxt = "asan | %s | %s" % (m.group(1) if m else "report", c[0])
                violations.append(core.violation("abort", sigtxt, {"cfg": cfg_index, "kind": kind, "ops": [list(x) for x in history[-6:]], "flavour": flavour},
                                                 "driver died (%s) in %s\n%s" % (core.describe_exit(e.returncode), str(c)[:300], e.stderr_tail[-1200:])))
                return violations
            except core.DriverTimeout:
                st.inconclusive += 1
                st.count("watchdog_fired")
                st.notes.append("watchdog: %s after %s" % (str(c)[:200], str(history[-2:-1])[:200]))
                return violations
            dt = time.time() - t0
            st.evaluations += 1
            st.count("calls_" + c[0])
            st.count("result_" + r["r"])
            if record is not None:
                record.append((list(c), r["r"]))
            if dt > 2.0:
                st.notes.append("slow call %.1fs: %s" % (dt, str(c)[:160]))
            if c[0] == "set_mathml":
                st.add("input_classes", op[2])
                if r["r"] == "ok":
                    ids = ID_RX.findall(r["v"])[:40]
                    st.nontrivial.add(core.h16(c[1]))
                elif r["r"] == "err":
                    st.nontrivial.add(core.h16(c[1]))
            if r["r"] == "panic":
                st.count("raw_panics")
                w = {"cfg": cfg_index, "kind": kind, "flavour": flavour}
                # try to reproduce with the shortest prefix: [last set_mathml, this op]
                last_set = next((x for x in reversed(history[:-1]) if x[0] == "set_mathml"), None)
                w["ops"] = [list(x) for x in ([last_set] if last_set and c[0] != "set_mathml" else []) + [c]]
                w["full_tail"] = [list(x) for x in history[-12:]]
                violations.append(core.violation("panic", panic_sig(c[0], r["p"]), w,
                                                 "%s panicked: %s at %s [%s]" % (str(c)[:400], r["p"].get("msg", "")[:200], r["p"].get("loc"), r["p"].get("fn", "")[:200])))
            if r["r"] in ("panic", "err") and judge_recovery and kind == "hostile" and (r["r"] == "panic" or rng.random() < 0.25):
                # recovery: a valid expression set next yields exactly what a fresh session yields
                try:
                    rec = [d.call(*po) for po in PROBE_OPS]
                except core.DriverDied as e:
                    violations.append(core.violation("no-recovery", "no-recovery | driver died in probe after %s %s" % (c[0], r["r"]), {"cfg": cfg_index, "kind": kind, "ops": [list(x) for x in history[-6:]]},
                                                     "probe killed the driver after %s" % str(c)[:300]))
                    return violations
                except core.DriverTimeout:
                    st.inconclusive += 1
                    return violations
                st.count("recovery_checks")
                # navigation speech depends on NavMode/overview state that navigation commands write back by design: the navigation steps of the
                # probe are executed (no crash) but only expression-dependent outputs are compared
                want = Ref.get(cfg_index, flavour)[:5]
                got = [result_key(x) for x in rec][:5]
                if got != want and not spec_session.get("prefs_touched"):
                    bad = next(i for i, (a, b) in enumerate(zip(got, want)) if a != b)
                    violations.append(core.violation("no-recovery", "no-recovery | %s differs after %s %s" % (PROBE_OPS[bad][0], c[0], r["r"]),
                                                     {"cfg": cfg_index, "kind": kind, "ops": [list(x) for x in history[-8:]]},
                                                     "after %s -> %s the probe's %s is %s, fresh session gives %s" % (str(c)[:300], r["r"], PROBE_OPS[bad][0], str(got[bad])[:300], str(want[bad])[:300])))
                    return violations
                ids = []
                history.append(("set_mathml", PROBE))
            if c[0] == "set_preference" and r["r"] == "ok":
                spec_session["prefs_touched"] = True      # preferences are now part of the state: the fixed-configuration reference no longer applies
    finally:
        d.close()
    return violations


def minimise_panic(v):
    """shrink the MathML of a panic that reproduces from [set_mathml x (, op)] in a fresh session"""
    w = v["witness"]
    ops = [tuple(o) for o in w["ops"]]
    if not ops or ops[0][0] != "set_mathml":
        return v
    want_sig = v["sig"]
    rest = ops[1:]

    sess = core.Session(CONFIGS[w["cfg"]], flavour=w.get("flavour", "native"))

    def reproduces(xml):
        res = sess.batch([("set_mathml", xml)] + rest, timeout=60)
        if res is None:
            return False
        last = res[-1]
        name = (rest[-1][0] if rest else "set_mathml")
        if rest and res[0]["r"] != "ok":
            return False          # the getter would answer about the previous expression
        return last["r"] == "panic" and panic_sig(name, last["p"]) == want_sig
    try:
        tree = gen.from_xml(ops[0][1])
    except Exception:
        sess.close()
        return v
    if not reproduces(tree.xml()):
        sess.close()
        return v
    try:
        small = shrink.shrink_tree(tree if tree.tag == "math" else gen.math(tree), reproduces_tree(reproduces), budget=150)
    finally:
        sess.close()
    w2 = dict(w)
    w2["ops"] = [["set_mathml", small.xml()]] + [list(o) for o in rest]
    w2.pop("full_tail", None)
    return core.violation(v["kind"], v["sig"], w2, "minimal input %s | %s" % (small.xml()[:500], v["detail"][:500]))


def reproduces_tree(fn):
    return lambda t: fn(t.xml())


def shard(spec):
    st = core.Stats()
    deadline = time.time() + spec["time_budget"]
    seen = set()
    flavour = spec.get("flavour", "native")
    for sess in spec["sessions"]:
        if time.time() > deadline:
            st.count("stopped_by_time_budget")
            break
        rec = [] if spec.get("record") else None
        vs = run_session(dict(sess), st, flavour=flavour, record=rec)
        st.count("sessions_" + sess["kind"])
        st.add("configs", str(sess["cfg"]))
        if rec is not None and len(st.samples) < 1 and len(rec) > 8:
            st.sample({"session_kind": sess["kind"], "config": CONFIGS[sess["cfg"]], "first_calls": [[str(a)[:80] for a in c] + [r] for c, r in rec[:10]]})
        for v in vs:
            if v["sig"] in seen:
                v = dict(v, detail="(same signature, not minimised)")
                st.violations.append(v)
                continue
            seen.add(v["sig"])
            if v["kind"] == "panic":
                try:
                    v = minimise_panic(v)
                except (core.DriverDied, core.DriverTimeout, core.Inconclusive):
                    pass
            st.violations.append(v)
    return st.to_dict()


# --- bulk phase: many degenerate-but-valid inputs through set_mathml + getters, judged only for panic / abort --------------------------------
def bulk_shard(spec):
    from . import gen_degen
    st = core.Stats()
    rng = random.Random(spec["seed"])
    deadline = time.time() + spec["time_budget"]
    cfg_index = spec["cfg"]
    sess = core.Session(CONFIGS[cfg_index], timeout=30)
    seen = set()
    getters = [("get_spoken_text",), ("get_braille", ""), ("get_overview_text",)]

    def dies(tree):
        with core.Session(CONFIGS[cfg_index], timeout=30) as s2:
            return s2.batch([("set_mathml", tree.xml())] + getters, timeout=60) is None and isinstance(s2.last_failure, core.DriverDied)

    try:
        trees = []
        for _ in range(spec["n"]):
            g = gen_degen.Degenerate(rng, max_depth=rng.choice([2, 3, 4, 5]), id_policy=rng.choice(["none", "some"]), p_empty=rng.choice([0.05, 0.12, 0.25]), size_cap=rng.choice([12, 30, 70]))
            trees.append(g.expression())
        with_getters = spec.get("getters", 0.15)
        for off in range(0, len(trees), 40):
            if time.time() > deadline:
                st.count("stopped_by_time_budget")
                break
            chunk = trees[off:off + 40]
            ops, owner = [], []
            for i, t in enumerate(chunk):
                ops.append(("set_mathml", t.xml()))
                owner.append(i)
                if rng.random() < with_getters:
                    for gq in getters:
                        ops.append(gq)
                        owner.append(i)
            res = sess.batch(ops, timeout=120)
            if res is None:
                # find the culprit one expression at a time
                for t in chunk:
                    r = sess.batch([("set_mathml", t.xml())] + getters, timeout=60)
                    if r is None:
                        if isinstance(sess.last_failure, core.DriverTimeout):
                            st.inconclusive += 1
                            st.notes.append("watchdog in bulk phase: %s" % t.xml()[:300])
                            continue
                        st.count("driver_deaths")
                        how = core.describe_exit(sess.last_failure.returncode)
                        if ("abort", how) in seen:
                            st.violations.append(core.violation("abort", "abort | %s | set_mathml+getters | degenerate" % how, {"cfg": cfg_index, "kind": "bulk", "ops": [["set_mathml", t.xml()]] + [list(g_) for g_ in getters]}, "(same signature, not minimised)"))
                            continue
                        seen.add(("abort", how))
                        small = shrink.shrink_tree(t, dies, budget=120)
                        st.violations.append(core.violation("abort", "abort | %s | set_mathml+getters | degenerate" % how,
                                                            {"cfg": cfg_index, "kind": "bulk", "ops": [["set_mathml", small.xml()]] + [list(g_) for g_ in getters]},
                                                            "driver died (%s); minimal input %s" % (how, small.xml()[:600])))
                continue
            for (op, r, i) in zip(ops, res, owner):
                st.evaluations += 1
                st.count("result_" + r["r"])
                if op[0] == "set_mathml":
                    st.nontrivial.add(core.h16(op[1]))
                if r["r"] == "panic":
                    st.count("raw_panics")
                    sig = panic_sig(op[0], r["p"])
                    w = {"cfg": cfg_index, "kind": "bulk", "flavour": "native", "ops": [["set_mathml", chunk[i].xml()]] + ([list(op)] if op[0] != "set_mathml" else [])}
                    v = core.violation("panic", sig, w, "%s panicked on %s: %s at %s" % (op[0], chunk[i].xml()[:300], r["p"].get("msg", "")[:200], r["p"].get("loc")))
                    if sig not in seen:
                        seen.add(sig)
                        try:
                            v = minimise_panic(v)
                        except (core.DriverDied, core.DriverTimeout, core.Inconclusive):
                            pass
                    else:
                        v = dict(v, detail="(same signature, not minimised)")
                    st.violations.append(v)
    finally:
        sess.close()
    return st.to_dict()


# --- preference sweep: every documented value of every documented preference x a corpus that covers every construct x every getter ------------
SWEEP_EXTRA = [
    "<math><mrow><mi>f</mi><mo>(</mo><mi>x</mi><mo>)</mo><mo>=</mo><mrow><mo>{</mo><mtable><mtr><mtd><mn>1</mn></mtd><mtd><mtext>if </mtext><mi>x</mi><mo>&gt;</mo><mn>0</mn></mtd></mtr>"
    "<mtr><mtd><mo>-</mo><mn>1</mn></mtd><mtd><mtext>otherwise</mtext></mtd></mtr></mtable></mrow></mrow></math>",
    "<math><mtable columnalign='right center left'><mtr><mtd><mi>x</mi><mo>+</mo><mi>y</mi></mtd><mtd><mo>=</mo></mtd><mtd><mn>5</mn></mtd></mtr>"
    "<mtr><mtd><mn>2</mn><mi>x</mi><mo>-</mo><mi>y</mi></mtd><mtd><mo>=</mo></mtd><mtd><mn>1</mn></mtd></mtr><mtr><mtd><mi>z</mi></mtd><mtd><mo>=</mo></mtd><mtd><mn>0</mn></mtd></mtr></mtable></math>",
    "<math><mrow><mo>(</mo><mtable><mtr><mtd><mn>1</mn></mtd><mtd><mn>2</mn></mtd></mtr><mtr><mtd><mn>3</mn></mtd><mtd><mn>4</mn></mtd></mtr></mtable><mo>)</mo></mrow>"
    "<mo>+</mo><mrow><mo>|</mo><mtable><mtr><mtd><mi>a</mi></mtd><mtd><mi>b</mi></mtd></mtr><mtr><mtd><mi>c</mi></mtd><mtd><mi>d</mi></mtd></mtr></mtable><mo>|</mo></mrow><mo>+</mo>"
    "<mrow><mo>[</mo><mtable><mtr><mtd><mi>x</mi></mtd></mtr><mtr><mtd><mi>y</mi></mtd></mtr><mtr><mtd><mi>z</mi></mtd></mtr></mtable><mo>]</mo></mrow></math>",
    "<math><mrow><mo>{</mo><mi>x</mi><mo>|</mo><mi>x</mi><mo>&gt;</mo><mn>0</mn><mo>}</mo></mrow><mo>&#x222A;</mo><mrow><mo>(</mo><mn>2</mn><mo>,</mo><mn>5</mn><mo>]</mo></mrow><mo>&#x2229;</mo>"
    "<mrow><mo>{</mo><mn>1</mn><mo>,</mo><mn>2</mn><mo>,</mo><mo>&#x2026;</mo><mo>}</mo></mrow><mo>+</mo><mrow><mo>|</mo><mi>x</mi><mo>-</mo><mn>2</mn><mo>|</mo></mrow><mo>+</mo><mrow><mo>|</mo><mi>A</mi><mo>|</mo></mrow></math>",
    "<math><msup><mi>x</mi><mn>2</mn></msup><mo>+</mo><msup><mi>y</mi><mfrac><mn>1</mn><mn>2</mn></mfrac></msup><mo>+</mo><msup><mi>e</mi><mrow><mo>-</mo><msup><mi>t</mi><mn>2</mn></msup></mrow></msup>"
    "<mo>+</mo><mroot><mi>x</mi><mn>3</mn></mroot><mo>+</mo><msqrt><mn>2</mn></msqrt><mo>+</mo><msup><mi>sin</mi><mn>2</mn></msup><mi>x</mi><mo>+</mo><msup><mi>tan</mi><mrow><mo>-</mo><mn>1</mn></mrow></msup><mi>x</mi>"
    "<mo>+</mo><msub><mi>log</mi><mn>2</mn></msub><mi>x</mi><mo>+</mo><mi>ln</mi><mi>x</mi></math>",
    "<math><mfrac><mn>1</mn><mn>2</mn></mfrac><mo>+</mo><mn>3</mn><mfrac><mn>3</mn><mn>4</mn></mfrac><mo>+</mo><mfrac><mrow><mi>a</mi><mo>+</mo><mi>b</mi></mrow><mfrac><mi>c</mi><mi>d</mi></mfrac></mfrac>"
    "<mo>+</mo><mn>2</mn><mrow><mo>(</mo><mi>x</mi><mo>+</mo><mn>1</mn><mo>)</mo></mrow><mrow><mo>(</mo><mi>y</mi><mo>)</mo></mrow><mo>+</mo><mi>f</mi><mo>&#x2061;</mo><mrow><mo>(</mo><mi>x</mi><mo>)</mo></mrow>"
    "<mo>+</mo><msup><mi>f</mi><mo>&#x2032;</mo></msup><mo>+</mo><mover><mi>z</mi><mo>&#xAF;</mo></mover><mo>+</mo><mover><mrow><mi>A</mi><mi>B</mi></mrow><mo>&#x2192;</mo></mover><mo>+</mo><mi>A</mi><mi>B</mi><mo>+</mo><mn>3</mn><mi>x</mi><mi>y</mi></math>",
    "<math><munderover><mo>&#x2211;</mo><mrow><mi>k</mi><mo>=</mo><mn>1</mn></mrow><mi>n</mi></munderover><msub><mi>a</mi><mi>k</mi></msub><mo>+</mo><msubsup><mo>&#x222B;</mo><mn>0</mn><mn>1</mn></msubsup><mi>f</mi><mi>d</mi><mi>x</mi>"
    "<mo>+</mo><munder><mi>lim</mi><mrow><mi>x</mi><mo>&#x2192;</mo><mn>0</mn></mrow></munder><mi>g</mi><mo>+</mo><mrow><mo>(</mo><mfrac linethickness='0'><mi>n</mi><mi>k</mi></mfrac><mo>)</mo></mrow>"
    "<mo>+</mo><msubsup><mi>C</mi><mi>k</mi><mi>n</mi></msubsup><mo>+</mo><mmultiscripts><mi>P</mi><mi>k</mi><none/><mprescripts/><mi>n</mi><none/></mmultiscripts><mo>+</mo><mn>5</mn><mo>!</mo></math>",
    "<math><msub><mi mathvariant='normal'>H</mi><mn>2</mn></msub><mi mathvariant='normal'>O</mi><mo>+</mo><mi mathvariant='bold'>v</mi><mo>&#xD7;</mo><mi>W</mi><mo>+</mo><mi>&#x3A9;</mi><mo>+</mo><mn>1,234.5</mn><mo>+</mo><mn>0.75</mn>"
    "<mo>+</mo><menclose notation='box'><mn>57</mn></menclose><mo>+</mo><mn>3</mn><mi intent=':unit'>km</mi><mo>+</mo><mn>XIV</mn><mo>+</mo><mtext>for all </mtext><mi>x</mi></math>",
]


def pref_points():
    """(name, value) pairs: the values the comment of each prefs.yaml line names, plus the default, plus one wrong-kind value"""
    pts = []
    for n, (default, enums) in sorted(configs.prefs_yaml().items()):
        vals = list(dict.fromkeys(list(enums) + [default]))
        if default.replace(".", "", 1).replace("-", "", 1).isdigit():
            vals += ["0", "-50", "400"]
        for v in vals:
            pts.append((n, v))
    return pts


def pref_sweep_shard(spec):
    from . import c15_corpus
    st = core.Stats()
    deadline = time.time() + spec["time_budget"]
    corpus = SWEEP_EXTRA + c15_corpus.FIXED
    tail = [("get_spoken_text",), ("get_overview_text",), ("get_braille", ""), ("do_navigate_command", "ZoomIn"), ("do_navigate_command", "MoveNext"), ("get_navigation_braille",),
            ("do_navigate_command", "DescribeCurrent")]
    seen = set()
    for name, value, cfg_index in spec["points"]:
        if time.time() > deadline:
            st.count("stopped_by_time_budget")
            break
        with core.Session(CONFIGS[cfg_index], timeout=30) as sess:
            ops, owner = [("set_preference", name, value)], [None]
            for x in corpus:
                ops.append(("set_mathml", x))
                owner.append(x)
                for g_ in tail:
                    ops.append(g_)
                    owner.append(x)
            res = sess.batch(ops, timeout=180)
            if res is None:
                if isinstance(sess.last_failure, core.DriverTimeout):
                    st.inconclusive += 1
                    st.notes.append("watchdog in preference sweep: %s=%s" % (name, value))
                    continue
                # the driver died: find the culprit call by call
                how = core.describe_exit(sess.last_failure.returncode)
                st.violations.append(core.violation("abort", "abort | %s | preference sweep | %s" % (how, name), {"cfg": cfg_index, "kind": "prefsweep", "ops": [list(o) for o in ops]},
                                                    "driver died (%s) in the sweep of %s=%s" % (how, name, value)))
                continue
            st.count("preference_points_swept")
            st.add("preferences_swept", name)
            st.count("preference_accepted" if res[0]["r"] == "ok" else "preference_" + res[0]["r"])
            st.nontrivial.add(core.h16("prefsweep|%s|%s|%d" % (name, value, cfg_index)))
            for op, r, x in zip(ops, res, owner):
                st.evaluations += 1
                if r["r"] != "panic":
                    continue
                st.count("raw_panics")
                sig = panic_sig(op[0], r["p"])
                w = {"cfg": cfg_index, "kind": "prefsweep", "flavour": "native",
                     "ops": [["set_preference", name, value]] + ([["set_mathml", x]] if x is not None and op[0] != "set_mathml" else []) + [list(op)]}
                detail = "%s panicked with %s=%r on %s: %s at %s" % (op[0], name, value, (x or "")[:300], r["p"].get("msg", "")[:200], r["p"].get("loc"))
                if sig in seen:
                    detail = "(same signature, not minimised)"
                seen.add(sig)
                st.violations.append(core.violation("panic", sig, w, detail))
    return st.to_dict()


# --- Miri: the clean-up's tree surgery on the raw-pointer DOM, interpreted -------------------------------------------------------------------
def miri_cases(seed, n):
    """small degenerate-but-valid expressions (the inputs that make the clean-up delete, lift, merge and re-parent nodes) that neither panic
    nor die natively: under the interpreter every one of those pointer operations is checked"""
    from . import gen_degen
    rng = random.Random(seed)
    out = []
    with core.Driver("native") as d:
        d.init({"TTS": "None", "Language": "zz"})
        for _ in range(n * 6):
            g = gen_degen.Degenerate(rng, max_depth=rng.choice([2, 3]), id_policy=rng.choice(["none", "some"]), p_empty=rng.choice([0.12, 0.3]), size_cap=rng.choice([8, 14]), html=False)
            x = g.expression().xml()
            if len(x) > 700 or not all(ord(c) < 0x3000 for c in x):
                continue
            try:
                r = d.call("set_mathml", x)
            except (core.DriverDied, core.DriverTimeout):
                break
            if r["r"] in ("ok", "err"):
                out.append(x)
            if len(out) >= n:
                break
    return out


def miri_shard(spec):
    st = core.Stats()
    pre = [{"op": "set_rules_dir", "a": [core.RULES]}, {"op": "set_preference", "a": ["Language", "zz"]}, {"op": "set_preference", "a": ["TTS", "None"]}]
    ops = pre + [{"op": "set_mathml", "a": [x]} for x in spec["cases"]]
    results, stderr, rc = core.run_miri(ops, timeout=spec["timeout"])
    done = max(0, len(results) - len(pre))
    st.count("miri_set_mathml_results", done)
    if rc is None:
        st.notes.append("miri process stopped by its time limit (%d s) after %d of %d expressions" % (spec["timeout"], done, len(spec["cases"])))
    if "Undefined Behavior" in stderr:
        culprit = spec["cases"][min(done, len(spec["cases"]) - 1)]
        m = [l.strip() for l in stderr.splitlines() if "Undefined Behavior" in l or l.strip().startswith("-->")]
        where = next((l for l in m if "-->" in l and "/src/" in l), m[0] if m else "")
        st.violations.append(core.violation("miri", "miri | undefined-behavior | %s" % re.sub(r":\d+:\d+$", "", where.replace("-->", "").strip().split("/")[-1])[:60],
                                            {"cfg": 0, "kind": "miri", "flavour": "miri", "ops": [["set_mathml", culprit]]},
                                            "Miri (Tree Borrows) reports undefined behaviour in set_mathml of %s: %s" % (culprit[:400], " | ".join(m[:4]))))
    elif rc not in (0, None):
        st.notes.append("miri process ended with status %s after %d expressions without an undefined-behaviour report (unsupported operation or resource limit): %s" % (
            rc, done, stderr[-300:].replace("\n", " ")))
    with core.Driver("native") as d:
        d.init({"TTS": "None", "Language": "zz"})
        for x, r in zip(spec["cases"], results[len(pre):]):
            st.evaluations += 1
            native = d.call("set_mathml", x)
            a = strip_ids(r.get("v") or "") if r.get("r") == "ok" else r.get("r")
            b = strip_ids(native.get("v") or "") if native.get("r") == "ok" else native.get("r")
            if a != b:
                st.violations.append(core.violation("miri-differs", "miri-differs | set_mathml", {"cfg": 0, "kind": "miri", "flavour": "native", "ops": [["set_mathml", x]]},
                                                    "set_mathml gives another result under the interpreter than in the native build for %s: %r vs %r" % (x[:300], str(a)[:200], str(b)[:200])))
            else:
                st.count("miri_results_equal_to_native")
                st.nontrivial.add(core.h16("miri|" + x))
    return st.to_dict()


def miri_stage(seed, extra, n_proc=4, per=30, timeout=3000):
    """the interpreter needs ~15 min before its first answer (rule loading), then seconds per expression: n_proc processes side by side"""
    try:
        cases = miri_cases(core.sub_seed(seed, PROP, "miri"), n_proc * per)
        mr = core.run_shards(miri_shard, [{"cases": cases[i::n_proc], "timeout": timeout} for i in range(n_proc)], procs=n_proc)
        extra["miri"] = {"flags": "-Zmiri-disable-isolation -Zmiri-tree-borrows", "language": "zz", "processes": n_proc, "expressions": len(cases),
                         "results": sum((x.get("counters") or {}).get("miri_set_mathml_results", 0) for x in mr if x),
                         "note": "Stacked Borrows is not used: it objects to the XML DOM dependency (sxd-document) on the first parse; a process that "
                                 "runs into its time limit or an unsupported operation is stated in the notes, never judged"}
        return mr
    except (core.Inconclusive, OSError) as e:
        extra["miri"] = {"not_run": str(e)[:300]}
        return []


# --- fixed obligations: uninitialised use, key codes, nesting depth ----------------------------------------------------------------------
ALL_CALLS = [("get_version",), ("get_spoken_text",), ("get_overview_text",), ("get_braille", ""), ("get_braille", "x"), ("get_navigation_braille",), ("get_navigation_mathml",),
             ("get_navigation_mathml_id",), ("get_braille_position",), ("get_navigation_node_from_braille_position", 0), ("get_navigation_node_from_braille_position", 7),
             ("do_navigate_command", "ZoomIn"), ("do_navigate_command", "MoveNext"), ("do_navigate_keypress", 39, False, False, False, False), ("set_navigation_node", "x", 0),
             ("set_navigation_node", "", 0), ("get_preference", "Language"), ("set_preference", "Language", "en"), ("set_preference", "Verbosity", "Terse"), ("set_mathml", PROBE),
             ("set_mathml", "<math/>"), ("set_mathml", ""), ("set_rules_dir", "/nonexistent"), ("set_rules_dir", "")]


def fixed_shard(spec):
    st = core.Stats()
    which = spec["which"]
    if which == "uninit":
        # every entry point as the first call of a process, without and with set_rules_dir, without an expression
        for with_rules in (False, True):
            for call in ALL_CALLS:
                d = core.Driver("native", timeout=60)
                try:
                    seq = ([("set_rules_dir", core.RULES)] if with_rules else []) + [call] + [c for c in ALL_CALLS if c[0].startswith("get_")][:6]
                    for c in seq:
                        try:
                            r = d.call(*c)
                        except core.DriverDied as e:
                            st.violations.append(core.violation("abort", "abort | %s | %s | uninitialised" % (core.describe_exit(e.returncode), c[0]), {"fixed": "uninit", "with_rules": with_rules, "ops": [list(x) for x in seq]},
                                                                "driver died in %s (rules dir set: %s)" % (c, with_rules)))
                            break
                        except core.DriverTimeout:
                            st.inconclusive += 1
                            break
                        st.evaluations += 1
                        if r["r"] == "panic":
                            st.violations.append(core.violation("panic", panic_sig(c[0], r["p"]) + " | " + ("no expression set" if with_rules else "no rules dir set"),
                                                                {"fixed": "uninit", "with_rules": with_rules, "ops": [list(call), list(c)] if c != call else [list(c)]},
                                                                "%s panicked (rules dir set: %s, no expression): %s at %s" % (c, with_rules, r["p"].get("msg", "")[:200], r["p"].get("loc"))))
                    st.nontrivial.add(core.h16("uninit%s%s" % (with_rules, call)))
                finally:
                    d.close()
        # ... and after such a first call (most of them fail: there is no expression yet) a valid expression must give exactly what it gives
        # without that call -- under preferences that the failing call might touch on its way (highlighting Off, a navigation mode, an engine)
        probe = PROBE.replace("<mi>z</mi>", "<mi id='pz'>z</mi>")
        tail = [("set_mathml", probe), ("get_spoken_text",), ("get_braille", ""), ("get_braille", "pz"), ("get_overview_text",), ("do_navigate_command", "ZoomIn"),
                ("get_navigation_braille",), ("get_braille_position",), ("get_preference", "BrailleNavHighlight"), ("get_preference", "NavMode"), ("get_preference", "TTS")]
        for prefs in ({"TTS": "None", "BrailleNavHighlight": "Off", "BrailleCode": "Nemeth"}, {"TTS": "SSML", "BrailleNavHighlight": "FirstChar", "BrailleCode": "UEB", "NavMode": "Simple"}):
            pre = [("set_rules_dir", core.RULES)] + [("set_preference", k, v) for k, v in prefs.items()]
            ref = None
            for call in [None] + [c for c in ALL_CALLS if c[0] not in ("set_rules_dir", "set_preference", "set_mathml")]:
                d = core.Driver("native", timeout=60)
                try:
                    res = d.batch(pre + ([call] if call else []) + tail)
                except (core.DriverDied, core.DriverTimeout):
                    st.inconclusive += 1
                    continue
                finally:
                    d.close()
                got = [result_key(r) for r in res[-len(tail):]]
                st.evaluations += 1
                if call is None:
                    ref = got
                    continue
                st.nontrivial.add(core.h16("uninit-recovery%s%s" % (sorted(prefs.items()), call)))
                if ref is not None and got != ref:
                    i = next(k for k in range(len(tail)) if got[k] != ref[k])
                    st.violations.append(core.violation("not-recovered", "not-recovered | after %s as first call | %s" % (call[0], tail[i][0]),
                                                        {"fixed": "uninit", "with_rules": True, "ops": [list(x) for x in pre[1:] + [call] + tail]},
                                                        "after %s (no expression set yet) %s gives %r, without that call %r (preferences %s)" % (call, tail[i], got[i], ref[i], prefs)))
    elif which == "keys":
        # all key codes 0..255 x 16 modifier sets, on a table expression (keys are meaningful there)
        expr = "<math><mrow><mo>(</mo><mtable><mtr><mtd><mn>1</mn></mtd><mtd><mi>x</mi></mtd></mtr><mtr><mtd><mfrac><mn>1</mn><mn>2</mn></mfrac></mtd><mtd><msup><mi>y</mi><mn>2</mn></msup></mtd></mtr></mtable><mo>)</mo></mrow></math>"
        with core.Session(CONFIGS[0]) as s:
            s.call("set_mathml", expr)
            for key in range(spec["lo"], spec["hi"]):
                for mods in range(16):
                    c = ("do_navigate_keypress", key, bool(mods & 1), bool(mods & 2), bool(mods & 4), bool(mods & 8))
                    r = s.call(*c)
                    if r is None:
                        st.violations.append(core.violation("abort", "abort | - | do_navigate_keypress | key sweep", {"fixed": "keys", "ops": [["set_mathml", expr], list(c)]}, "driver died on %s" % (c,)))
                        s.call("set_mathml", expr)
                        continue
                    st.evaluations += 1
                    st.count("result_" + r["r"])
                    if r["r"] == "panic":
                        st.violations.append(core.violation("panic", panic_sig(c[0], r["p"]), {"fixed": "keys", "cfg": 0, "ops": [["set_mathml", expr], list(c)]}, "%s panicked: %s" % (c, r["p"].get("msg", "")[:200])))
                    st.nontrivial.add(core.h16("key%d-%d" % (key, mods)))
    elif which == "depth":
        # explicit resource obligation: nesting depth <= 256 never overflows an 8 MiB stack; deeper levels are only measured
        for tag in spec["tags"]:
            for depth in (32, 128, 256):
                xml = gen_hostile.nested(tag, depth)
                with core.Session(CONFIGS[spec.get("cfg", 0)], timeout=120) as s:
                    t0 = time.time()
                    res = s.batch([("set_mathml", xml), ("get_spoken_text",), ("get_braille", ""), ("get_overview_text",), ("do_navigate_command", "ZoomInAll"), ("get_navigation_braille",)], timeout=300)
                    st.evaluations += 1
                    if res is None:
                        f = s.last_failure
                        if isinstance(f, core.DriverTimeout):
                            st.inconclusive += 1
                            continue
                        st.violations.append(core.violation("abort", "abort | %s | nesting depth <= 256 | %s" % (core.describe_exit(f.returncode), tag), {"fixed": "depth", "tag": tag, "depth": depth},
                                                            "driver died (%s) on %s nested %d deep" % (core.describe_exit(f.returncode), tag, depth)))
                        break
                    for r, name in zip(res, ["set_mathml", "get_spoken_text", "get_braille", "get_overview_text", "do_navigate_command", "get_navigation_braille"]):
                        if r["r"] == "panic":
                            st.violations.append(core.violation("panic", panic_sig(name, r["p"]) + " | nesting", {"fixed": "depth", "tag": tag, "depth": depth}, "%s panicked on %s nested %d deep: %s" % (name, tag, depth, r["p"].get("msg", "")[:200])))
                    st.counters["depth_%s_%d_seconds_x10" % (tag, depth)] = int((time.time() - t0) * 10)
                    st.nontrivial.add(core.h16("depth%s%d" % (tag, depth)))
    return st.to_dict()


def replay(witness):
    st = core.Stats()
    if witness.get("fixed") == "depth":
        return fixed_shard({"which": "depth", "tags": [witness["tag"]]})["violations"]
    if witness.get("fixed") == "deep-overflow":
        xml = gen_hostile.nested(witness["tag"], witness["depth"])
        with core.Session(CONFIGS[0], timeout=300) as s:
            res = s.batch([("set_mathml", xml), ("get_spoken_text",)], timeout=600)
            if res is None and isinstance(s.last_failure, core.DriverDied):
                return [core.violation("abort", "abort | stack overflow | nesting depth %d | %s" % (witness["depth"], witness["tag"]), witness, "driver died (%s)" % core.describe_exit(s.last_failure.returncode))]
        return []
    flavour = witness.get("flavour", "native")
    core.build_driver(flavour)
    out = []
    d = core.Driver(flavour, timeout=120, stack_kb=8192 if flavour == "native" else 65536)    # same stacks as run_session
    try:
        if witness.get("fixed") == "uninit":
            if witness.get("with_rules"):
                d.call("set_rules_dir", core.RULES)
        else:
            d.init(CONFIGS[witness.get("cfg", 0)])
        suffix = ""
        if witness.get("fixed") == "uninit":
            suffix = " | " + ("no expression set" if witness.get("with_rules") else "no rules dir set")
        for c in witness["ops"]:
            c = tuple(c)
            try:
                r = d.call(*c)
            except core.DriverDied as e:
                how = core.describe_exit(e.returncode)
                sig = "abort | %s | set_mathml+getters | degenerate" % how if witness.get("kind") == "bulk" else "abort | %s | %s | -" % (how, c[0])
                out.append(core.violation("abort", sig, witness, "driver died"))
                break
            except core.DriverTimeout:
                break
            if r["r"] == "panic":
                out.append(core.violation("panic", panic_sig(c[0], r["p"]) + suffix, witness, r["p"].get("msg", "")[:300]))
    finally:
        d.close()
    return out


# --- predicates of the known findings (over the minimal witness) ---------------------------------------------------------------------------
PSEUDO = set("\"'*`ª°²³´¹º‘’“”„‟′″‴‵‶‷⁗")
SCRIPTED = ("msub", "msup", "msubsup", "munder", "mover", "munderover", "mmultiscripts")


def _witness_tree(v):
    for op in v["witness"].get("ops", []):
        if op and op[0] == "set_mathml":
            try:
                return gen.from_xml(op[1]), op[1]
            except Exception:
                return None, op[1]
    return None, ""


def pred_internal_attribute(v, params):
    """the input carries MathCAT's own bookkeeping attribute data-changed (e.g. 'empty_content' on an element that has content)"""
    _, xml = _witness_tree(v)
    return "data-changed=" in xml


def pred_pseudo_script_row(v, params):
    """an mrow that consists of pseudo-script operators only (primes, degree, ...) and is not the first child of its parent row"""
    tree, _ = _witness_tree(v)
    if tree is None:
        return False
    for n, path in tree.walk():
        if n.tag == "mrow" and n.kids and path and path[-1] > 0 and all(k.kids is None and k.tag == "mo" and (k.text or "") in PSEUDO for k in n.kids):
            return True
    return False


def pred_empty_base_before_fence(v, params):
    """a script / under-over element whose base is an empty token, followed in the same row by a close fence"""
    tree, _ = _witness_tree(v)
    if tree is None:
        return False
    for n, _ in tree.walk():
        kids = n.kids or []
        for i, k in enumerate(kids):
            if k.tag in SCRIPTED and k.kids and k.kids[0].kids is None and (k.kids[0].text or "").strip() == "":
                if any(s.kids is None and s.tag == "mo" and (s.text or "") in ")]}⟩⌉⌋|‖" for s in kids[i + 1:]):
                    return True
    return False


def pred_styled_letters(v, params):
    """a token with letters in a mathematical typeface (mathvariant attribute or mathematical alphanumeric characters): the braille
    typeform/capital state machines of the UEB family and the Vietnam roman-numeral code mis-index on them"""
    tree, xml = _witness_tree(v)
    if tree is None:
        return False
    for n, _ in tree.walk():
        if n.kids is None and n.tag in ("mi", "mn", "mtext", "mo"):
            t = n.text or ""
            if any(0x1D400 <= ord(c) <= 0x1D7FF for c in t):
                return True
            if n.attrs.get("mathvariant", "normal") not in ("normal", "") and any(c.isalpha() for c in t):
                return True
    return False


def pred_empty_like_base_before_fence(v, params):
    """a script / under-over element whose base renders nothing (empty token, mphantom, mspace, empty row), followed in the same row by a close fence or bar"""
    from . import canon_run
    tree, _ = _witness_tree(v)
    if tree is None:
        return False
    for n, _ in tree.walk():
        kids = n.kids or []
        for i, k in enumerate(kids):
            if k.tag in SCRIPTED and k.kids and canon_run.is_empty_like(k.kids[0]):
                if any(s_.kids is None and s_.tag == "mo" and (s_.text or "") in _right_fences() for s_ in kids[i + 1:]):
                    return True
    return False


_RF = []


def _right_fences():
    if not _RF:
        from . import opdict
        _RF.append(set(t for t, forms in opdict.load().items() if any(f == "RIGHT_FENCE" for f, _ in forms)) | set("|‖"))
    return _RF[0]


core.PREDICATES["c08_styled_letters"] = pred_styled_letters
core.PREDICATES["c08_empty_like_base_before_fence"] = pred_empty_like_base_before_fence
core.PREDICATES["c08_internal_attribute"] = pred_internal_attribute
core.PREDICATES["c08_pseudo_script_row"] = pred_pseudo_script_row
core.PREDICATES["c08_empty_base_before_fence"] = pred_empty_base_before_fence


def make_sessions(seed, n_sessions, n_ops):
    rng = random.Random(seed)
    out = []
    for i in range(n_sessions):
        k = rng.random()
        kind = "hostile" if k < 0.8 else "prefs" if k < 0.93 else "uninit"
        out.append({"seed": core.sub_seed(seed, "sess", i), "kind": kind, "cfg": rng.randrange(len(CONFIGS)), "n": n_ops if kind != "uninit" else 25})
    return out


def run(tier, seed):
    t0 = time.time()
    core.build_driver("native")
    nsh = core.NPROC
    n_sessions, n_ops = (14, 150) if tier == "quick" else (700, 250)
    budget = 45 if tier == "quick" else 1500
    specs = [{"sessions": make_sessions(core.sub_seed(seed, PROP, i), n_sessions, n_ops), "time_budget": budget, "record": i == 0} for i in range(nsh)]
    results = core.run_shards(shard, specs)
    bulk = [{"seed": core.sub_seed(seed, PROP, "bulk", i), "cfg": i % len(CONFIGS), "n": 4000 if tier == "quick" else 150000, "time_budget": 35 if tier == "quick" else 900} for i in range(nsh)]
    results += core.run_shards(bulk_shard, bulk)
    pts = pref_points()
    sweep_cfgs = (0, 1) if tier == "quick" else (0, 1, 2, 3, 4, 5, 6, 7)
    allp = [(n, v, c) for c in sweep_cfgs for (n, v) in pts]
    results += core.run_shards(pref_sweep_shard, [{"points": allp[i::nsh], "time_budget": 40 if tier == "quick" else 900} for i in range(nsh)])
    tags = ["mrow", "msqrt", "mfrac", "msup", "mstyle", "mfenced", "menclose", "mpadded", "munder", "mtable"]
    fixed = [{"which": "uninit"}] + [{"which": "keys", "lo": lo, "hi": lo + 64} for lo in range(0, 256, 64)] + [{"which": "depth", "tags": tags[i::3], "cfg": i} for i in range(3)]
    results += core.run_shards(fixed_shard, fixed)
    # the same kind of workload in instrumented builds: debug assertions + overflow checks, AddressSanitizer
    extra = {"instrumented_runs": {}}
    for flavour in sanit.plan(PROP, tier):
        try:
            core.build_driver(flavour)
        except core.Inconclusive as e:
            results.append({"harness_error": "build of %s driver failed: %s" % (flavour, e)})
            continue
        n_s, n_o = (2, 100) if tier == "quick" else (40, 200)
        sub = [{"sessions": make_sessions(core.sub_seed(seed, PROP, flavour, i), n_s, n_o), "time_budget": 25 if tier == "quick" else 900, "flavour": flavour} for i in range(nsh)]
        r = core.run_shards(shard, sub)
        extra["instrumented_runs"][flavour] = {"calls": sum(x.get("evaluations", 0) for x in r if x and "evaluations" in x),
                                               "violations": sum(len(x.get("violations", [])) for x in r if x and "violations" in x)}
        results += r
    if tier == "thorough" and os.environ.get("VERIF_NO_MIRI") != "1":
        results += miri_stage(seed, extra)
    stats, errors = core.Stats.merge(results)
    known, fixed_failures, extra_v = core.replay_findings(PROP, replay)
    stats.violations.extend(extra_v)
    return core.conclude(
        PROP, tier, seed, "exploration", stats, extra,
        ["stack depth is a resource: the obligation checked is 'no overflow for nesting depth <= 256 on an 8 MiB stack'; deeper nesting is the recorded known finding",
         "non-termination is restated as bounded progress: a call that exceeds the 20 s watchdog is inconclusive (counted, listed), slow calls are listed",
         "recovery is judged against a fresh session with the same fixed configuration; sessions in which a random set_preference succeeded are only judged for no-crash"],
        t0,
        rule="random sessions of library calls, one protocol call per library call: hostile strings as MathML (degenerate, wrong arity for every fixed-arity element, unknown/foreign "
             "elements, mixed content, hostile attributes, garbage, byte-level mutations, big/deep/wide inputs), all getters, navigation commands (all names from navigate.rs + garbage), "
             "key presses, set_navigation_node / braille-position lookups with valid and invalid ids/offsets/positions, random preference pairs, under 8 configurations, plus "
             "uninitialised use; fixed sweeps: every entry point as first call, all 256 key codes x 16 modifier sets, nesting depth 32/128/256 for 10 element kinds; a panic, "
             "abort or poisoned follow-up is a violation, after errors a probe expression must give fresh-session outputs; non-trivial = distinct MathML strings judged / sweep points",
        min_nontrivial=500, harness_errors=errors, known_replayed=known, fixed_failures=fixed_failures)
