"""MathML helpers shared by the oracles: parsing MathCAT output with Python's own XML parser,
id stripping, token flattening.  Shares no code with MathCAT."""
import re
import xml.etree.ElementTree as ET
from xml.sax.saxutils import escape as _xml_escape

MATHML_NS = "http://www.w3.org/1998/Math/MathML"
TOKENS = ("mi", "mn", "mo", "mtext", "ms", "mglyph")
LEAVES = ("mi", "mn", "mo", "mtext", "ms", "mspace", "mglyph", "none", "mprescripts", "malignmark", "maligngroup")


def esc(s):
    return _xml_escape(s, {'"': "&quot;", "'": "&apos;"})


def local(tag):
    if tag.startswith("{"):
        return tag.split("}", 1)[1]
    return tag


def parse(xml):
    """Strict XML parse; returns the root Element or raises ET.ParseError."""
    return ET.fromstring(xml)


def children(e):
    return list(e)


def text_of(e):
    """All character data below e (tokens may contain HTML in odd inputs)."""
    return "".join(e.itertext())


_ID_ATTR = re.compile(r"""\s(?:id|data-id-added)=(?:'[^']*'|"[^"]*")""")


def strip_ids(xml):
    """Remove id and data-id-added attributes (ids contain a time/random prefix)."""
    return _ID_ATTR.sub("", xml)


_ADDED_ID = re.compile(r"""\sid='(M[0-9a-z]{7}-\d+)' data-id-added='true'""")


def strip_added_ids(xml):
    """Remove only the ids MathCAT generated (keeps author ids)."""
    return _ADDED_ID.sub("", xml)


def ids_of(root):
    out = []
    for e in root.iter():
        i = e.get("id")
        if i is not None:
            out.append(i)
    return out


def all_elements(root):
    return list(root.iter())


def leaf_tokens(root):
    """(tag, text, element) of every token element in document order."""
    out = []
    for e in root.iter():
        t = local(e.tag)
        if t in ("mi", "mn", "mo", "mtext", "ms"):
            out.append((t, text_of(e), e))
    return out


def flat_text(root):
    return "".join(t[1] for t in leaf_tokens(root))


def skeleton(e, depth=0, maxdepth=6):
    """element skeleton used in signatures: tag(child,child,...)"""
    t = local(e.tag)
    kids = list(e)
    if not kids or depth >= maxdepth:
        return t
    return t + "(" + ",".join(skeleton(k, depth + 1, maxdepth) for k in kids) + ")"
