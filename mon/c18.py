"""C18 — mathvariant maps characters to the right Unicode math letters.
Exhaustive over the finite table; oracle = Unicode Character Database (Python's unicodedata), no MathCAT code."""
import os
import random
import time
import unicodedata

from . import core, mml, sanit

PROP = "C18"

STYLE_WORDS = [  # longest first
    ("SANS-SERIF BOLD ITALIC", "sans-serif-bold-italic"),
    ("SANS-SERIF BOLD", "bold-sans-serif"),
    ("SANS-SERIF ITALIC", "sans-serif-italic"),
    ("SANS-SERIF", "sans-serif"),
    ("BOLD ITALIC", "bold-italic"),
    ("BOLD FRAKTUR", "bold-fraktur"),
    ("BOLD SCRIPT", "bold-script"),
    ("BOLD", "bold"),
    ("ITALIC", "italic"),
    ("DOUBLE-STRUCK", "double-struck"),
    ("SCRIPT", "script"),
    ("FRAKTUR", "fraktur"),
    ("BLACK-LETTER", "fraktur"),
    ("MONOSPACE", "monospace"),
]
MAPPED = ["italic", "bold", "bold-italic", "double-struck", "bold-fraktur", "script", "bold-script", "fraktur",
          "sans-serif", "bold-sans-serif", "sans-serif-italic", "sans-serif-bold-italic", "monospace"]
UNMAPPED = ["normal", "initial", "tailed", "looped", "stretched", "no-such-variant", "BOLD", ""]

LATIN = [chr(c) for c in range(0x41, 0x5B)] + [chr(c) for c in range(0x61, 0x7B)]
DIGITS = [chr(c) for c in range(0x30, 0x3A)]
GREEK = [chr(c) for c in range(0x391, 0x3AA) if c != 0x3A2] + [chr(c) for c in range(0x3B1, 0x3CA)]
VARIANT_SYMBOLS = list("ϴ∇∂ϵϑϰϕϱϖ")
DIGAMMA = list("Ϝϝ")
OUTSIDE = list("=*+!?%#@") + ["é", "Ж", "あ", "𝐀", "𝟘", "ℂ", "ℏ", "∞", "€", "ı", "ȷ", "Å", "ß", "ϐ", "ϒ", "א", "ℵ", "¼", "٣", "Ａ", "ａ", "０",
                                "́", "ﬁ", "Ω", "K", "𝛂", "😀", " x", "中"]
# compatibility look-alikes of letters (written as escapes: an editor that NFC-normalises this file would silently turn them into the plain
# letters): Unicode has no styled forms of them, so they stay unchanged, and they must not collide with the styled forms of the letters
OUTSIDE += ["\u212a", "\u2126", "\u212b", "\u00b5", "\u00aa", "\u00ba", "\u1d2c", "\u1d43", "\u24b6", "\u2160", "\u217a", "\u0251", "\u0261", "\u03c2",
            "\u1e9e", "\u0410", "\u0430", "\u0391\u0301", "k\u2126", "\u00b5m"]
DOMAIN = LATIN + DIGITS + GREEK + VARIANT_SYMBOLS + DIGAMMA


def ucd_table():
    """T[style][base char] = styled code point, from the <font> decompositions in the UCD."""
    T = {}
    ranges = list(range(0x1D400, 0x1D800)) + list(range(0x2100, 0x2150))
    for cp in ranges:
        ch = chr(cp)
        dec = unicodedata.decomposition(ch)
        if not dec.startswith("<font> "):
            continue
        parts = dec.split()[1:]
        if len(parts) != 1:
            continue
        base = chr(int(parts[0], 16))
        name = unicodedata.name(ch, "")
        if name == "PLANCK CONSTANT":
            style = "italic"
        else:
            n = name[len("MATHEMATICAL "):] if name.startswith("MATHEMATICAL ") else name
            style = None
            for words, s in STYLE_WORDS:
                if n.startswith(words + " "):
                    style = s
                    break
            if style is None:
                continue
        T.setdefault(style, {})
        # the first (plane-1) and the letterlike code point never both exist for one (style, base)
        T[style].setdefault(base, ch)
    return T


TABLE = ucd_table()

DIGIT_FALLBACK = {"italic": None, "bold-italic": "bold", "sans-serif-italic": "sans-serif", "sans-serif-bold-italic": "bold-sans-serif"}
GREEK_FALLBACK = {"bold-script": "bold", "bold-fraktur": "bold"}


def acceptable(style, ch):
    """Set of outputs the statement allows for ch under mathvariant=style."""
    if style not in MAPPED:
        return {ch}
    t = TABLE.get(style, {})
    in_domain = ch in DOMAIN
    if not in_domain:
        # outside the mapping table: unchanged (or the UCD's styled form if one exists)
        return {ch} | ({t[ch]} if ch in t else set())
    if style == "italic" and ch in LATIN:
        return {ch}                      # plain italic Latin is the default math style
    if ch in t:
        return {t[ch]}
    # Unicode has no such character: nearest documented style, or unchanged
    out = {ch}
    if ch in DIGITS and style in DIGIT_FALLBACK and DIGIT_FALLBACK[style]:
        out = {TABLE[DIGIT_FALLBACK[style]][ch]}
    elif ch in DIGITS and style == "italic":
        out = {ch}
    elif (ch in GREEK or ch in VARIANT_SYMBOLS or ch in DIGAMMA) and style in GREEK_FALLBACK:
        fb = TABLE[GREEK_FALLBACK[style]]
        out = {fb[ch]} if ch in fb else {ch}
    return out


def cases():
    """every (element, style, text) of the exhaustive workload; text is a single char or a whole alphabet"""
    out = []
    for style in MAPPED + UNMAPPED:
        for elem in ("mi", "mn", "mo", "mtext", "ms"):
            if style in UNMAPPED and elem not in ("mi", "mtext"):
                continue
            for ch in DOMAIN + OUTSIDE:
                out.append((elem, style, ch))
            for blob in ("".join(LATIN), "".join(DIGITS), "".join(GREEK + VARIANT_SYMBOLS + DIGAMMA), "aB3" + "βΓ" + "=x"):
                out.append((elem, style, blob))
        for dep in DEPRECATED:
            for elem in ("mi", "mn"):
                for blob in ("".join(LATIN), "".join(DIGITS), "".join(GREEK + VARIANT_SYMBOLS + DIGAMMA), "R", "x"):
                    out.append((elem + dep, style, blob))
    return out


DEPRECATED = {"+bold": " fontweight='bold'", "+italic": " fontstyle='italic'", "+both": " fontweight='bold' fontstyle='italic'", "+normal": " fontweight='normal' fontstyle='normal'"}


def make_input(elem, style, text):
    # 'mi+bold' etc.: the token also carries MathML 2's deprecated fontweight / fontstyle; MathML 3 says mathvariant overrides them, so the
    # expected characters are exactly those of the mathvariant alone
    tag, _, dep = elem.partition("+")
    return "<math><%s mathvariant='%s'%s>%s</%s></math>" % (tag, mml.esc(style), DEPRECATED["+" + dep] if dep else "", mml.esc(text), tag)


def judge(elem, style, text, res):
    """returns list of (kind, sig, detail)"""
    if res["r"] == "panic":
        return [("panic", "panic:%s" % res["p"]["fn"].split(" <- ")[0], res["p"]["msg"])]
    if res["r"] != "ok":
        return [("error", "error:%s" % style, res.get("e", "")[:300])]
    if res.get("bad_utf8"):
        return [("invalid-utf8", "invalid-utf8:%s" % style, "returned string is not valid UTF-8")]
    try:
        root = mml.parse(res["v"])
    except Exception as e:
        return [("unparsable", "unparsable:%s" % style, str(e))]
    got = mml.flat_text(root)
    inp = list(text)
    out = list(got)
    bad = []
    for c in out:
        cat = unicodedata.category(c)
        if cat in ("Cn", "Cs"):
            bad.append(("unassigned", "unassigned:%s:U+%04X" % (style, ord(c)), "output contains unassigned/invalid code point U+%04X" % ord(c)))
    if len(inp) != len(out):
        # ms adds no quotes in canonical MathML; any change of length is a change of characters
        bad.append(("length", "length:%s:%s" % (style, elem), "input %r gave %r" % (text, got)))
        return bad
    for a, b in zip(inp, out):
        acc = acceptable(style, a)
        if b not in acc:
            cls = "latin" if a in LATIN else "digit" if a in DIGITS else "greek" if a in GREEK or a in VARIANT_SYMBOLS or a in DIGAMMA else "outside"
            bad.append(("wrong-char", "wrong-char:%s:%s" % (style, cls),
                        "mathvariant=%s on <%s>: U+%04X %s -> U+%04X (%s); allowed: %s" % (
                            style, elem, ord(a), a, ord(b), unicodedata.name(b, "?"), ",".join("U+%04X" % ord(x) for x in sorted(acc)))))
            break
    return bad


# ---------------------------------------------------------------------------------------------
# the token's OWN mathvariant decides, wherever the token sits: inside an mstyle that carries another mathvariant (with one or several
# children, directly or below an mfrac/msup), next to siblings with other values
# ---------------------------------------------------------------------------------------------
CONTEXTS = ["mstyle-multi", "mstyle-single", "mstyle-deep", "siblings"]


def context_cases():
    out = []
    outer = ["bold", "italic", "fraktur", "normal", "double-struck", "sans-serif-bold-italic"]
    for own in MAPPED + ["normal"]:
        for v in outer:
            if v == own:
                continue
            for elem in ("mi", "mtext", "mn"):
                for blob in ("".join(LATIN), "".join(DIGITS), "".join(GREEK), "g", "A", "7"):
                    for ctx in CONTEXTS:
                        out.append((elem, own, blob, v, ctx))
    return out


def context_input(elem, own, text, v, ctx):
    tok = "<%s id='T' mathvariant='%s'>%s</%s>" % (elem, mml.esc(own), mml.esc(text), elem)
    if ctx == "mstyle-multi":
        return "<math><mstyle mathvariant='%s'><mi>A</mi><mo>+</mo>%s</mstyle></math>" % (v, tok)
    if ctx == "mstyle-single":
        return "<math><mi>A</mi><mo>=</mo><mstyle mathvariant='%s'>%s</mstyle></math>" % (v, tok)
    if ctx == "mstyle-deep":
        return "<math><mstyle mathvariant='%s'><mi>A</mi><mo>+</mo><mfrac><msup>%s<mn>2</mn></msup><mi>b</mi></mfrac></mstyle></math>" % (v, tok)
    return "<math><mi mathvariant='%s'>A</mi><mo>+</mo>%s<mo>+</mo><mi mathvariant='%s'>b</mi></math>" % (v, tok, v)


def context_shard(spec):
    st = core.Stats()
    with core.Driver("native", timeout=20) as d:
        d.init({"TTS": "None"})
        for (elem, own, text, v, ctx) in spec["cases"]:
            xml = context_input(elem, own, text, v, ctx)
            try:
                res = d.call("set_mathml", xml)
            except core.DriverDied:
                st.inconclusive += 1
                return st.to_dict()
            st.evaluations += 1
            if res["r"] != "ok":
                st.count("context_set_mathml_not_ok")
                continue
            try:
                root = mml.parse(res["v"])
            except Exception:
                continue
            target = [e for e in root.iter() if e.get("id") == "T"]
            if len(target) != 1 or len(target[0]) != 0:
                st.count("context_token_not_located")         # merged with a neighbour (digits) or restructured: not judged here
                continue
            reduced = dict(res, v="<math><%s>%s</%s></math>" % (elem, mml.esc(target[0].text or ""), elem))
            problems = judge(elem, own, text, reduced)
            for kind, sig, detail in problems:
                st.violations.append(core.violation(kind, "%s | token inside %s[%s]" % (sig, ctx, "other value"), {"elem": elem, "style": own, "text": text, "outer": v, "context": ctx},
                                                    "%s | input %s" % (detail, xml)))
                break
            if not problems:
                st.count("context_tokens_judged")
                st.nontrivial.add(core.h16("ctx|%s|%s|%s|%s|%s" % (elem, own, text, v, ctx)))
    return st.to_dict()


def shard(spec):
    st = core.Stats()
    flavour = spec.get("flavour", "native")
    with core.Driver(flavour, timeout=60 if flavour != "native" else 20) as d:
        d.init({"TTS": "None"})
        images = {}
        for (elem, style, text) in spec["cases"]:
            xml = make_input(elem, style, text)
            try:
                res = d.call("set_mathml", xml)
            except core.DriverDied as e:
                st.violations.append(core.violation("abort", "abort:%s:%s" % (flavour, core.describe_exit(e.returncode)),
                                                    {"elem": elem, "style": style, "text": text, "flavour": flavour},
                                                    "driver died (%s) on %s\n%s" % (core.describe_exit(e.returncode), xml, e.stderr_tail[-1500:])))
                return st.to_dict()
            st.evaluations += 1
            problems = judge(elem, style, text, res)
            for kind, sig, detail in problems:
                st.violations.append(core.violation(kind, sig, {"elem": elem, "style": style, "text": text, "flavour": flavour}, detail))
            if res["r"] == "ok" and not problems:
                got = mml.flat_text(mml.parse(res["v"]))
                if got != text:
                    st.nontrivial.add(core.h16("%s|%s|%s" % (elem, style, text)))
                    st.count("changed_tokens")
                    if len(text) == 1 and style == "script" and text == "B":
                        st.sample({"input": xml, "token_text_out": got, "expected_from_UCD": unicodedata.name(got)})
                else:
                    st.count("unchanged_tokens")
                if len(text) == 1 and text in DOMAIN and style in MAPPED:
                    images.setdefault((elem, style), {}).setdefault(got, set()).add(text)
                st.add("styles", style)
                st.add("elements", elem)
        # one-to-one within a style
        for (elem, style), img in images.items():
            for out_ch, srcs in img.items():
                if len(srcs) > 1:
                    st.violations.append(core.violation("not-injective", "not-injective:%s" % style,
                                                        {"elem": elem, "style": style, "text": "".join(sorted(srcs)), "flavour": flavour},
                                                        "mathvariant=%s maps %s all to U+%04X" % (style, sorted(srcs), ord(out_ch[0]) if out_ch else 0)))
            st.count("injectivity_checks")
    return st.to_dict()


def miri_shard(spec):
    """set_mathml of a sample of the table under Miri (Language=zz keeps rule loading feasible): constructing an invalid char at the
    from_u32_unchecked site is reported as undefined behaviour by the interpreter itself; results must equal the native run's"""
    st = core.Stats()
    ops = [{"op": "set_rules_dir", "a": [core.RULES]}, {"op": "set_preference", "a": ["Language", "zz"]}, {"op": "set_preference", "a": ["TTS", "None"]}]
    for (elem, style, text) in spec["cases"]:
        ops.append({"op": "set_mathml", "a": [make_input(elem, style, text)]})
    results, stderr, rc = core.run_miri(ops, timeout=spec["timeout"])
    if rc is None:
        st.inconclusive += 1
        st.notes.append("miri shard timed out after %d s with %d results" % (spec["timeout"], len(results)))
    st.count("miri_results", max(0, len(results) - 3))
    if "Undefined Behavior" in stderr or (rc not in (0, None)):
        n_done = max(0, len(results) - 3)
        culprit = spec["cases"][n_done] if n_done < len(spec["cases"]) else spec["cases"][-1]
        m = [l for l in stderr.splitlines() if "Undefined Behavior" in l or l.strip().startswith("-->")]
        st.violations.append(core.violation("miri", "miri:%s" % ("undefined-behavior" if "Undefined Behavior" in stderr else "exit-%s" % rc),
                                            {"elem": culprit[0], "style": culprit[1], "text": culprit[2], "flavour": "miri"},
                                            "Miri stopped (rc=%s) at case %d %r: %s" % (rc, n_done, culprit, " | ".join(m[:4]) or stderr[-600:])))
    with core.Driver("native") as d:
        d.init({"TTS": "None", "Language": "zz"})
        for (elem, style, text), r in zip(spec["cases"], results[3:]):
            st.evaluations += 1
            native = d.call("set_mathml", make_input(elem, style, text))
            a = mml.strip_ids(r.get("v") or "") if r.get("r") == "ok" else r.get("r")
            b = mml.strip_ids(native.get("v") or "") if native.get("r") == "ok" else native.get("r")
            if a != b:
                st.violations.append(core.violation("miri-differs", "miri-differs:%s" % style, {"elem": elem, "style": style, "text": text, "flavour": "miri"},
                                                    "result under Miri differs from the native build for %s" % make_input(elem, style, text)))
            else:
                st.count("miri_results_equal_to_native")
                st.nontrivial.add(core.h16("miri|%s|%s|%s" % (elem, style, text)))
    return st.to_dict()


def replay(witness):
    if "context" in witness:
        return context_shard({"cases": [(witness["elem"], witness["style"], witness["text"], witness["outer"], witness["context"])]})["violations"]
    spec = {"cases": [(witness["elem"], witness["style"], witness["text"])], "flavour": witness.get("flavour", "native")}
    core.build_driver(spec["flavour"])
    return shard(spec)["violations"]


def run(tier, seed):
    t0 = time.time()
    core.build_driver("native")
    all_cases = cases()
    # shard so that all characters of one (elem, style) stay together (needed for the injectivity check)
    groups = {}
    for c in all_cases:
        groups.setdefault((c[0], c[1]), []).append(c)
    keys = sorted(groups)
    nsh = core.NPROC
    specs = [{"cases": sum((groups[k] for k in keys[i::nsh]), [])} for i in range(nsh)]
    results = core.run_shards(shard, specs)
    cc = context_cases()
    results += core.run_shards(context_shard, [{"cases": cc[i::nsh]} for i in range(nsh)])
    extra = {"exhaustive": True, "context_cases": len(cc), "table_pairs": len(all_cases),
             "ucd_version": unicodedata.unidata_version,
             "oracle": "UCD <font> decompositions + character names; documented fallbacks from the property statement"}
    # the same exhaustive workload under sanitizers: the unchecked integer->char conversion is the target
    san = sanit.plan(PROP, tier)
    san_report = {}
    for flavour in san:
        try:
            core.build_driver(flavour)
        except core.Inconclusive as e:
            san_report[flavour] = "build failed: %s" % e
            results.append({"harness_error": "sanitizer build failed: %s" % e})
            continue
        sub = [{"cases": s["cases"], "flavour": flavour} for s in specs]
        r = core.run_shards(shard, sub)
        san_report[flavour] = {"cases": sum(x.get("evaluations", 0) for x in r if x), "reports": sum(
            1 for x in r if x for v in x.get("violations", []) if v["kind"] == "abort")}
        results.extend(r)
    extra["sanitizer_runs"] = san_report
    if tier == "thorough" and os.environ.get("VERIF_NO_MIRI") != "1":
        rng = random.Random(core.sub_seed(seed, PROP, "miri"))
        pool = [c for c in all_cases if c[1] in MAPPED and c[0] in ("mi", "mn")]
        sample = rng.sample(pool, min(len(pool), 150)) + [("mi", st_, "".join(LATIN)) for st_ in MAPPED] + [("mn", st_, "".join(DIGITS)) for st_ in MAPPED] + \
                 [("mi", st_, "".join(GREEK + VARIANT_SYMBOLS + DIGAMMA)) for st_ in MAPPED]
        n_miri = 6
        mr = core.run_shards(miri_shard, [{"cases": sample[i::n_miri], "timeout": 4500} for i in range(n_miri)], procs=n_miri)
        extra["miri"] = {"flags": "-Zmiri-disable-isolation -Zmiri-tree-borrows", "processes": n_miri, "cases": len(sample),
                         "note": "Stacked Borrows is not used: it reports the aliasing discipline of the sxd-document dependency on the first XML parse"}
        results.extend(mr)
    stats, errors = core.Stats.merge(results)
    known, fixed_failures, extra_v = core.replay_findings(PROP, replay)
    stats.violations.extend(extra_v)
    stats.sample({"input": make_input("mi", "fraktur", "H"), "allowed_output_chars": sorted(acceptable("fraktur", "H"))})
    return core.conclude(
        PROP, tier, seed, "exploration", stats, extra,
        ["Python unicodedata %s is the reference for character identity" % unicodedata.unidata_version,
         "token text is read from the returned MathML with Python's XML parser"],
        t0,
        rule="exhaustive enumeration of (token element, mathvariant value, character) over 13 mapped values + unmapped/unknown values x "
             "ASCII letters, digits, Greek letters, variant symbols, digammas and characters outside the table, as single-character tokens and "
             "whole-alphabet tokens; plus the same tokens (alphabets and single characters) with their own mathvariant inside an mstyle that carries ANOTHER value "
             "(one child, several children, below mfrac/msup) and between siblings with another value: the token's own value decides; a case is non-trivial when the token text was actually changed by the mapping; distinct by (element, value, text)",
        harness_errors=errors, known_replayed=known, fixed_failures=fixed_failures)
