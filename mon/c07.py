"""C07 — braille output uses only the target alphabet.
Alphabet oracle over every string returned by get_braille(id) / get_navigation_braille():
  cell codes: every character is a Unicode braille pattern (U+2800-28FF); with highlighting Off, or with no / an unknown navigation id,
              no cell has dots 7-8 (except the codes' own 8-dot row-separator cell U+28CD between the rows of a table);
  text codes: printable characters only, no private-use characters, none of the library's marker letters (mathematical alphanumerics);
  non-empty whenever the expression has visible content.
Characters for which the selected code defines no braille (not a key of its unicode.yaml / unicode-full.yaml) are passed through by design:
such a character is exempt where it also occurs in the (canonical) input."""
import os
import random
import re
import time
import unicodedata
import xml.etree.ElementTree as ET

from . import c06_braille as B
from . import canon, core, gen, shrink

PROP = "C07"
STYLES = ["Off", "FirstChar", "EndPoints", "All"]
ABSENT_ID = "zz-no-such-id"
ROW_SEPARATOR = "⣍"          # the only 8-dot cell written by the rule files themselves (Nemeth / Vietnam: start of a new table row)
VARIANTS = ["bold", "italic", "bold-italic", "double-struck", "script", "bold-script", "fraktur", "bold-fraktur", "sans-serif",
            "bold-sans-serif", "sans-serif-italic", "sans-serif-bold-italic", "monospace", "normal"]
# every menclose notation of MathML 3 (the shared textbook generator uses a subset)
ALL_NOTATIONS = ["longdiv", "actuarial", "phasorangle", "radical", "box", "roundedbox", "circle", "left", "right", "top", "bottom",
                 "updiagonalstrike", "downdiagonalstrike", "verticalstrike", "horizontalstrike", "northeastarrow", "madruwb",
                 "uparrow", "downarrow", "leftarrow", "rightarrow", "northwestarrow", "southeastarrow", "southwestarrow",
                 "updownarrow", "leftrightarrow", "updiagonalarrow", "downdiagonalarrow", "northeastsouthwestarrow", "northwestsoutheastarrow"]
ELEMENTS_1 = ["mi", "mo", "mtext"]
CHEM = ["H", "He", "Li", "C", "N", "O", "F", "Na", "Mg", "Al", "Si", "P", "S", "Cl", "K", "Ca", "Fe", "Cu", "Zn", "Ag", "Au", "Pb", "U"]


# ---------------------------------------------------------------------------------------------
# oracle
# ---------------------------------------------------------------------------------------------
def is_marker(ch):
    """private use, or a mathematical alphanumeric (every marker letter of the library is one of those: 𝑏 𝑁 𝐏 𝔹 𝟙 𝐶 𝑐 𝐖 𝐰 𝘄)"""
    o = ord(ch)
    return 0xE000 <= o <= 0xF8FF or o >= 0xF0000 or 0x1D400 <= o <= 0x1D7FF


def is_printable(ch):
    """control, format, private-use, surrogate, line/paragraph separator characters and the Unicode noncharacters are not printable text.
    A code point that is merely UNASSIGNED in the Unicode database shipped with Python is not judged: that database (14.0) is older than
    the rule files (the mhchem equilibrium arrows U+1F8D2.. were assigned later), so 'unassigned' here proves nothing; such characters
    are counted in the evidence."""
    o = ord(ch)
    if 0xFDD0 <= o <= 0xFDEF or (o & 0xFFFE) == 0xFFFE:
        return False
    return unicodedata.category(ch) not in ("Cc", "Cf", "Co", "Cs", "Zl", "Zp")


class Facts:
    """what the oracle needs to know about the expression: taken from the canonical MathML returned by set_mathml, parsed with Python's XML parser"""

    def __init__(self, canonical_xml):
        self.ids = set()
        self.chars = set()
        self.row_breaks = 0
        self.ok = True
        try:
            root = ET.fromstring(canonical_xml)
        except ET.ParseError:
            self.ok = False
            return
        for e in root.iter():
            i = e.get("id")
            if i is not None:
                self.ids.add(i)
            tag = e.tag.split("}")[-1]
            if tag == "mtable":
                rows = [k for k in e if k.tag.split("}")[-1] in ("mtr", "mlabeledtr")]
                self.row_breaks += max(0, len(rows) - 1)
            if not list(e) and e.text:
                self.chars.update(e.text)
            for a in ("open", "close", "separators", "lquote", "rquote"):
                if e.get(a):
                    self.chars.update(e.get(a))


def judge_string(code, defined, s, style, id_kind, facts, what):
    """problems of one returned string: list of (kind, leaked characters, detail); defined = characters the selected code defines"""
    out = []
    kind_of_code = B.CODES[code]["kind"]

    def exempt(ch):
        if ch in facts.chars and ch not in defined:
            return True
        # a passed-through character that the highlighting code touched (code point | 0xC0, braille.rs highlight()): still the rendering of a
        # character the code does not define, hence outside the guarantee (C20 reports what highlighting does to such output)
        if style != "Off" and ord(ch) & 0xC0 == 0xC0:
            for m in (0x40, 0x80, 0xC0):
                plain = chr(ord(ch) & ~m)
                if plain in facts.chars and plain not in defined:
                    return True
        return False
    if kind_of_code == "cell":
        bad = [c for c in s if not B.is_cell(c) and not exempt(c)]
        if bad:
            out.append(("non-cell-char", uniq(bad), "%s style=%s -> %r contains %s" % (what, style, s[:200], names(bad))))
        if style == "Off" or id_kind != "valid":
            marked = [c for c in s if B.has_dots78(c)]
            own = [c for c in marked if c == ROW_SEPARATOR]
            hl = [c for c in marked if c != ROW_SEPARATOR]
            if len(own) > facts.row_breaks:
                hl += own[facts.row_breaks:]
            if hl:
                out.append(("highlight-without-node", "", "%s style=%s id=%s -> %r has %d cell(s) with dots 7-8" % (what, style, id_kind, s[:200], len(hl))))
    else:
        bad = [c for c in s if not is_printable(c) and not exempt(c)]
        if bad:
            out.append(("unprintable-char", uniq(bad), "%s -> %r contains %s" % (what, s[:200], names(bad))))
        bad = [c for c in s if is_marker(c) and is_printable(c) and not exempt(c)]
        if bad:
            out.append(("internal-marker", uniq(bad), "%s -> %r contains %s" % (what, s[:200], names(bad))))
    return out


def uniq(chars):
    seen = []
    for c in chars:
        if c not in seen:
            seen.append(c)
    return "".join(seen[:8])


def names(chars):
    return ", ".join("U+%04X %s" % (ord(c), unicodedata.name(c, "?")) for c in uniq(chars))


def cps(chars):
    return ",".join("U+%04X" % ord(c) for c in sorted(set(chars)))


def absent_variant(nav_id, rng):
    """an id that is (normally) not in the expression: far away, or a near miss of a real one (proper prefix, extension, other case)"""
    if not nav_id:
        return ABSENT_ID
    return rng.choice([ABSENT_ID, nav_id[:-1] or ABSENT_ID, nav_id + "0", nav_id.upper(), " " + nav_id])


def build_ops(xml, nav_id, styles, absent_id=ABSENT_ID):
    ops = [("set_mathml", xml)]
    for st in styles:
        ops.append(("set_preference", "BrailleNavHighlight", st))
        ops.append(("get_braille", ""))
        ops.append(("get_braille", nav_id or ABSENT_ID))
        ops.append(("get_braille", absent_id))
    if nav_id:
        ops.append(("set_navigation_node", nav_id, 0))
    ops.append(("get_navigation_braille",))
    return ops


def judge_case(sess, tree, nav_id, styles, st=None, absent_id=ABSENT_ID):
    """run one expression through every (style, id) combination.
    returns (problems, results or None): problems = list of (kind, leaked, detail, style, id_kind)"""
    code = sess.cfg["code"]
    xml = tree.xml()
    ops = build_ops(xml, nav_id, styles, absent_id)
    res = sess.batch(ops, timeout=60)
    if res is None:
        return [("crash", "", str(getattr(sess, "last_failure", "")), "", "")], None
    sm = res[0]
    if sm["r"] != "ok":
        return [], res                      # C08's business
    facts = Facts(sm["v"])
    if not facts.ok:
        return [], res                      # C02's business
    defined = sess.defined_set()
    visible = canon.norm(canon.flat_in(tree)) != "" and any(c in defined and not c.isspace() and c not in "\u2061\u2062\u2063\u2064" for c in facts.chars)
    problems = []
    for (op, r) in zip(ops[1:], res[1:]):
        if op[0] == "set_preference":
            style = op[2]
            if r["r"] != "ok":
                raise core.Inconclusive("cannot set BrailleNavHighlight=%s: %s" % (style, r))
            continue
        if op[0] == "set_navigation_node":
            if st is not None and r["r"] != "ok":
                st.count("set_navigation_node_" + r["r"])
            continue
        if op[0] == "get_braille":
            arg = op[1]
            id_kind = "none" if arg == "" else ("valid" if arg in facts.ids else "absent")
            what = "get_braille(%r)" % arg
        else:
            id_kind, what = "none", "get_navigation_braille()"
        if r["r"] != "ok":
            if st is not None:
                st.count("%s_%s_not_judged" % (op[0], r["r"]))       # errors / panics of the getters: C06 (operands) and C08/C11/C20 report those
                if r["r"] == "panic":
                    st.add("getter_panics_not_judged", "%s: %s: %s" % (op[0], (r["p"].get("fn") or "?").split(" <- ")[0], re.sub(r"\d+", "N", re.sub(r"`[^`]*`|'[^']*'", "…", r["p"].get("msg", "")))[:80]))
                else:
                    st.add("getter_errors_not_judged", "%s: %s" % (op[0], re.sub(r"\d+", "N", (r.get("e") or "").splitlines()[-1] if r.get("e") else "")[:100]))
            continue
        if st is not None:
            st.count("strings_judged")
            st.count("strings_judged_id_" + id_kind)
        s = r["v"]
        if st is not None and B.CODES[code]["kind"] == "text":
            for c in s:
                if ord(c) > 0x2FFF and unicodedata.category(c) == "Cn":
                    st.add("unassigned_in_python_ucd_not_judged", "U+%04X" % ord(c))
        for kind, leaked, detail in judge_string(code, defined, s, style, id_kind, facts, what):
            problems.append((kind, leaked, detail, style, id_kind))
        if op[0] == "get_braille" and visible and s == "":
            problems.append(("empty-braille", "", "%s style=%s -> empty string for an expression with visible content" % (what, style), style, id_kind))
        if op[0] == "get_braille" and visible and s != "" and st is not None and all(c in "⠀ " for c in s):
            st.count("blank_only_outputs")
    return problems, res


# ---------------------------------------------------------------------------------------------
# minimisation and signatures
# ---------------------------------------------------------------------------------------------
def same_problem(problems, kind, leaked):
    for p in problems:
        if p[0] == kind and (not leaked or set(p[1]) & set(leaked)):
            return p
    return None


def shape(t, depth=0):
    """element skeleton; a token keeps its text (already reduced to class representatives by shrink_tokens) unless it is a number, the
    normal-form identifier x or a long word"""
    if t.kids is None:
        x = t.text or ""
        if x.strip() == "":
            return t.tag + ":EMPTY"
        if re.fullmatch(r"[0-9]+([.,][0-9]+)?", x):
            cls = "NUM"
        elif x == "x":
            cls = "a"                      # the shrinker's normal form: an identifier that does not matter
        elif re.fullmatch(r"[A-Za-z]{5,}", x):
            cls = "Word" if x[0].isupper() else "word"
        else:
            cls = "'%s'" % x
        mv = t.attrs.get("mathvariant")
        return "%s:%s%s" % (t.tag, cls, "[%s]" % mv if mv else "")
    keep = [k for k in sorted(t.attrs) if k in ("notation", "linethickness", "open", "close", "separators", "intent", "bevelled", "mathvariant")]
    attrs = "[" + ",".join("%s=%s" % (k, t.attrs[k]) for k in keep) + "]" if keep else ""
    tag = "mrow" if t.tag in ("mstyle", "mpadded") and not attrs else t.tag       # plain grouping wrappers: which one the shrinker kept is chance
    if not t.kids:
        return tag + attrs + "()"
    if depth > 8:
        return tag + "(…)"
    return tag + attrs + "(" + ",".join(shape(k, depth + 1) for k in t.kids) + ")"


def make_sig(kind, leaked, tree, cfg, style, id_kind):
    return "%s | %s | %s | %s | style=%s | id=%s" % (kind, cps(leaked) or "-", shape(tree), B.cfg_sig(cfg), style, id_kind)


def minimise(cfg, tree, nav_id, kind, leaked, style, id_kind, absent_id=ABSENT_ID):
    """shrink the expression under the failing (style, id kind), then move style / id / preferences towards the plain ones.
    returns (cfg, tree, nav_id, style, id_kind, problem)"""
    def nav_for(t, idk):
        if idk == "valid":
            return nav_id
        return None

    want = [leaked]

    def fails(sess, t, sty, idk, any_leak=False):
        probs, _ = judge_case(sess, t, nav_for(t, idk), [sty], absent_id=absent_id)
        hit = None
        for p in probs:
            if p[0] == kind and (any_leak or not want[0] or set(p[1]) & set(want[0])) and p[3] == sty and (p[4] == idk or kind not in ("highlight-without-node",)):
                hit = p
                break
        return hit
    sess = B.Session(cfg)
    try:
        sess.ensure()
        # 1. does the expression show this kind of violation without any highlighting?  then that plainer violation is the one reported
        #    (with highlighting the same leaked characters come out as other code points: braille.rs highlight() ors 0xC0 into them)
        p0 = fails(sess, tree, "Off", "none", any_leak=True) if (style, id_kind) != ("Off", "none") else None
        if p0 is not None:
            style, id_kind, want[0] = "Off", "none", p0[1]
        elif id_kind == "valid" and fails(sess, tree, style, "none"):
            id_kind = "none"
        small = shrink.shrink_tree(tree, lambda t: fails(sess, t, style, id_kind) is not None, budget=500,
                                   leaf_factory=lambda: [gen.mi("x"), gen.mn("2")])
        # the shared shrinker never lifts a token out of a table cell (mtd/mtr are structural): try every token on its own
        for node, path in sorted(small.walk(), key=lambda np: len(np[1])):
            if node.kids is None and len(path) > 1 and node.tag in ("mi", "mn", "mo", "mtext"):
                cand = gen.math(node.copy())
                if fails(sess, cand, style, id_kind) is not None:
                    small = cand
                    break
        small = shrink_tokens(small, lambda t: fails(sess, t, style, id_kind) is not None)
    finally:
        sess.close()
    groups = [(k,) for k in sorted(cfg.get("extra", {})) if k not in B.SEPARATOR_PREFS]
    if any(k in cfg.get("extra", {}) for k in B.SEPARATOR_PREFS):
        groups.append(B.SEPARATOR_PREFS)
    for group in groups:
        trial = dict(cfg)
        ex = dict(trial.get("extra", {}))
        for k in group:
            ex.pop(k, None)
        if ex:
            trial["extra"] = ex
        else:
            trial.pop("extra", None)
        with B.Session(trial) as s2:
            s2.ensure()
            if fails(s2, small, style, id_kind):
                cfg = trial
    with B.Session(cfg) as s3:
        s3.ensure()
        p = fails(s3, small, style, id_kind)
    return cfg, small, nav_for(small, id_kind), style, id_kind, p


def shrink_tokens(tree, still_fails, budget=120):
    """shorten token texts and move their characters to class representatives (digit -> 1, lower case -> x, upper case -> X) while the
    witness still fails, so that one cause gets one witness whatever the random text was"""
    calls = [0]

    def test(t):
        if calls[0] >= budget:
            return False
        calls[0] += 1
        try:
            return bool(still_fails(t))
        except core.Inconclusive:
            raise
        except Exception:
            return False
    best = tree
    for node, path in list(best.walk()):
        if node.kids is not None or not path or not node.text or node.text == "x":
            continue
        text = node.text
        # drop characters
        i = 0
        while i < len(text) and len(text) > 1:
            cand_text = text[:i] + text[i + 1:]
            n2 = node.copy()
            n2.text = cand_text
            cand = shrink._replace_at(best, path, n2)
            if test(cand):
                best, text = cand, cand_text
            else:
                i += 1
        # class representatives
        for i, ch in enumerate(text):
            rep = "1" if ch.isdigit() and ch.isascii() else "x" if ch.isascii() and ch.islower() else "X" if ch.isascii() and ch.isupper() else None
            if rep is None or rep == ch:
                continue
            cand_text = text[:i] + rep + text[i + 1:]
            n2 = node.copy()
            n2.text = cand_text
            cand = shrink._replace_at(best, path, n2)
            if test(cand):
                best, text = cand, cand_text
    return best


def report(st, seen_pre, cfg, tree, nav_id, problems, absent_id=ABSENT_ID):
    for kind, leaked, detail, style, id_kind in problems:
        if kind == "crash":
            st.inconclusive += 1
            continue
        st.count("raw_violations_" + kind)
        pre = (kind, cfg["code"], leaked, style if kind == "highlight-without-node" else "")
        if pre in seen_pre:
            continue
        seen_pre.add(pre)
        mcfg, small, nav2, style2, idk2, p = minimise(cfg, tree, nav_id, kind, leaked, style, id_kind, absent_id)
        if p is None:
            mcfg, small, nav2, style2, idk2, p = cfg, tree, nav_id, style, id_kind, (kind, leaked, detail, style, id_kind)
        sig = make_sig(kind, p[1], small, mcfg, style2, idk2)
        st.violations.append(core.violation(kind, sig, {"cfg": mcfg, "mathml": small.xml(), "nav_id": nav2, "styles": [style2], "absent_id": absent_id if idk2 == "absent" else ABSENT_ID},
                                            "minimal witness " + small.xml() + " | " + p[2][:600]))


# ---------------------------------------------------------------------------------------------
# workloads
# ---------------------------------------------------------------------------------------------
def xml_ok(ch):
    o = ord(ch)
    if o in (0x9, 0xA, 0xD):
        return True
    return (0x20 <= o <= 0xD7FF) or (0xE000 <= o <= 0xFFFD) or (0x10000 <= o <= 0x10FFFF)


def add_ids(tree):
    """give every token an author id; returns the list of ids"""
    ids = []
    for n, _ in tree.walk():
        if n.kids is None and n.tag in ("mi", "mn", "mo", "mtext"):
            n.attrs["id"] = "t%d" % len(ids)
            ids.append(n.attrs["id"])
    return ids


def token(elem, text, variant=None):
    n = gen.N(elem, text=text)
    if variant:
        n.attrs["mathvariant"] = variant
    return n


def char_cases(sess, rng, tier, part, nparts):
    """every character the selected code defines x element kind x (no / some) mathvariant, alone and between an identifier and a number"""
    short, full = sess.defined()
    chars = [c for c in short + full if xml_ok(c) and not (0xE000 <= ord(c) <= 0xF8FF)]
    out = []
    for i, ch in enumerate(chars):
        if i % nparts != part:
            continue
        alpha = unicodedata.category(ch)[0] in "LN"
        elems = list(ELEMENTS_1) + (["mn"] if unicodedata.category(ch) == "Nd" else [])
        if tier == "quick":
            variants = [None, rng.choice(VARIANTS)] if alpha else [None] + ([rng.choice(VARIANTS)] if rng.random() < 0.3 else [])
        else:
            variants = [None] + (VARIANTS if alpha else rng.sample(VARIANTS, 3))
        for el in elems:
            for v in variants:
                if v is not None and tier == "quick" and el != elems[(i + len(v)) % len(elems)]:
                    continue
                out.append(gen.math(token(el, ch, v)))
        el = elems[i % len(elems)]
        v = rng.choice([None, None] + VARIANTS)
        out.append(gen.math(gen.mrow(gen.mi("x"), token(el, ch, v), gen.mn("2"))))
        if tier != "quick":
            out.append(gen.math(gen.N("msup", [token(el, ch, v), gen.mn("2")])))
            out.append(gen.math(gen.mrow(gen.mn("3"), token(el, ch, v), gen.mi("b"))))
    return out


def word_cases(sess, rng, n):
    """multi-character tokens from the code's own characters: capitals, words, digits followed by letters, Greek, typefaces, chemistry, tables, text"""
    short, full = sess.defined()
    pool_all = [c for c in short + full if xml_ok(c) and not (0xE000 <= ord(c) <= 0xF8FF) and not c.isspace()]
    letters = [c for c in pool_all if unicodedata.category(c) in ("Lu", "Ll")]
    ascii_l = [c for c in letters if ord(c) < 128] or list("abcxyzABC")
    greek = [c for c in letters if 0x370 <= ord(c) <= 0x3FF] or ascii_l
    digits = [c for c in pool_all if unicodedata.category(c) == "Nd" and ord(c) < 128] or list("0123456789")
    punct = [c for c in pool_all if unicodedata.category(c)[0] in "PS" and ord(c) < 0x2000] or list(".,;:!?")
    out = []

    def word():
        r = rng.random()
        k = rng.randint(2, 6)
        if r < 0.2:
            return "".join(rng.choice(ascii_l).upper() for _ in range(k))                     # capitals (word / passage indicators)
        if r < 0.35:
            return rng.choice(ascii_l).upper() + "".join(rng.choice(ascii_l).lower() for _ in range(k - 1))
        if r < 0.5:
            return "".join(rng.choice(digits) for _ in range(rng.randint(1, 3))) + "".join(rng.choice("abcdefghij" + "klmxyz") for _ in range(rng.randint(1, 2)))
        if r < 0.6:
            return "".join(rng.choice("abcdefghijxyz") for _ in range(rng.randint(1, 2))) + "".join(rng.choice(digits) for _ in range(rng.randint(1, 3)))
        if r < 0.7:
            return "".join(rng.choice(greek) for _ in range(rng.randint(1, 3)))
        if r < 0.8:
            return "".join(rng.choice("IVXLCDM" if rng.random() < 0.5 else "ivxlcdm") for _ in range(rng.randint(1, 4)))   # roman numerals
        if r < 0.9:
            return "".join(rng.choice(letters + digits + punct) for _ in range(k))
        return rng.choice(["and", "or", "if", "the", "for all", "such that", "sin", "arcsin", "lim", "log", "mod", "Not", "a.m.", "U.S.", "e.g.", "x-y", "1st", "2nd", "n-th"])

    quotes = [c for c in "\"'()[]«»“”‘’<|" if c in pool_all] or ["\"", "'"]

    def tok():
        w = word()
        el = rng.choice(["mi", "mi", "mtext", "mtext", "mn", "mo"])
        v = rng.choice(VARIANTS) if rng.random() < 0.4 else None
        if rng.random() < 0.07:
            # a string literal: default quotes, or the author's own (characters the code defines, so they must come out as cells)
            t = token("ms", w, None)
            k = rng.random()
            if k < 0.7:
                t.attrs["lquote"] = rng.choice(quotes)
            if k > 0.3:
                t.attrs["rquote"] = rng.choice(quotes)
            return t
        return token(el, w, v)

    def chem():
        kids = []
        for j in range(rng.randint(1, 3)):
            e = token("mi", rng.choice(CHEM), rng.choice([None, "normal"]))
            r = rng.random()
            if r < 0.4:
                e = gen.N("msub", [e, gen.mn(str(rng.randint(2, 9)))])
            elif r < 0.55:
                e = gen.N("msup", [e, gen.mrow(gen.mn(str(rng.randint(1, 3))), gen.mo(rng.choice("+-")))])
            elif r < 0.65:
                e = gen.N("msubsup", [e, gen.mn(str(rng.randint(2, 9))), gen.mo(rng.choice("+-"))])
            if kids:
                kids.append(gen.mo("⁣") if rng.random() < 0.5 else gen.mo("+"))
            kids.append(e)
        if rng.random() < 0.5:
            kids += [gen.mo(rng.choice(["→", "⇌", "⟶", "="])), token("mi", rng.choice(CHEM)), gen.mo("+"), gen.N("msub", [token("mi", rng.choice(CHEM)), gen.mn("2")])]
        return gen.mrow(*kids)

    for _ in range(n):
        r = rng.random()
        if r < 0.3:
            body = tok()
        elif r < 0.45:
            body = gen.mrow(tok(), gen.mo(rng.choice(["+", "=", ",", "⁢", "-", ":", "."])), tok())
        elif r < 0.55:
            body = gen.N(rng.choice(["msub", "msup", "mover", "munder"]), [tok(), tok()])
        elif r < 0.65:
            rows = rng.randint(1, 3)
            cols = rng.randint(1, 2)
            tab = gen.N("mtable", [gen.N("mtr", [gen.N("mtd", [tok()]) for _ in range(cols)]) for _ in range(rows)])
            o, c = rng.choice([("(", ")"), ("[", "]"), ("{", ""), ("|", "|"), ("", "")])
            body = gen.mrow(*([gen.mo(o)] if o else []) + [tab] + ([gen.mo(c)] if c else [])) if (o or c) else tab
        elif r < 0.74:
            body = chem()
        elif r < 0.8:
            inner = tok() if rng.random() < 0.6 else gen.mrow(tok(), gen.mo(rng.choice(["+", "=", "-"])), tok())
            body = gen.N("menclose", [inner], notation=" ".join(rng.sample(ALL_NOTATIONS, rng.choice([1, 1, 1, 2]))))
        elif r < 0.9:
            body = gen.mrow(gen.mn(str(rng.randint(1, 999))), tok(), gen.mo(rng.choice(list("!?;.,%"))))
        else:
            body = gen.mrow(gen.mo("("), tok(), gen.mo(","), tok(), gen.mo(","), gen.mn(str(rng.randint(0, 99))), gen.mo(")"))
        out.append(gen.math(body))
    return out


# ---------------------------------------------------------------------------------------------
# corpus: the inputs (never the expected outputs) of the repository's braille tests, mutated
# ---------------------------------------------------------------------------------------------
_EXPR_RX = re.compile(r'let\s+expr\s*=\s*(?:r(#*)"(.*?)"\1|"((?:\\.|[^"\\])*)")\s*;', re.S)
_ENT_RX = re.compile(r"&([A-Za-z][A-Za-z0-9]*);")
_CORPUS = {}


def corpus(code=None):
    """MathML inputs of tests/braille/<code>/*.rs (all codes when code is None) as gen.N trees -- the expressions the rule authors wrote
    their rules for, so every rule of a rule file has an input that reaches it; read from the tree at run time"""
    if code in _CORPUS:
        return _CORPUS[code]
    import glob
    import html.entities
    base = os.path.join(core.REPO, "tests", "braille")
    files = sorted(glob.glob(os.path.join(base, code or "*", "*.rs")))
    out, seen = [], set()
    for f in files:
        try:
            src = open(f, encoding="utf-8").read()
        except OSError:
            continue
        for m in _EXPR_RX.finditer(src):
            xml = m.group(2) if m.group(2) is not None else re.sub(r'\\(.)', lambda k: {"n": "\n", "t": "\t"}.get(k.group(1), k.group(1)), m.group(3))
            xml = _ENT_RX.sub(lambda k: k.group(0) if k.group(1) in ("lt", "gt", "amp", "quot", "apos") else html.entities.html5.get(k.group(1) + ";", k.group(0)), xml)
            xml = xml.strip()
            if xml in seen or not xml.startswith("<"):
                continue
            seen.add(xml)
            try:
                t = gen.from_xml(xml)
            except Exception:
                continue
            if t.tag != "math":
                t = gen.math(t)
            for n, _ in t.walk():
                if n.kids is None and n.text:
                    n.text = n.text.strip() or n.text
                n.attrs.pop("id", None)
            out.append(t)
    _CORPUS[code] = out
    return out


def mutate(tree, rng, sess):
    """one small change that keeps the expression inside what the code's files cover: another typeface, another digit / letter of the
    same kind, another menclose notation, an enclosure around a sub-expression"""
    t = tree.copy()
    nodes = [(n, p) for n, p in t.walk() if p]
    tokens = [(n, p) for n, p in nodes if n.kids is None and n.tag in ("mi", "mn", "mo", "mtext") and n.text]
    r = rng.random()
    if r < 0.4 and tokens:
        n, _ = rng.choice([x for x in tokens if x[0].tag != "mo"] or tokens)
        n.attrs["mathvariant"] = rng.choice(VARIANTS)
    elif r < 0.65 and tokens:
        n, _ = rng.choice(tokens)
        out = []
        for ch in n.text:
            if ch.isdigit() and ch.isascii():
                out.append(rng.choice("0123456789"))
            elif ch.isascii() and ch.isalpha() and len(n.text) == 1:
                out.append(rng.choice("abcdefghijklmnopqrstuvwxyzABCDEFGHIJKLMNOPQRSTUVWXYZ"))
            elif 0x3B1 <= ord(ch) <= 0x3C9 or 0x391 <= ord(ch) <= 0x3A9:
                out.append(rng.choice("αβγδεζηθικλμνξοπρστυφχψωΓΔΘΛΞΠΣΦΨΩ"))
            else:
                out.append(ch)
        n.text = "".join(out)
    elif r < 0.8:
        enc = [n for n, _ in nodes if n.tag == "menclose"]
        if enc:
            rng.choice(enc).attrs["notation"] = " ".join(rng.sample(ALL_NOTATIONS, rng.choice([1, 1, 2])))
        elif tokens:
            n, p = rng.choice(tokens)
            t = shrink._replace_at(t, p, gen.N("menclose", [n.copy()], notation=rng.choice(ALL_NOTATIONS)))
    else:
        cands = [(n, p) for n, p in nodes if n.tag not in shrink.STRUCTURAL and n.tag not in ("mtable",) and len(p) >= 1]
        if cands:
            n, p = rng.choice(cands)
            parent = t
            for i in p[:-1]:
                parent = parent.kids[i]
            if parent.tag not in ("mtable", "mtr", "mlabeledtr", "mmultiscripts"):
                t = shrink._replace_at(t, p, gen.N("menclose", [n.copy()], notation=rng.choice(ALL_NOTATIONS)))
    return t


def corpus_cases(sess, rng, tier, piece, pieces):
    """own corpus of the code (every expression, plain and mutated) + a sample of the other codes' expressions"""
    code = sess.cfg["code"]
    own = corpus(code if os.path.isdir(os.path.join(core.REPO, "tests", "braille", code)) else None)
    others = [t for t in corpus(None)]
    out = []
    k_mut = 2 if tier == "quick" else 8
    for i, t in enumerate(own):
        if i % pieces != piece:
            continue
        out.append(t.copy())
        for _ in range(k_mut):
            m = t
            for _ in range(rng.choice([1, 1, 2])):
                m = mutate(m, rng, sess)
            out.append(m)
    n_other = (len(others) // pieces) // (4 if tier == "quick" else 1)
    for t in rng.sample(others, min(len(others), n_other)):
        out.append(mutate(t, rng, sess) if rng.random() < 0.7 else t.copy())
    return out


# ---------------------------------------------------------------------------------------------
# session phase: one session walks through codes and highlight styles (stale state between requests)
# ---------------------------------------------------------------------------------------------
# A script is a list of symbolic steps run on ONE expression inside the running session:
#   ("style", S)            set_preference BrailleNavHighlight
#   ("braille", who)        get_braille of: "none" (""), "nav" (the chosen token id), "absent", "found" (the id the last routing returned)
#   ("position",)           get_braille_position
#   ("route", k)            get_navigation_node_from_braille_position at cell k (mod length of the first braille)
#   ("navset",)             set_navigation_node(nav id, 0)
#   ("navbraille",)         get_navigation_braille
def make_script(rng):
    """style changes between two requests for the same node, cursor routing followed by get_braille of the node found, get_braille(id)
    after get_navigation_braille / get_braille_position, in varied orders; always starts and ends with highlighting Off"""
    s1, s2 = rng.choice(STYLES[1:]), rng.choice(STYLES[1:])
    blocks = [
        [("style", s1), ("braille", "nav"), ("position",), ("style", "Off"), ("braille", "nav"), ("braille", "none")],
        [("style", "Off"), ("route", rng.randrange(64)), ("braille", "found"), ("braille", "none")],
        [("style", "Off"), ("navset",), ("navbraille",), ("braille", "nav"), ("position",), ("braille", "nav")],
        [("style", s2), ("braille", "nav"), ("braille", "absent"), ("braille", "none"), ("style", "Off"), ("braille", "absent"), ("braille", "nav")],
        [("style", s2), ("route", rng.randrange(64)), ("style", "Off"), ("braille", "found")],
        [("style", s1), ("braille", "nav"), ("style", s2), ("braille", "nav"), ("style", "Off"), ("braille", "nav")],
    ]
    rng.shuffle(blocks)
    script = [("style", "Off"), ("braille", "none")]
    for b in blocks[:rng.randint(2, 4)]:
        script += b
    return script + [("style", "Off"), ("braille", "none")]


def script_sig(script):
    out = []
    for st in script:
        out.append({"style": "style=%s" % (st[1] if len(st) > 1 else ""), "braille": "B(%s)" % (st[1] if len(st) > 1 else ""), "position": "pos", "route": "route",
                    "navset": "navset", "navbraille": "navB"}[st[0]])
    return ">".join(out)


def run_script(sess, tree, nav_id, script, st=None, absent_id=ABSENT_ID):
    """run the script on the expression in the session as it is (its state is part of the test).
    returns (problems, ok): problems = [(kind, leaked, detail, style, id_kind, step index)]"""
    code = sess.cfg["code"]
    r0 = sess.batch([("set_mathml", tree.xml()), ("set_preference", "BrailleNavHighlight", "Off"), ("get_braille", "")], timeout=60)
    if r0 is None:
        return [("crash", "", "", "", "", -1)], False
    if r0[0]["r"] != "ok":
        return [], True
    facts = Facts(r0[0]["v"])
    if not facts.ok:
        return [], True
    defined = sess.defined_set()
    visible = canon.norm(canon.flat_in(tree)) != "" and any(c in defined and not c.isspace() and c not in "\u2061\u2062\u2063\u2064" for c in facts.chars)
    length = len(r0[2]["v"]) if r0[2]["r"] == "ok" and r0[2]["v"] else 1
    problems = []
    style = "Off"
    found = None
    i = 0
    while i < len(script):
        # everything up to and including the next routing step goes into one batch (the id it returns is needed afterwards)
        j = i
        ops = []
        while j < len(script):
            step = script[j]
            if step[0] == "style":
                ops.append(("set_preference", "BrailleNavHighlight", step[1]))
            elif step[0] == "braille":
                who = step[1]
                arg = "" if who == "none" else (nav_id or ABSENT_ID) if who == "nav" else absent_id if who == "absent" else (found or ABSENT_ID)
                ops.append(("get_braille", arg))
            elif step[0] == "position":
                ops.append(("get_braille_position",))
            elif step[0] == "route":
                ops.append(("get_navigation_node_from_braille_position", step[1] % length))
            elif step[0] == "navset":
                ops.append(("set_navigation_node", nav_id or ABSENT_ID, 0))
            elif step[0] == "navbraille":
                ops.append(("get_navigation_braille",))
            j += 1
            if step[0] == "route":
                break
        res = sess.batch(ops, timeout=60)
        if res is None:
            return problems + [("crash", "", "", "", "", i)], False
        for k, (op, r) in enumerate(zip(ops, res)):
            idx = i + k
            if op[0] == "set_preference":
                if r["r"] == "ok":
                    style = op[2]
                continue
            if op[0] == "get_navigation_node_from_braille_position":
                found = r["v"][0] if r["r"] == "ok" and isinstance(r.get("v"), list) else None
                if st is not None:
                    st.count("routing_" + r["r"])
                continue
            if op[0] not in ("get_braille", "get_navigation_braille"):
                continue
            if r["r"] != "ok":
                if st is not None:
                    st.count("%s_%s_not_judged" % (op[0], r["r"]))
                continue
            if op[0] == "get_braille":
                arg = op[1]
                id_kind = "none" if arg == "" else ("valid" if arg in facts.ids else "absent")
                what = "get_braille(%r)" % arg
            else:
                id_kind, what = "none", "get_navigation_braille()"
            if st is not None:
                st.count("strings_judged")
                st.count("session_strings_judged")
            sres = r["v"]
            for kind, leaked, detail in judge_string(code, defined, sres, style, id_kind, facts, what):
                problems.append((kind, leaked, detail, style, id_kind, idx))
            if op[0] == "get_braille" and visible and sres == "":
                problems.append(("empty-braille", "", "%s style=%s -> empty string for an expression with visible content" % (what, style), style, id_kind, idx))
        i = j
    return problems, True


def session_switch(sess, cfg):
    """move the running session to cfg; False when that failed"""
    r = sess.batch(B.switch_ops(cfg), timeout=60)
    if r is None or any(x["r"] != "ok" for x in r):
        return False
    sess.cfg = cfg
    sess.unicode_files = B.selected_unicode_files(sess.d, cfg["code"])
    return True


def replay_sequence(history, cfg, tree, nav_id, script, absent_id=ABSENT_ID):
    """fresh session: each history entry {cfg, mathml} is selected and its expression brailled once, then cfg is selected and the script run"""
    first = history[0]["cfg"] if history else cfg
    sess = B.Session({"code": first["code"], "lang": first["lang"]})
    try:
        sess.ensure()
        for h in history:
            if not session_switch(sess, h["cfg"]):
                return [("crash", "", "", "", "", -1)]
            if sess.batch([("set_mathml", h["mathml"]), ("set_preference", "BrailleNavHighlight", "Off"), ("get_braille", "")], timeout=60) is None:
                return [("crash", "", "", "", "", -1)]
        if not session_switch(sess, cfg):
            return [("crash", "", "", "", "", -1)]
        return run_script(sess, tree, nav_id, script, absent_id=absent_id)[0]
    finally:
        sess.close()


def report_sequence(st, seen_pre, history, cfg, tree, nav_id, script, problem, absent_id):
    """a problem that a single request in a fresh session does not show: the call sequence (and the configurations used before) are part of
    the witness; both are shrunk together with the expression"""
    kind, leaked, detail, style, id_kind, idx = problem
    st.count("raw_violations_in_sequence_" + kind)
    # coarse on purpose: stale state shows with whatever character / node happens to be asked for
    pre = ("seq", kind, cfg["code"]) if kind == "highlight-without-node" else ("seq", kind, cfg["code"], history[-1]["cfg"]["code"] if history else "-")
    if pre in seen_pre:
        return
    seen_pre.add(pre)

    def fails(hist, t, scr):
        for p in replay_sequence(hist, cfg, t, nav_id, scr, absent_id):
            if p[0] == kind and (kind == "highlight-without-node" or not leaked or set(p[1]) & set(leaked)):
                return p
        return None
    script = script[:idx + 1]
    if fails(history, tree, script) is None:
        sig = "%s | %s | in a call sequence, not reproduced from the recorded sequence | %s" % (kind, cps(leaked) or "-", B.cfg_sig(cfg))
        st.violations.append(core.violation(kind, sig, {"cfg": cfg, "mathml": tree.xml(), "nav_id": nav_id, "script": script, "history": history, "absent_id": absent_id},
                                            "after %s: %s | %s" % (">".join(h["cfg"]["code"] for h in history), tree.xml()[:500], detail[:500])))
        return
    hist = shrink.shrink_list(history, lambda h: fails(h, tree, script) is not None, budget=25)
    script = shrink.shrink_list(script, lambda sc: fails(hist, tree, sc) is not None, budget=40)
    small = shrink.shrink_tree(tree, lambda t: fails(hist, t, script) is not None, budget=120, leaf_factory=lambda: [gen.mi("x"), gen.mn("2")])
    if hist:
        # the expressions of the history shrink as well (they only have to load what goes stale)
        for k in range(len(hist)):
            ht = B.from_xml(hist[k]["mathml"])
            hs = shrink.shrink_tree(ht, lambda t: fails(hist[:k] + [{"cfg": hist[k]["cfg"], "mathml": t.xml()}] + hist[k + 1:], small, script) is not None,
                                    budget=60, leaf_factory=lambda: [gen.mi("x"), gen.mn("2")])
            hist = hist[:k] + [{"cfg": hist[k]["cfg"], "mathml": hs.xml()}] + hist[k + 1:]
            plain = {"code": hist[k]["cfg"]["code"], "lang": hist[k]["cfg"]["lang"]}
            if plain != hist[k]["cfg"]:
                cand = hist[:k] + [{"cfg": plain, "mathml": hs.xml()}] + hist[k + 1:]
                if fails(cand, small, script) is not None:
                    hist = cand
    p = fails(hist, small, script) or problem
    after = ">".join("%s[%s]" % (h["cfg"]["code"], shape(B.from_xml(h["mathml"]))) for h in hist) or "-"
    sig = "%s | %s | %s | %s | seq=%s | after=%s" % (kind, cps(p[1]) or "-", shape(small), B.cfg_sig(cfg), script_sig(script), after)
    st.violations.append(core.violation(kind, sig, {"cfg": cfg, "mathml": small.xml(), "nav_id": nav_id, "script": script, "history": hist, "absent_id": absent_id},
                                        "session: %s then %s, calls %s on %s | %s" % (after, B.cfg_sig(cfg), script_sig(script), small.xml(), p[2][:500])))


def full_table_cases(sess, rng, n):
    """expressions with characters that only the code's FULL Unicode file defines (script / fraktur / double-struck letters, letterlike
    symbols, vulgar fractions, rarer operators): the full table is a lazily loaded per-session cache"""
    _, full = sess.defined()
    pool = [c for c in full if xml_ok(c) and not (0xE000 <= ord(c) <= 0xF8FF) and not c.isspace() and unicodedata.category(c)[0] != "C"]
    common = [c for c in "𝒜𝒫ℋℬ𝔄𝔹ℝℂ½⅓¾ℏ℘∯⊛" if c in set(pool)]
    out = []
    if not pool:
        return out
    for _ in range(n):
        def tk():
            c = rng.choice(common) if common and rng.random() < 0.4 else rng.choice(pool)
            cat = unicodedata.category(c)
            return token("mn" if cat in ("No", "Nd") else "mi" if cat[0] == "L" else rng.choice(["mo", "mi"]), c)
        r = rng.random()
        if r < 0.4:
            body = gen.mrow(tk(), gen.mo(rng.choice(["+", "=", "⁢", "∈"])), tk())
        elif r < 0.6:
            body = gen.N("msup", [tk(), gen.mn(str(rng.randint(2, 9)))])
        elif r < 0.8:
            body = gen.mrow(gen.mn(str(rng.randint(1, 99))), tk(), gen.mo("+"), gen.N("mfrac", [tk(), gen.mn("2")]))
        else:
            body = gen.mrow(tk(), tk(), gen.mo("="), gen.mi("x"))
        out.append(gen.math(body))
    return out


def run_session_tour(st, rng, tour, per_step, deadline, seen_pre):
    sess = B.Session(tour[0])
    history = []
    try:
        sess.ensure()
        for step, cfg in enumerate(tour):
            if time.time() > deadline:
                st.count("stopped_by_time_budget")
                break
            if step and not session_switch(sess, cfg):
                st.inconclusive += 1
                st.count("switch_failed")
                break
            if history:
                st.add("switches", "%s>%s" % (history[-1]["cfg"]["code"], cfg["code"]))
            last_xml = None
            trees = full_table_cases(sess, rng, per_step)
            for i in range(per_step):
                k = rng.random()
                if k < 0.45 and i < len(trees):
                    tree = trees[i]
                elif k < 0.75:
                    tree = gen.Textbook(rng, decimal=".", max_depth=rng.choice([2, 3]), p_ident=0.4).expression()[0]
                elif k < 0.9:
                    tree = word_cases(sess, rng, 1)[0]
                else:
                    tree = mutate(rng.choice(corpus(None)), rng, sess)
                ids = add_ids(tree)
                nav_id = rng.choice(ids) if ids else None
                absent_id = absent_variant(nav_id, rng)
                script = make_script(rng)
                problems, ok = run_script(sess, tree, nav_id, script, st, absent_id)
                if not ok:
                    st.inconclusive += 1
                    return
                st.evaluations += 1
                st.count("cases_session")
                st.nontrivial.add(core.h16("session" + tree.xml() + script_sig(script) + (history[-1]["cfg"]["code"] if history else "")))
                st.add("configs", B.cfg_sig(cfg) + "/" + cfg["lang"])
                st.add("codes", cfg["code"])
                if i == 0 and step == 1:
                    st.sample({"part": "session", "after": history[-1]["cfg"]["code"], "config": B.cfg_sig(cfg), "mathml": tree.xml()[:300], "calls": script_sig(script)}, limit=5)
                for pr in problems:
                    if pr[0] == "crash":
                        continue
                    kind, leaked, detail, style, id_kind, idx = pr
                    # does a single request in a session of its own show it?  then it is an ordinary violation
                    with B.Session(cfg) as alone:
                        alone.ensure()
                        plain, _ = judge_case(alone, tree, nav_id, [style] if style else ["Off"], absent_id=absent_id)
                    hit = [q for q in plain if q[0] == kind and (kind == "highlight-without-node" or not leaked or set(q[1]) & set(leaked))]
                    if hit:
                        report(st, seen_pre, cfg, tree, nav_id, hit[:1], absent_id)
                    else:
                        report_sequence(st, seen_pre, list(history), cfg, tree, nav_id, script, pr, absent_id)
                    break                       # one problem per expression is enough (the others usually follow from it)
                last_xml = tree.xml()
            history.append({"cfg": cfg, "mathml": last_xml or "<math><mi>x</mi></math>"})
            history = history[-3:]             # what a session carries along is the last few tables; older steps are not replayed
    finally:
        sess.close()


def shard(spec):
    st = core.Stats()
    rng = random.Random(spec["seed"])
    deadline = time.time() + spec["time_budget"]
    tier = spec["tier"]
    seen_pre = set()
    for item in spec["items"]:
        if item["part"] == "session":
            run_session_tour(st, rng, item["tour"], item["per_step"], deadline, seen_pre)
            continue
        cfg = item["cfg"]
        name = B.cfg_sig(cfg)
        sess = B.Session(cfg)
        try:
            sess.ensure()
            if item["part"] == "chars":
                trees = char_cases(sess, rng, tier, item["piece"], item["pieces"])
            elif item["part"] == "words":
                trees = word_cases(sess, rng, item["n"])
            elif item["part"] == "corpus":
                trees = corpus_cases(sess, rng, tier, item["piece"], item["pieces"])
            else:
                trees = None
            n = len(trees) if trees is not None else item["n"]
            for i in range(n):
                if time.time() > deadline:
                    st.count("stopped_by_time_budget")
                    break
                if trees is not None:
                    tree = trees[i]
                else:
                    tree = gen.Textbook(rng, decimal=sess.decimal, max_depth=rng.choice([2, 3, 4]), p_ident=0.4).expression()[0]
                if rng.random() < 0.08:
                    # an id is an arbitrary attribute value, the empty string included: an element whose author id is '' must not be taken
                    # for the navigation node when no node is given
                    inner = [n for n, _ in tree.walk() if n.kids and n.tag != "math"]
                    if inner:
                        rng.choice(inner).attrs["id"] = ""
                        st.count("cases_with_an_empty_author_id")
                ids = add_ids(tree)
                nav_id = rng.choice(ids) if ids else None
                styles = ["Off", rng.choice(STYLES[1:])] if tier == "quick" or item["part"] in ("chars", "corpus") else list(STYLES)
                rng.shuffle(styles)
                absent_id = absent_variant(nav_id, rng)
                problems, res = judge_case(sess, tree, nav_id, styles, st, absent_id)
                st.evaluations += 1
                st.count("cases_" + item["part"])
                if res is not None and res[0]["r"] == "ok":
                    st.nontrivial.add(core.h16(tree.xml() if item["part"] != "textbook" else tree.shape() + name + "".join(styles)))
                    st.add("codes", cfg["code"])
                    st.add("unicode_files_selected", "%s: %s" % (cfg["code"], ", ".join(f.split("/Rules/")[-1] for f in sess.unicode_files)))
                    st.add("configs", name + "/" + cfg["lang"])
                    for sname in styles:
                        st.add("highlight_styles", sname)
                    if i == 0:
                        st.sample({"config": name, "part": item["part"], "mathml": tree.xml()[:400], "nav_id": nav_id, "styles": styles,
                                   "returned": [r.get("v") for r in res[1:] if isinstance(r.get("v"), str)][:4]}, limit=4)
                elif res is not None:
                    st.count("set_mathml_" + res[0]["r"] + "_not_judged")
                if problems:
                    report(st, seen_pre, cfg, tree, nav_id, problems, absent_id)
            if item["part"] == "chars":
                st.count("defined_chars_visited_" + cfg["code"], len(set(n.text for t in trees for n, _ in t.walk() if n.kids is None and n.text and len(n.text) == 1 and n.text not in "x23b")))
            try:
                hits = sess.ensure().call("rule_hits")["v"]
                for k in hits:
                    t = k.split("|")
                    if t[0] == "Braille":
                        st.add("rules_fired", "%s|%s|%s" % (t[1].split("/Rules/")[-1], t[2], t[3]))
            except Exception:
                pass
        finally:
            sess.close()
    return st.to_dict()


# ---------------------------------------------------------------------------------------------
# known-finding predicates
# ---------------------------------------------------------------------------------------------
def pred_row_separator(v, params):
    """The codes' own 8-dot row separator is taken for the navigation highlight (same cause as C20-row-separator-taken-for-highlight):
    holds when the unhighlighted (Off) braille of the witness contains the row separator and every other cell with dots 7-8 lies between the
    first and the last separator or within the five cells in front of one (the indicator search of highlight_first_indicator)."""
    w = v["witness"]
    tree = B.from_xml(w["mathml"])
    with B.Session(w["cfg"]) as sess:
        sess.ensure()
        style = (w.get("styles") or ["All"])[0]
        res = sess.batch([("set_mathml", tree.xml()), ("set_preference", "BrailleNavHighlight", "Off"), ("get_braille", ""),
                          ("set_preference", "BrailleNavHighlight", style), ("get_braille", ""), ("get_braille", ABSENT_ID)])
        if res is None or any(r["r"] != "ok" for r in res):
            return False
        off = res[2]["v"]
        if ROW_SEPARATOR not in off or any(B.has_dots78(c) and c != ROW_SEPARATOR for c in off):
            return False
        for s in (res[4]["v"], res[5]["v"]):
            if B.mask_highlight(s) != B.mask_highlight(off):
                return False
            seps = [i for i, c in enumerate(off) if c == ROW_SEPARATOR]
            for i, c in enumerate(s):
                if B.has_dots78(c) and off[i] != c:
                    if not (seps[0] - 5 <= i <= seps[-1]) and not any(p - 5 <= i < p for p in seps):
                        return False
        return True


core.PREDICATES["c07_row_separator"] = pred_row_separator


def replay(witness):
    cfg = witness["cfg"]
    tree = B.from_xml(witness["mathml"])
    if witness.get("script"):
        script = [tuple(x) for x in witness["script"]]
        hist = witness.get("history") or []
        out = []
        for kind, leaked, detail, style, id_kind, idx in replay_sequence(hist, cfg, tree, witness.get("nav_id"), script, witness.get("absent_id") or ABSENT_ID):
            if kind == "crash":
                continue
            after = ">".join("%s[%s]" % (h["cfg"]["code"], shape(B.from_xml(h["mathml"]))) for h in hist) or "-"
            sig = "%s | %s | %s | %s | seq=%s | after=%s" % (kind, cps(leaked) or "-", shape(tree), B.cfg_sig(cfg), script_sig(script[:idx + 1]), after)
            out.append(core.violation(kind, sig, witness, detail[:700]))
            break
        return out
    styles = witness.get("styles") or list(STYLES)
    out = []
    with B.Session(cfg) as sess:
        sess.ensure()
        problems, res = judge_case(sess, tree, witness.get("nav_id"), styles, absent_id=witness.get("absent_id") or ABSENT_ID)
        seen = set()
        for kind, leaked, detail, style, id_kind in problems:
            if kind == "crash":
                continue
            if kind != "highlight-without-node" and any(p[0] == kind and p[1] == leaked and (p[3], p[4]) == ("Off", "none") for p in problems):
                style, id_kind = "Off", "none"          # same canonical form as minimise()
            elif kind != "highlight-without-node" and id_kind == "valid" and any(p[0] == kind and p[1] == leaked and p[3] == style and p[4] == "none" for p in problems):
                id_kind = "none"
            sig = make_sig(kind, leaked, tree, cfg, style, id_kind)
            if sig in seen:
                continue
            seen.add(sig)
            out.append(core.violation(kind, sig, witness, detail[:700]))
    return out


def run(tier, seed):
    t0 = time.time()
    core.build_driver("native")
    rng = random.Random(core.sub_seed(seed, PROP))
    cfgs = B.all_cfgs(operand_oracle=False)
    known, unknown = B.shipped_codes()
    items = []
    quick = tier == "quick"
    n_text = int(os.environ.get("C07_TEXTBOOK", "0")) or (900 if quick else 30000)
    n_words = int(os.environ.get("C07_WORDS", "0")) or (700 if quick else 20000)
    tp = 3 if quick else 12
    for cfg in cfgs:
        for _ in range(tp):
            items.append({"cfg": cfg, "part": "textbook", "n": n_text // tp})
            items.append({"cfg": cfg, "part": "words", "n": n_words // tp})
    # the character sweep depends on the code only: one plain configuration per code (home language, first preference set)
    seen_codes = set()
    for cfg in cfgs:
        if cfg["code"] in seen_codes:
            continue
        seen_codes.add(cfg["code"])
        pieces = 4 if quick else 16
        for p in range(pieces):
            items.append({"cfg": cfg, "part": "chars", "piece": p, "pieces": pieces})
            items.append({"cfg": cfg, "part": "corpus", "piece": p, "pieces": pieces})
    # sessions that walk through codes (every ordered pair of codes a direct switch) and highlight styles
    from . import c06
    tours = c06.make_tours(rng, cfgs, rounds=2 if quick else 10, steps_per_tour=8)
    items += [{"part": "session", "tour": t, "per_step": 10 if quick else 60} for t in tours]
    rng.shuffle(items)
    nsh = core.NPROC
    budget = 75 if quick else 1500
    specs = [{"seed": core.sub_seed(seed, PROP, i), "items": items[i::nsh], "tier": tier, "time_budget": budget} for i in range(nsh)]
    results = core.run_shards(shard, specs)
    stats, errors = core.Stats.merge(results)
    known_r, fixed_failures, extra_v = core.replay_findings(PROP, replay)
    stats.violations.extend(extra_v)
    defined = {c: len(B.defined_set(B.code_dir_files(c))) for c in known}
    return core.conclude(
        PROP, tier, seed, "exploration", stats,
        {"configurations_total": len(cfgs), "codes_judged": known, "codes_shipped_without_table_here": unknown, "table_keys_in_code_directory": defined},
        ["a character is exempt only when it occurs in the canonical MathML of the input and is not a key of the selected code's unicode.yaml / unicode-full.yaml",
         "the only cell with dots 7-8 accepted without a navigation node is the row separator U+28CD, at most once per table-row break (it is written by the "
         "Nemeth and Vietnam rule files themselves and expected by the repository's tests)",
         "text codes: printable = not control/format/private-use/surrogate/line-paragraph separator/noncharacter; code points unassigned in Python's "
         "unicodedata %s are only counted (the database is older than the rule files); marker = private use or mathematical alphanumeric" % unicodedata.unidata_version,
         "errors/panics of get_braille and get_navigation_braille are counted, not judged here (C06, C08, C11)"],
        t0,
        rule="(e) SESSION phase: one session walks through the configurations (every ordered pair of codes a direct switch) and, per expression (textbook, "
             "characters that only the code's full Unicode file defines, multi-character tokens, corpus), through call sequences: highlight style changed between "
             "two requests for the same node, cursor routing followed by get_braille of the node found, get_braille(id) after get_navigation_braille / "
             "get_braille_position; every returned string gets the same oracle; a violation that a single request in a fresh session does not show is "
             "minimised with its configuration history and call sequence; (d) the MathML inputs of the repository's braille tests (inputs only), plain and with small mutations (typeface, digits/letters of the same kind, every "
             "menclose notation, enclosures), own corpus of the code in full + a sample of the other codes'; "
             "(a) textbook expressions, (b) multi-character tokens built from the code's own characters (capitals, digit-letter mixes, Greek, roman numerals, typefaces, "
             "chemistry, tables, text) and (c) every character that is a key of the code's own unicode.yaml / unicode-full.yaml as mi/mo/mtext(/mn) with and without "
             "mathvariant, alone and between an identifier and a number; each under BrailleNavHighlight Off + other styles with id \"\", an id of the expression and an "
             "absent id, plus get_navigation_braille; every returned string is scanned; non-trivial = set_mathml succeeded and the strings were judged; distinct by input",
        min_nontrivial=2000, harness_errors=errors, known_replayed=known_r, fixed_failures=fixed_failures)
