"""C09 — every node gets a unique id and author ids are kept; every id handed out later exists in the returned MathML.
Oracle: id invariants on the parsed result (canon.id_problems) + membership of every id later returned by navigation,
braille-position lookup and speech bookmarks in the id set of the last set_mathml result."""
import random
import re
import time
import xml.etree.ElementTree as ET

from . import canon, canon_run, core, gen, mml

PROP = "C09"


def judge(tree, xml, root, ctx):
    if root is None:
        return []
    return [(code, code, detail) for code, detail in canon.id_problems(tree, root)]


def observe(tree, r, st):
    n_author = sum(1 for n, _ in tree.walk() if "id" in n.attrs)
    if n_author:
        st.nontrivial.add(core.h16(tree.shape() + "|" + ",".join(sorted(n.attrs["id"] for n, _ in tree.walk() if "id" in n.attrs))))
        st.count("author_ids_checked", n_author)
    st.count("results_checked_for_id_invariants")
    if len(st.samples) < 2 and n_author:
        st.sample({"input": tree.xml()[:500], "returned": r["v"][:700]})


def signature(kind, small, detail):
    with_ids = ",".join("%s#" % n.tag for n, _ in small.walk() if "id" in n.attrs)
    return "%s | %s | ids on %s" % (kind, canon_run.canon_shape(small), with_ids or "-")


NAV = ["ZoomIn", "ZoomOut", "MoveNext", "MovePrevious", "ZoomInAll", "ZoomOutAll", "MoveStart", "MoveEnd", "MoveLineStart", "MoveCellNext", "MoveCellDown", "MoveCellUp",
       "ReadNext", "DescribeCurrent", "WhereAmI", "MoveLastLocation", "SetPlacemarker1", "MoveTo1"]
MARK = re.compile(r"""<(?:mark name|bookmark mark)=(?:'([^']*)'|"([^"]*)")""")


def marks_of(speech):
    """ids named by the bookmarks of an SSML / SAPI5 string, as an XML parser reads them"""
    import html
    return [html.unescape(a or b) for a, b in MARK.findall(speech)]


# tokens that canonicalization splits, merges or re-types (geometry point names, chemical formulas, function names run together with their
# argument, numbers with units, roman numerals, primes), in the contexts that trigger it; every element gets a distinct author id
SPLIT_TEXTS = ["AB", "ABC", "PQRS", "NaCl", "CO", "HCl", "sinx", "dx", "XIV", "12cm", "3x", "f'", "x''", "lim", "arcsin", "a b", "1,234", "2.5", "(g)", "(l)", "(aq)", "(s)"]
SPLIT_PREFIX = ["\u2220", "\u25B3", "\u2221", "\u22A5", "\u2225", "\u25B1", "\u2312", "\u223C", "-", "\u2202", "d"]
SPLIT_OVER = ["\u00AF", "\u2192", "\u2194", "\u2322", "^", "~", "\u20D7", "\u2312", "_", "\u23DE"]


def split_idioms(rng, n):
    out = []
    for _ in range(n):
        tag = rng.choice(["mi", "mi", "mtext", "mn"])
        tok = gen.N(tag, text=rng.choice(SPLIT_TEXTS))
        k = rng.random()
        if k < 0.35:
            body = [gen.mo(rng.choice(SPLIT_PREFIX)), tok]
            if rng.random() < 0.5:
                body += [gen.mo("="), gen.mn(str(rng.randint(2, 99)))]
            tree = gen.math(gen.mrow(*body) if rng.random() < 0.5 else gen.N("mstyle", body))
        elif k < 0.65:
            m = gen.N(rng.choice(["mover", "munder"]), [tok, gen.mo(rng.choice(SPLIT_OVER))])
            tree = gen.math(m, gen.mo(rng.choice(["\u2225", "\u22A5", "=", "\u2245"])), gen.N("mover", [gen.N(tag, text=rng.choice(SPLIT_TEXTS)), gen.mo(rng.choice(SPLIT_OVER))]))
        elif k < 0.8:
            tree = gen.math(gen.N(rng.choice(["msub", "msup"]), [tok, gen.mn(str(rng.randint(2, 9)))]), gen.mo("+"), gen.N(tag, text=rng.choice(SPLIT_TEXTS)))
        else:
            tree = gen.math(gen.N("mfrac", [gen.mrow(gen.mo(rng.choice(SPLIT_PREFIX)), tok), gen.N(tag, text=rng.choice(SPLIT_TEXTS))]))
        c = 0
        for node, _ in tree.walk():
            if rng.random() < 0.8:
                c += 1
                node.attrs["id"] = "s%d" % c
        out.append(tree.xml())
    return out


NAV_MODES = ["Enhanced", "Simple", "Character"]


def all_nav_commands():
    from . import gen_hostile
    return gen_hostile.nav_commands()


def ragged_table(rng):
    """a table whose rows have different numbers of cells (legal MathML): cell-wise movement has to cope with missing neighbours"""
    rows = []
    for _ in range(rng.randint(2, 4)):
        cells = [gen.N("mtd", [rng.choice([gen.mi(rng.choice("abcxyz")), gen.mn(str(rng.randint(1, 99))), gen.mrow(gen.mi("x"), gen.mo("+"), gen.mn("1"))])]) for _ in range(rng.randint(1, 4))]
        rows.append(gen.N("mtr", cells))
    t = gen.N("mtable", rows)
    k = rng.random()
    if k < 0.4:
        return gen.math(gen.mrow(gen.mo("("), t, gen.mo(")")))
    if k < 0.7:
        return gen.math(gen.mi("A"), gen.mo("="), t)
    return gen.math(t)


def make_steps(rng, every, n_lo=2, n_hi=14):
    steps = []
    for _ in range(rng.randint(n_lo, n_hi)):
        k = rng.random()
        if k < 0.40:
            steps.append(["nav", rng.choice(NAV)])
        elif k < 0.70:
            steps.append(["nav", rng.choice(every)])
        elif k < 0.78:
            steps.append(["nav", rng.choice(["MoveCellDown", "MoveCellUp", "MoveCellNext", "MoveCellPrevious", "MoveColumnStart", "MoveColumnEnd", "SetPlacemarker2", "MoveTo2", "SetPlacemarker3", "MoveTo3"])])
        elif k < 0.93:
            steps.append(["node", rng.random(), rng.choice([0, 0, 1, 1, 2, 3])])
        else:
            steps.append(["key", rng.choice([13, 32, 37, 38, 39, 40, 35, 36, 48, 49, 50, 51, 57]), rng.random() < 0.3, rng.random() < 0.3, rng.random() < 0.2, False])
    return steps


def handout_round(sess, mathml, steps, positions, st):
    """one set_mathml + walk; returns (problem or None, judged?)"""
    r0 = sess.call("set_mathml", mathml, timeout=30)
    if r0 is None or r0["r"] != "ok":
        return None, False
    try:
        root = ET.fromstring(r0["v"])
    except ET.ParseError:
        return None, False
    id_list = [e.get("id") for e in root.iter() if e.get("id") is not None]
    ids = set(id_list)
    # leaves with more than one character are the places where an offset is meaningful
    multi = [e.get("id") for e in root.iter() if len(e) == 0 and len((e.text or "").strip()) > 1 and e.get("id")]
    ops = [("get_spoken_text",), ("get_navigation_mathml_id",)]
    for stp in steps:
        if stp[0] == "nav":
            ops.append(("do_navigate_command", stp[1]))
        elif stp[0] == "node":
            pool = multi if (multi and stp[2] > 0) else id_list
            if not pool:
                continue
            ops.append(("set_navigation_node", pool[int(stp[1] * len(pool)) % len(pool)], stp[2]))
        else:
            ops.append(("do_navigate_keypress",) + tuple(stp[1:]))
        ops.append(("get_navigation_mathml_id",))
        ops.append(("get_navigation_mathml",))
    ops.append(("get_braille", ""))
    for p in positions:
        ops.append(("get_navigation_node_from_braille_position", p))
    res = sess.batch(ops, timeout=60)
    if res is None:
        return None, False
    bad = None
    if res[0]["r"] == "ok":
        marks = marks_of(res[0]["v"])
        st.count("bookmark_ids_checked", len(marks))
        for m in marks:
            if m not in ids:
                bad = ("bookmark-id-unknown", "speech bookmark names id %r which is not in the returned MathML" % m)
                break
    last = None
    for (op, r) in zip(ops[1:], res[1:]):
        if bad:
            break
        if op[0] in ("do_navigate_command", "set_navigation_node", "do_navigate_keypress"):
            last = op
            st.count("steps_" + op[0] + "_" + r["r"])
            if op[0] == "set_navigation_node" and op[2] > 0 and r["r"] == "ok":
                st.count("positions_inside_a_leaf")
        if op[0] in ("get_navigation_mathml_id", "get_navigation_node_from_braille_position") and r["r"] == "ok":
            st.count("handed_out_ids_checked")
            if r["v"][0] not in ids:
                bad = ("%s-id-unknown" % ("navigation" if op[0] == "get_navigation_mathml_id" else "braille-position"),
                       "%s returned id %r (offset %r) which is not in the returned MathML, after %s" % (op[0], r["v"][0], r["v"][1] if len(r["v"]) > 1 else None, str(last)[:120]))
        if op[0] == "get_navigation_mathml" and r["r"] == "ok":
            m = re.search(r"""\sid=['"]([^'"]*)['"]""", r["v"][0])
            if m:
                import html
                st.count("navigation_mathml_roots_checked")
                if html.unescape(m.group(1)) not in ids:
                    bad = ("navigation-mathml-id-unknown", "get_navigation_mathml returned a tree whose root id %r is not in the returned MathML, after %s" % (m.group(1), str(last)[:120]))
    return bad, True


def handout_phase(spec):
    """ids handed out after set_mathml belong to the MathML returned by the LAST set_mathml.  Walks mix every navigation command the library knows
    (place markers that were never set, last-location, toggles, cell movement in ragged tables), positions put inside multi-character leaves with
    set_navigation_node(id, offset) and key presses; in half of the sessions the expression is then set again (the very same string, or another
    one) and the walk continues -- place markers, the position stack and caches of the first round must not hand out ids of the old tree."""
    st = core.Stats()
    rng = random.Random(spec["seed"])
    deadline = time.time() + spec["time_budget"]
    cases = list(spec.get("fixed", []))
    codes = ["Nemeth", "UEB", "CMU"]
    every = all_nav_commands()

    ragged = [False]

    def expression():
        ragged[0] = rng.random() < 0.25
        if ragged[0]:
            tree = ragged_table(rng)
        else:
            tree = gen.Textbook(rng, max_depth=rng.choice([2, 3]), p_ident=0.5).expression()[0]
            if rng.random() < 0.12:
                # author intents whose value contains LITERALS (a number, a name): the library makes up nodes for them while it builds the
                # intent tree; whatever is spoken for them, a mark in the speech must still name an id of the returned MathML
                hosts = [n for n, _ in tree.walk() if n.tag in ("msup", "msub", "mfrac", "mover") and n.kids and len(n.kids) == 2]
                leaves = [n for n, _ in tree.walk() if n.kids is None and n.tag == "mi"]
                if hosts and rng.random() < 0.6:
                    h = rng.choice(hosts)
                    h.kids[0].attrs["arg"] = "a"
                    h.attrs["intent"] = rng.choice(["power($a,2)", "blorp($a, 3)", "foo:prefix($a, 17)", "index($a,k)", "zorble(x,$a)"])
                elif leaves:
                    rng.choice(leaves).attrs["intent"] = rng.choice(["pi", "blorp", "17", "my-constant"])
        if rng.random() < 0.5:
            k = 0
            special = rng.random() < 0.5
            for n, _ in tree.walk():
                if rng.random() < 0.5:
                    k += 1
                    n.attrs["id"] = "au%d" % k
                    if special and rng.random() < 0.4:
                        n.attrs["id"] = rng.choice(["x'%d", 'q"%d', "l<%d", "g>%d", "a&%d", "s p%d", "é%d", "x'\"<&>%d"]) % k
        return tree.xml()
    for _ in range(spec["n"]):
        case = {"phase": "handout", "mathml": expression(), "tts": rng.choice(["SSML", "SAPI5"]), "code": rng.choice(codes), "nav_mode": rng.choice(NAV_MODES),
                "steps": make_steps(rng, every), "positions": [rng.randint(0, 40) for _ in range(4)]}
        if ragged[0]:
            # walk INTO the table and move cell-wise (rows have different lengths: the neighbour above/below may not exist)
            case["steps"] = [["nav", "ZoomIn"] for _ in range(rng.randint(1, 4))] + \
                            [["nav", rng.choice(["MoveCellDown", "MoveCellUp", "MoveCellNext", "MoveCellPrevious", "MoveNext", "MoveNext", "MovePrevious", "MoveColumnStart",
                                                 "MoveColumnEnd", "MoveLineStart", "MoveLineEnd", "ZoomIn", "ZoomOut", "ReadCellCurrent"])] for _ in range(rng.randint(6, 16))]
        if rng.random() < 0.5:
            case["again"] = {"mathml": case["mathml"] if rng.random() < 0.7 else expression(), "steps": make_steps(rng, every, 1, 8)}
            if rng.random() < 0.3:
                # a place marker set on the first expression, the walk undone (partly or all the way back), and the marker asked for on the next
                # expression: whatever the library answers, the id it hands out must belong to the expression that is set NOW
                m = rng.choice("123")
                undo = rng.choice([1, 2, len(case["steps"]) + 2])
                case["steps"] = case["steps"] + [["nav", "SetPlacemarker" + m]] + [["nav", "MoveLastLocation"]] * undo
                case["again"]["steps"] = [["nav", "MoveTo" + m]] + case["again"]["steps"]
        cases.append(case)
    for case in cases:
        if time.time() > deadline:
            break
        steps = case.get("steps")
        if steps is None:        # witness format of earlier versions
            steps = [["nav", c] for c in case.get("commands", [])]
        with core.Session({"TTS": case["tts"], "Bookmark": "true", "BrailleCode": case["code"], "NavMode": case.get("nav_mode", "Enhanced")}) as sess:
            bad, judged = handout_round(sess, case["mathml"], steps, case["positions"], st)
            if not judged:
                continue
            st.evaluations += 1
            if not bad and case.get("again"):
                bad, judged2 = handout_round(sess, case["again"]["mathml"], case["again"]["steps"], case["positions"], st)
                if judged2:
                    st.count("second_rounds_same_string" if case["again"]["mathml"] == case["mathml"] else "second_rounds_other_string")
                if bad:
                    bad = (bad[0], "after the expression was set again (%s): %s" % ("the same string" if case["again"]["mathml"] == case["mathml"] else "another string", bad[1]))
            if bad:
                st.violations.append(core.violation(bad[0], bad[0], case, bad[1] + " | " + case["mathml"][:300]))
            else:
                st.nontrivial.add(core.h16(case["mathml"] + repr(steps) + repr(case.get("again"))))
    return st.to_dict()


def feedback_phase(spec):
    """MathML returned by set_mathml (with the ids the library generated) is sent back as part of a larger expression that also has
    elements without ids: all ids of the new result must again be distinct and every element must have one"""
    st = core.Stats()
    rng = random.Random(spec["seed"])
    deadline = time.time() + spec["time_budget"]
    cases = list(spec.get("fixed", []))
    for _ in range(spec["n"]):
        tb = gen.Textbook(rng, max_depth=rng.choice([2, 3]), p_ident=0.5)
        cases.append({"phase": "feedback", "mathml": tb.expression()[0].xml(), "pick": rng.random(), "wrap": rng.choice(["mfrac", "row", "msup", "mtd"])})
    with core.Session({"TTS": "None"}) as sess:
        for case in cases:
            if time.time() > deadline:
                break
            r1 = sess.call("set_mathml", case["mathml"], timeout=30)
            if r1 is None or r1["r"] != "ok":
                continue
            try:
                root1 = ET.fromstring(r1["v"])
            except ET.ParseError:
                continue
            elems = [e for e in root1.iter() if mml.local(e.tag) != "math"]
            if not elems:
                continue
            sub = elems[int(case["pick"] * len(elems)) % len(elems)]
            if mml.local(sub.tag) in ("mtr", "mtd", "mlabeledtr", "none", "mprescripts"):
                sub = list(root1)[0]
            piece = ET.tostring(sub, encoding="unicode")
            wrap = case["wrap"]
            if wrap == "mfrac":
                xml2 = "<math><mfrac>%s<mrow><mi>z</mi><mo>+</mo><mn>1</mn></mrow></mfrac></math>" % piece
            elif wrap == "msup":
                xml2 = "<math><msup><mrow><mo>(</mo>%s<mo>)</mo></mrow><mn>2</mn></msup></math>" % piece
            elif wrap == "mtd":
                xml2 = "<math><mtable><mtr><mtd>%s</mtd><mtd><mi>z</mi></mtd></mtr></mtable></math>" % piece
            else:
                xml2 = "<math><mi>z</mi><mo>=</mo>%s<mo>+</mo><mi>w</mi></math>" % piece
            r2 = sess.call("set_mathml", xml2, timeout=30)
            if r2 is None or r2["r"] != "ok":
                continue
            st.evaluations += 1
            try:
                root2 = ET.fromstring(r2["v"])
            except ET.ParseError:
                continue
            ids = [e.get("id") for e in root2.iter()]
            bad = None
            if any(i is None for i in ids):
                bad = ("feedback-no-id", "an element of the second result has no id")
            else:
                dup = sorted(set(i for i in ids if ids.count(i) > 1))
                if dup:
                    bad = ("feedback-dup-id", "ids %s occur more than once after returned MathML was sent back inside a larger expression" % dup[:3])
            if bad:
                st.violations.append(core.violation(bad[0], bad[0], case, bad[1] + " | first input " + case["mathml"][:300] + " | second input " + xml2[:400]))
                break
            st.count("feedback_results_checked")
            st.nontrivial.add(core.h16(xml2))
    return st.to_dict()


def replay(witness):
    if witness.get("phase") == "feedback":
        return feedback_phase({"seed": 0, "n": 0, "fixed": [witness], "time_budget": 60})["violations"]
    if witness.get("phase") == "handout":
        return handout_phase({"seed": 0, "n": 0, "fixed": [witness], "time_budget": 60})["violations"]
    return canon_run.replay(PROP, witness)


def run(tier, seed):
    t0 = time.time()
    core.build_driver("native")
    specs = canon_run.make_specs(PROP, tier, seed, n_quick=40000, n_thorough=1000000, id_policies=["some", "all", "duplicate", "some+", "all+", "none"], textbook_frac=0.25)
    rng_i = random.Random(core.sub_seed(seed, PROP, "idioms"))
    idioms = split_idioms(rng_i, 1500 if tier == "quick" else 40000)
    for i, sp in enumerate(specs):
        sp["fixed_xml"] = list(sp["fixed_xml"]) + idioms[i::len(specs)]
    results = core.run_shards(canon_run.shard, specs)
    h_specs = [{"seed": core.sub_seed(seed, PROP, "handout", i), "n": 70 if tier == "quick" else 2500, "time_budget": 40 if tier == "quick" else 600} for i in range(core.NPROC)]
    results += core.run_shards(handout_phase, h_specs)
    f_specs = [{"seed": core.sub_seed(seed, PROP, "feedback", i), "n": 250 if tier == "quick" else 12000, "time_budget": 30 if tier == "quick" else 500} for i in range(core.NPROC)]
    results += core.run_shards(feedback_phase, f_specs)
    stats, errors = core.Stats.merge(results)
    known, fixed_failures, extra_v = core.replay_findings(PROP, replay)
    stats.violations.extend(extra_v)
    return core.conclude(
        PROP, tier, seed, "exploration", stats, {},
        ["duplicate author ids are the author's responsibility (uniqueness is demanded only when the author's ids were distinct)",
         "a token merged into a neighbour or deleted may lose its id; if the id is present it must sit on an element containing the token's text"],
        t0,
        rule="degenerate and textbook MathML with author-id policies none/some/all/duplicate (ids with quotes, angle brackets, ampersands, blanks) and token-splitting idioms (point names after geometry "
             "operators and under bars/arrows, chemical formulas, function names run together with arguments, roman numerals) with ids on every element: every Ok set_mathml result is checked for an id on every element, "
             "pairwise distinct ids, author ids staying on their token's text; second phase: random walks (every command name of navigate.rs incl. unset place markers, set_navigation_node with offsets inside "
             "multi-character leaves, key presses; 3 NavModes): ids returned by get_navigation_mathml_id / get_navigation_mathml, braille-position lookup and SSML/SAPI5 bookmarks "
             "must be ids of the returned MathML; third phase: returned MathML (with generated ids) is sent back inside a larger expression and all ids must again be distinct; non-trivial = inputs that carried author ids (phase 1) / walks whose ids were all checked (phase 2)",
        min_nontrivial=300, harness_errors=errors, known_replayed=known, fixed_failures=fixed_failures)
