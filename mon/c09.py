"""C09 — every node gets a unique id and author ids are kept; every id handed out later exists in the returned MathML.
Oracle: id invariants on the parsed result (canon.id_problems) + membership of every id later returned by navigation,
braille-position lookup and speech bookmarks in the id set of the last set_mathml result."""
import random
import re
import time
import xml.etree.ElementTree as ET

from . import canon, canon_run, core, gen, mml

PROP = "C09"


def judge(tree, xml, root, ctx):
    if root is None:
        return []
    return [(code, code, detail) for code, detail in canon.id_problems(tree, root)]


def observe(tree, r, st):
    n_author = sum(1 for n, _ in tree.walk() if "id" in n.attrs)
    if n_author:
        st.nontrivial.add(core.h16(tree.shape() + "|" + ",".join(sorted(n.attrs["id"] for n, _ in tree.walk() if "id" in n.attrs))))
        st.count("author_ids_checked", n_author)
    st.count("results_checked_for_id_invariants")
    if len(st.samples) < 2 and n_author:
        st.sample({"input": tree.xml()[:500], "returned": r["v"][:700]})


def signature(kind, small, detail):
    with_ids = ",".join("%s#" % n.tag for n, _ in small.walk() if "id" in n.attrs)
    return "%s | %s | ids on %s" % (kind, canon_run.canon_shape(small), with_ids or "-")


NAV = ["ZoomIn", "ZoomOut", "MoveNext", "MovePrevious", "ZoomInAll", "ZoomOutAll", "MoveStart", "MoveEnd", "MoveLineStart", "MoveCellNext", "MoveCellDown", "MoveCellUp",
       "ReadNext", "DescribeCurrent", "WhereAmI", "MoveLastLocation", "SetPlacemarker1", "MoveTo1"]
MARK = re.compile(r"""<(?:mark name|bookmark mark)=['"]([^'"]*)['"]""")


def handout_phase(spec):
    """ids handed out after set_mathml belong to the returned MathML"""
    st = core.Stats()
    rng = random.Random(spec["seed"])
    deadline = time.time() + spec["time_budget"]
    cases = list(spec.get("fixed", []))
    codes = ["Nemeth", "UEB", "CMU"]
    for _ in range(spec["n"]):
        tb = gen.Textbook(rng, max_depth=rng.choice([2, 3]), p_ident=0.5)
        tree = tb.expression()[0]
        if rng.random() < 0.5:
            k = 0
            for n, _ in tree.walk():
                if rng.random() < 0.5:
                    k += 1
                    n.attrs["id"] = "au%d" % k
        cases.append({"phase": "handout", "mathml": tree.xml(), "tts": rng.choice(["SSML", "SAPI5"]), "code": rng.choice(codes),
                      "commands": [rng.choice(NAV) for _ in range(rng.randint(2, 10))], "positions": [rng.randint(0, 40) for _ in range(4)]})
    for case in cases:
        if time.time() > deadline:
            break
        with core.Session({"TTS": case["tts"], "Bookmark": "true", "BrailleCode": case["code"]}) as sess:
            ops = [("set_mathml", case["mathml"]), ("get_spoken_text",), ("get_navigation_mathml_id",)]
            for c in case["commands"]:
                ops += [("do_navigate_command", c), ("get_navigation_mathml_id",)]
            ops.append(("get_braille", ""))
            for p in case["positions"]:
                ops.append(("get_navigation_node_from_braille_position", p))
            res = sess.batch(ops, timeout=60)
            if res is None or res[0]["r"] != "ok":
                continue
            st.evaluations += 1
            try:
                root = ET.fromstring(res[0]["v"])
            except ET.ParseError:
                continue
            ids = set(e.get("id") for e in root.iter() if e.get("id") is not None)
            bad = None
            if res[1]["r"] == "ok":
                marks = MARK.findall(res[1]["v"])
                st.count("bookmark_ids_checked", len(marks))
                for m in marks:
                    if m not in ids:
                        bad = ("bookmark-id-unknown", "speech bookmark names id %r which is not in the returned MathML" % m)
                        break
            for (op, r) in zip(ops[2:], res[2:]):
                if bad:
                    break
                if op[0] in ("get_navigation_mathml_id", "get_navigation_node_from_braille_position") and r["r"] == "ok":
                    st.count("handed_out_ids_checked")
                    if r["v"][0] not in ids:
                        bad = ("%s-id-unknown" % ("navigation" if op[0] == "get_navigation_mathml_id" else "braille-position"),
                               "%s returned id %r which is not in the returned MathML" % (op[0], r["v"][0]))
            if bad:
                st.violations.append(core.violation(bad[0], bad[0], case, bad[1] + " | " + case["mathml"][:300]))
            else:
                st.nontrivial.add(core.h16(case["mathml"] + "|".join(case["commands"])))
    return st.to_dict()


def replay(witness):
    if witness.get("phase") == "handout":
        return handout_phase({"seed": 0, "n": 0, "fixed": [witness], "time_budget": 60})["violations"]
    return canon_run.replay(PROP, witness)


def run(tier, seed):
    t0 = time.time()
    core.build_driver("native")
    specs = canon_run.make_specs(PROP, tier, seed, n_quick=40000, n_thorough=1000000, id_policies=["some", "all", "duplicate", "some", "none"], textbook_frac=0.25)
    results = core.run_shards(canon_run.shard, specs)
    h_specs = [{"seed": core.sub_seed(seed, PROP, "handout", i), "n": 40 if tier == "quick" else 2000, "time_budget": 40 if tier == "quick" else 600} for i in range(core.NPROC)]
    results += core.run_shards(handout_phase, h_specs)
    stats, errors = core.Stats.merge(results)
    known, fixed_failures, extra_v = core.replay_findings(PROP, replay)
    stats.violations.extend(extra_v)
    return core.conclude(
        PROP, tier, seed, "exploration", stats, {},
        ["duplicate author ids are the author's responsibility (uniqueness is demanded only when the author's ids were distinct)",
         "a token merged into a neighbour or deleted may lose its id; if the id is present it must sit on an element containing the token's text"],
        t0,
        rule="degenerate and textbook MathML with author-id policies none/some/all/duplicate: every Ok set_mathml result is checked for an id on every element, "
             "pairwise distinct ids, author ids staying on their token's text; second phase: ids returned by navigation, braille-position lookup and SSML/SAPI5 bookmarks "
             "must be ids of the returned MathML; non-trivial = inputs that carried author ids (phase 1) / walks whose ids were all checked (phase 2)",
        min_nontrivial=300, harness_errors=errors, known_replayed=known, fixed_failures=fixed_failures)
