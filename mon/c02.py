"""C02 — returned MathML is well-formed canonical MathML.
Oracle: strict XML parse with Python's parser, arity / empty-token / short-row / removed-wrapper invariants from the statement, and
re-serialisation round trip (escaping).  A second phase checks that get_navigation_mathml returns the sub-tree of the last result."""
import random
import time
import xml.etree.ElementTree as ET

from . import canon, canon_run, core, gen, gen_degen, mml

PROP = "C02"
SPECIAL_TEXTS = ["&", "<", ">", "\"", "'", "&amp;", "a&b<c>d\"e'f", "]]>", "<!--", "&#x26;", "x&lt;y", "<a>", "'\"", "&&", "<<", "\\", "--", "a<b", " & "]


def judge(tree, xml, root, ctx):
    out = []
    if root is None:
        return [("not-well-formed", "nwf", "returned string is not well-formed XML: %s" % ctx.get("parse_error", ""))]
    for code, elem, detail in canon.structure_problems(root):
        out.append((code + ":" + elem, code + ":" + elem, "%s %s" % (code, detail)))
    # escaping: re-serialising the parsed tree and parsing again gives the same tree, and every special character of an input token /
    # attribute survives literally
    try:
        again = ET.fromstring(canon.reserialise(root))
        if not canon.same_tree(root, again):
            out.append(("roundtrip", "roundtrip", "parse(serialise(parse(result))) differs from parse(result)"))
    except ET.ParseError as e:
        out.append(("roundtrip", "roundtrip", "re-serialised tree does not parse: %s" % e))
    # a data-* attribute of the input that is present in the result carries one of the values the input gave it (the element carrying it
    # may legitimately have been removed or merged, so presence is not demanded)
    want = {}
    for n, _ in tree.walk():
        for k, v in n.attrs.items():
            if k.startswith("data-esc"):
                want.setdefault(k, set()).add(v)
    if want:
        for e in root.iter():
            for k, v in e.attrib.items():
                if k in want and v not in want[k]:
                    out.append(("attr-escape", "attr-escape", "attribute %s came back as %r, input had %r" % (k, v, sorted(want[k]))))
                    break
    return out


def observe(tree, r, st):
    st.nontrivial.add(core.h16(tree.shape()))
    if any(ch in r["v"] for ch in ("&amp;", "&lt;", "&quot;", "&apos;", "&gt;")):
        st.count("results_with_escaped_characters")
    for n, _ in tree.walk():
        st.add("input_elements", n.tag)
    if len(st.samples) < 2:
        st.sample({"input": tree.xml()[:400], "returned": r["v"][:600]})


def signature(kind, small, detail):
    return "%s | %s" % (kind, canon_run.canon_shape(small))


def replay(witness):
    if witness.get("phase") == "nav":
        return nav_phase({"seed": 0, "n": 0, "fixed": [witness], "time_budget": 60})["violations"]
    if witness.get("phase") == "ns":
        return ns_phase({"seed": 0, "n": 0, "fixed": [witness]})["violations"]
    return canon_run.replay(PROP, witness)


def pred_invisible_op_in_wrapper(v, params):
    """known finding C02-invisible-op-with-space-in-wrapper: the minimal witness has an mstyle/mpadded whose only non-blank child is an
    author-written invisible operator"""
    tree = gen.from_xml(v["witness"]["mathml"])
    for n, _ in tree.walk():
        if n.tag in ("mstyle", "mpadded") and n.kids:
            vis = [k for k in n.kids if not (k.kids is None and (k.text or "").strip() == "") and k.tag not in ("mspace",) and not (k.kids is not None and not k.kids)]
            if len(vis) == 1 and vis[0].tag == "mo" and (vis[0].text or "") in ("\u2061", "\u2062", "\u2063", "\u2064"):
                return True
    return False


core.PREDICATES["c02_invisible_op_in_wrapper"] = pred_invisible_op_in_wrapper


def escaping_inputs(rng, n):
    """tokens and data-* attributes made of exactly the characters that need escaping"""
    out = []
    for _ in range(n):
        g = gen_degen.Degenerate(rng, max_depth=2, size_cap=10, p_empty=0.02, html=False)
        t = g.expression()
        toks = [x for x, _ in t.walk() if x.kids is None and x.tag in ("mi", "mtext", "ms", "mo")]
        for x in rng.sample(toks, min(len(toks), rng.randint(1, 3))):
            x.text = rng.choice(SPECIAL_TEXTS)
            x.raw = None
        for x, _ in t.walk():
            if rng.random() < 0.25 and x.tag not in ("annotation", "annotation-xml"):
                x.attrs["data-esc%d" % rng.randint(0, 3)] = rng.choice(SPECIAL_TEXTS)
            if rng.random() < 0.08 and x.tag not in ("annotation", "annotation-xml"):
                # attributes in the predeclared xml namespace next to their unprefixed namesakes, MathCAT's own bookkeeping attributes
                k = rng.random()
                if k < 0.4:
                    x.attrs["xml:lang"] = rng.choice(["en", "fr", "de-CH"])
                    if rng.random() < 0.6:
                        x.attrs["lang"] = rng.choice(["fr", "sv", "en"])
                elif k < 0.6:
                    x.attrs["xml:space"] = "preserve"
                    x.attrs["space"] = "1em"
                elif k < 0.8:
                    x.attrs["data-changed"] = rng.choice(["added", "empty_content", "was-mspace", "from_mfenced"])
                else:
                    x.attrs["data-id-added"] = "true"
        out.append(t.xml())
    return out


# --- phase 2: get_navigation_mathml returns the sub-tree with the navigation id of the last set_mathml result --------------------------
NAV = ["ZoomIn", "ZoomOut", "MoveNext", "MovePrevious", "ZoomInAll", "ZoomOutAll", "MoveStart", "MoveEnd", "MoveLineStart", "MoveLineEnd", "MoveCellNext", "MoveCellDown"]


def nav_phase(spec):
    st = core.Stats()
    rng = random.Random(spec["seed"])
    deadline = time.time() + spec["time_budget"]
    cases = list(spec.get("fixed", []))
    for _ in range(spec["n"]):
        tb = gen.Textbook(rng, max_depth=rng.choice([2, 3]), p_ident=0.6)
        cmds = [rng.choice(NAV) for _ in range(rng.randint(1, 8))]
        cases.append({"phase": "nav", "mathml": tb.expression()[0].xml(), "commands": cmds})
    with core.Session({"TTS": "None"}) as sess:
        for case in cases:
            if time.time() > deadline:
                break
            ops = [("set_mathml", case["mathml"])]
            for c in case["commands"]:
                ops += [("do_navigate_command", c), ("get_navigation_mathml",), ("get_navigation_mathml_id",)]
            res = sess.batch(ops, timeout=60)
            if res is None or res[0]["r"] != "ok":
                st.inconclusive += 1 if res is None else 0
                continue
            st.evaluations += 1
            try:
                root = ET.fromstring(res[0]["v"])
            except ET.ParseError:
                continue
            by_id = {e.get("id"): e for e in root.iter() if e.get("id") is not None}
            for i, c in enumerate(case["commands"]):
                nm, nid = res[2 + 3 * i], res[3 + 3 * i]
                if nm["r"] != "ok" or nid["r"] != "ok":
                    continue          # C11's business
                st.count("navigation_mathml_compared")
                try:
                    sub = ET.fromstring(nm["v"][0])
                except ET.ParseError as e:
                    st.violations.append(core.violation("nav-not-well-formed", "nav-not-well-formed", dict(case, commands=case["commands"][:i + 1]),
                                                        "get_navigation_mathml is not well-formed XML: %s" % e))
                    break
                want = by_id.get(nid["v"][0])
                if want is None:
                    continue          # C09/C11's business
                if not canon.same_tree(want, sub):
                    st.violations.append(core.violation("nav-subtree-differs", "nav-subtree-differs | " + mml.local(want.tag), dict(case, commands=case["commands"][:i + 1]),
                                                        "get_navigation_mathml differs from the sub-tree with id %s of the set_mathml result: %s vs %s" % (
                                                            nid["v"][0], nm["v"][0][:300], canon.reserialise(want)[:300])))
                    break
                st.nontrivial.add(core.h16(case["mathml"] + "|" + ",".join(case["commands"][:i + 1])))
    return st.to_dict()


# --- phase 3: raw strings with a namespace prefix on the MathML elements and attributes from a foreign namespace -------------------------
FOREIGN = [("h:href", "href"), ("h:class", "class"), ("h:id", None), ("h:style", "style"), ("h:title", "title"), ("h:lang", "lang"), ("h:dir", "dir")]


def ns_inputs(rng, n):
    """textbook expressions written as <m:math xmlns:m='...MathML' xmlns:h='urn:...'> with attributes that differ only in their namespace
    on one element (h:href next to href, h:id on an element that gets a generated id, ...)"""
    import re as _re
    out = []
    for _ in range(n):
        xml = gen.Textbook(rng, max_depth=rng.choice([1, 2])).expression()[0].xml()
        body = _re.sub(r"<(/?)([a-zA-Z])", r"<\1m:\2", xml)
        opens = [m for m in _re.finditer(r"<m:(?!math\b)[a-z]+", body)]
        for m in sorted(rng.sample(opens, min(len(opens), rng.randint(1, 3))), key=lambda m: -m.end()):
            a, b = rng.choice(FOREIGN)
            ins = " %s='f%d'" % (a, rng.randint(0, 9)) + (" %s='p%d'" % (b, rng.randint(0, 9)) if b and rng.random() < 0.7 else "")
            body = body[:m.end()] + ins + body[m.end():]
        body = body.replace("<m:math", "<m:math xmlns:m='http://www.w3.org/1998/Math/MathML' xmlns:h='urn:x-other-vocabulary'", 1)
        out.append(body)
    return out


def ns_phase(spec):
    st = core.Stats()
    rng = random.Random(spec["seed"])
    cases = list(spec.get("fixed", [])) + [{"phase": "ns", "raw": x} for x in ns_inputs(rng, spec["n"])]
    with core.Session({"TTS": "None"}) as sess:
        for case in cases:
            r = sess.call("set_mathml", case["raw"], timeout=30)
            if r is None or r["r"] != "ok":
                st.count("ns_set_mathml_not_ok_not_judged")
                continue
            st.evaluations += 1
            st.count("ns_results_judged")
            try:
                root = ET.fromstring(r["v"])
            except ET.ParseError as e:
                st.violations.append(core.violation("not-well-formed", "not-well-formed | raw input with foreign-namespace attributes", case,
                                                    "returned string is not well-formed XML: %s | input %s | returned %s" % (e, case["raw"][:400], r["v"][:400])))
                break
            probs = canon.structure_problems(root)
            if probs:
                st.violations.append(core.violation(probs[0][0] + ":" + probs[0][1], "%s:%s | raw input with foreign-namespace attributes" % (probs[0][0], probs[0][1]), case,
                                                    "%s | input %s" % (probs[0][2], case["raw"][:400])))
                break
            st.nontrivial.add(core.h16(case["raw"]))
    return st.to_dict()


def run(tier, seed):
    t0 = time.time()
    core.build_driver("native")
    specs = canon_run.make_specs(PROP, tier, seed, n_quick=40000, n_thorough=1200000, id_policies=["none", "some"])
    rng = random.Random(core.sub_seed(seed, PROP, "esc"))
    for s in specs:
        s["fixed_xml"] = s["fixed_xml"] + escaping_inputs(rng, 150 if tier == "quick" else 3000)
    results = core.run_shards(canon_run.shard, specs)
    nav_specs = [{"seed": core.sub_seed(seed, PROP, "nav", i), "n": 60 if tier == "quick" else 2500, "time_budget": 40 if tier == "quick" else 600} for i in range(core.NPROC)]
    results += core.run_shards(nav_phase, nav_specs)
    results += core.run_shards(ns_phase, [{"seed": core.sub_seed(seed, PROP, "ns", i), "n": 60 if tier == "quick" else 3000} for i in range(core.NPROC)])
    stats, errors = core.Stats.merge(results)
    known, fixed_failures, extra_v = core.replay_findings(PROP, replay)
    stats.violations.extend(extra_v)
    return core.conclude(
        PROP, tier, seed, "exploration", stats, {},
        ["only the arities, token/row/wrapper rules listed in the statement are enforced; data-* bookkeeping attributes are free",
         "inputs on which set_mathml returns Err or panics are outside this property's quantifier (C08) and only counted"],
        t0,
        rule="the C01 workload (systematic parent x empty-like child table + random degenerate MathML + textbook expressions) plus tokens and data-* attributes made of "
             "characters that need escaping; every Ok result is parsed strictly, validated structurally and round-tripped; second phase: random navigation walks compare "
             "get_navigation_mathml with the sub-tree of the set_mathml result; third phase: raw strings with a namespace prefix on the MathML elements and attributes of a "
             "foreign namespace that share a local name with another attribute of the element; non-trivial = Ok result judged; distinct by element skeleton / walk",
        min_nontrivial=500, harness_errors=errors, known_replayed=known, fixed_failures=fixed_failures)
