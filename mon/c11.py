"""C11 — navigation always rests on a node of the current expression.

History + executable shadow model + invariants read from the guarded `nav_snapshot` hook.  Every walk runs in its own
MathCAT session (a fresh thread of the driver), spans several expressions, mixes commands, key presses and
set_navigation_node, and is judged step by step; a walk stops at its first violation.  The shadow model knows only what the
property states (read-only commands do not move, a marker leads back to the marked node, undo leads back to the node before
the last move, a new expression forgets everything); where a move lands is never judged."""
import math
import os
import random
import re
import time
import xml.etree.ElementTree as ET

from . import configs, core, gen, mml, shrink

PROP = "C11"
OBS = [("get_navigation_mathml_id",), ("get_navigation_mathml",), ("get_navigation_braille",), ("nav_snapshot",)]
NOBS = len(OBS)

# ---------------------------------------------------------------------------------------------------------------------
# specification tables (documentation of the navigation commands / key bindings, not MathCAT code)
# ---------------------------------------------------------------------------------------------------------------------
# key code -> command for (plain, shift, control, shift+control); None = not bound
KEYMAP = {
    0x25: ("MovePrevious", "ReadPrevious", "MoveCellPrevious", "DescribePrevious"),      # left
    0x27: ("MoveNext", "ReadNext", "MoveCellNext", "DescribeNext"),                      # right
    0x26: ("ZoomOut", "ToggleZoomLockUp", "MoveCellUp", "ZoomOutAll"),                   # up
    0x28: ("ZoomIn", "ToggleZoomLockDown", "MoveCellDown", "ZoomInAll"),                 # down
    0x0D: ("WhereAmI", None, "WhereAmIAll", None),                                       # enter
    0x20: ("ReadCurrent", "ToggleSpeakMode", "ReadCellCurrent", "DescribeCurrent"),      # space
    0x24: ("MoveStart", "MoveColumnStart", "MoveLineStart", None),                       # home
    0x23: ("MoveEnd", "MoveColumnEnd", "MoveLineEnd", None),                             # end
    0x08: ("MoveLastLocation",) * 4,                                                     # backspace
    0x1B: ("Exit",) * 4,                                                                 # escape
}
for _i in range(10):
    KEYMAP[0x30 + _i] = ("MoveTo%d" % _i, "Read%d" % _i, "SetPlacemarker%d" % _i, "Describe%d" % _i)
ARROWS = (0x25, 0x26, 0x27, 0x28)
DEFAULT_CFG = {"NavMode": "Enhanced", "Overview": "false", "AutoZoomOut": "true", "NavVerbosity": "Medium",
               "Language": "en", "SpeechStyle": "ClearSpeak", "BrailleCode": "Nemeth"}


def key_command(key, shift, ctrl, alt, meta):
    """command a key press stands for, or None when the combination is not bound"""
    if alt and ctrl and key in ARROWS:
        alt = False
    if alt or meta or key not in KEYMAP:
        return None
    return KEYMAP[key][(1 if shift else 0) + (2 if ctrl else 0)]


def cmd_class(name):
    if name is None:
        return "unbound"
    if name == "MoveLastLocation":
        return "undo"
    if re.fullmatch(r"MoveTo\d", name):
        return "moveto"
    if re.fullmatch(r"SetPlacemarker\d", name):
        return "setmark"
    if name.startswith(("Read", "Describe", "WhereAmI")) or name == "ToggleSpeakMode":
        return "readonly"
    if name.startswith(("Move", "Zoom")):
        return "move"
    if name.startswith("Toggle"):
        return "toggle"
    if name == "Exit":
        return "exit"
    return "unbound"


def abstract_cmd(name):
    return re.sub(r"\d$", "N", name) if name else "unbound"


_NAV_COMMANDS = None


def nav_commands():
    """the command names the library accepts, read from the tree so that the workload follows the code base"""
    global _NAV_COMMANDS
    if _NAV_COMMANDS is None:
        src = open(os.path.join(core.REPO, "src", "navigate.rs"), encoding="utf-8").read()
        m = re.search(r"NAV_COMMANDS\s*:[^=]*=\s*phf_set!\s*\{(.*?)\};", src, re.S)
        names = sorted(set(re.findall(r'"([A-Za-z0-9]+)"', m.group(1)))) if m else []
        if len(names) < 30:
            raise core.Inconclusive("cannot read NAV_COMMANDS from src/navigate.rs")
        _NAV_COMMANDS = names
    return _NAV_COMMANDS


# ---------------------------------------------------------------------------------------------------------------------
# workload
# ---------------------------------------------------------------------------------------------------------------------
_NAV_LANGS = None


def nav_languages():
    """languages that ship navigation rules of their own"""
    global _NAV_LANGS
    if _NAV_LANGS is None:
        out = []
        for lang in configs.languages():
            parts = lang.split("-")
            d = os.path.join(core.RULES, "Languages", *parts)
            if os.path.exists(os.path.join(d, "navigate.yaml")) and configs.styles(lang):
                out.append(lang)
        _NAV_LANGS = out or ["en"]
    return _NAV_LANGS


FEATURES = (["matrix", "table", "cases"] * 4 + ["sup", "sub", "subsup", "multiscripts", "prime"] * 3 + ["frac", "frac_bevelled", "binom", "mixed"] * 3 +
            ["row", "sqrt", "root", "bigop", "lim", "over", "under", "underover", "fenced_row", "mfenced", "func", "enclose", "text_row",
             "neg", "factorial", "implied_times", "abs", "integral", "semantics", "mstyle", "mpadded"])
BROKEN_INPUTS = ["<math><mi>x</mi>", "not xml at all", "<math><mi>&nosuchentity;</mi></math>", ""]


def gen_expression(rng):
    tb = gen.Textbook(rng, max_depth=rng.choice([1, 2, 2, 3]), features=FEATURES)
    tree, _ = tb.expression()
    if rng.random() < 0.3:          # author ids, the same names in every expression of a walk
        n = 0
        for node, _path in tree.walk():
            if rng.random() < 0.4:
                node.attrs["id"] = "a%d" % n
            n += 1
    return tree.xml()


def pick_digit(rng):
    return rng.choice("0123") if rng.random() < 0.85 else rng.choice("0123456789")


def pick_command(rng, groups, hot):
    """hot = directly after a change of expression: prefer what is tied to the old expression"""
    r = rng.random()
    if hot and r < 0.6:
        return _hot(rng)
    if r < 0.50:
        return rng.choice(groups["move"])
    if r < 0.62:
        return rng.choice(groups["readonly"])
    if r < 0.71:
        return "SetPlacemarker" + pick_digit(rng)
    if r < 0.80:
        return "MoveTo" + pick_digit(rng)
    if r < 0.83:
        return rng.choice(["Read", "Describe"]) + pick_digit(rng)
    if r < 0.92:
        return "MoveLastLocation"
    if r < 0.96:
        return rng.choice(groups["toggle"])
    if r < 0.985:
        return rng.choice(groups["norule"])
    return rng.choice(["NoSuchCommand", "moveNext", "", "MoveTo10", "Error"])


def _hot(rng):
    k = rng.choice(["MoveTo", "MoveTo", "MoveLastLocation", "Read", "Describe"])
    return k if k == "MoveLastLocation" else k + pick_digit(rng)


def command_groups():
    cmds = nav_commands()
    g = {"move": [], "readonly": [], "toggle": [], "norule": []}
    for c in cmds:
        k = cmd_class(c)
        if c in ("ReadStart", "ReadEnd", "ReadLineStart", "ReadLineEnd", "Exit"):
            g["norule"].append(c)
        elif re.search(r"\d$", c):
            continue
        elif k in ("move", "readonly", "toggle"):
            g[k].append(c)
    # plain left/right/zoom are what a user presses most
    g["move"] += ["MoveNext", "MovePrevious", "ZoomIn", "ZoomOut"] * 3
    for k in g:
        g[k] = g[k] or ["Exit"]
    return g


def command_to_key(rng, name):
    """a key press bound to the command (None when there is none)"""
    for key, row in KEYMAP.items():
        for i, c in enumerate(row):
            if c == name:
                shift, ctrl = bool(i & 1), bool(i & 2)
                alt = ctrl and key in ARROWS and rng.random() < 0.2
                return ["key", key, shift, ctrl, alt, False]
    return None


def gen_walk(rng):
    groups = command_groups()
    cfg = {"NavMode": rng.choice(["Enhanced", "Simple", "Character"]), "Overview": rng.choice(["true", "false"]),
           "AutoZoomOut": rng.choice(["true", "false"]), "NavVerbosity": rng.choice(["Terse", "Medium", "Verbose"]),
           "Language": "en" if rng.random() < 0.85 else rng.choice(nav_languages()),
           "SpeechStyle": rng.choice(["ClearSpeak", "SimpleSpeak"]), "BrailleCode": rng.choice(["Nemeth", "Nemeth", "UEB"])}
    if cfg["SpeechStyle"] not in configs.styles(cfg["Language"]):
        cfg["SpeechStyle"] = configs.styles(cfg["Language"])[0]
    if rng.random() < 0.004:
        # a marathon on ONE expression: more than a thousand position-changing moves (a reader going back and forth through a long
        # derivation), then the way back with 'undo': every undo still returns to the position that was current before the undone move
        steps = [["set", gen_expression(rng)]]
        pairs = [("MoveNext", "MovePrevious"), ("ZoomIn", "ZoomOut"), ("MoveNext", "MovePrevious"), ("MoveEnd", "MoveStart"), ("ZoomInAll", "ZoomOutAll")]
        while len(steps) < rng.choice([1030, 1100, 1300]):
            a, b = rng.choice(pairs)
            k = rng.randint(1, 3)
            steps += [["cmd", a]] * k + [["cmd", b]] * k
        steps += [["cmd", "MoveLastLocation"]] * rng.choice([3, 40, 600, 700])
        steps += [["cmd", "MoveNext"], ["cmd", "MoveLastLocation"]]
        return {"cfg": cfg, "steps": steps}
    length = int(round(math.exp(rng.uniform(math.log(5), math.log(200)))))
    nexpr = min(rng.choice([1, 2, 2, 3, 3, 4]), max(1, length // 3))
    set_at = {0} | set(rng.sample(range(2, max(3, length)), nexpr - 1)) if nexpr > 1 else {0}
    steps = []
    hot = False
    for i in range(length):
        if i in set_at:
            if i and rng.random() < 0.06:
                steps.append(["set", rng.choice(BROKEN_INPUTS)])
            else:
                steps.append(["set", gen_expression(rng)])
            hot = i > 0
            continue
        r = rng.random()
        if r < 0.07:
            q = rng.random()
            if q < 0.70:
                sel = rng.randrange(1 << 20)
            elif q < 0.85:
                sel = ["old", rng.randrange(1 << 20)]
            else:
                sel = ["bogus", rng.choice(["nosuch", "", "!not set", "M0000000-1", "a999"])]
            q = rng.random()
            off = 0 if q < 0.7 else ["in", rng.randrange(8)] if q < 0.92 else ["raw", rng.randint(1, 6)]
            steps.append(["node", sel, off])
        else:
            name = pick_command(rng, groups, hot)
            step = None
            if rng.random() < 0.4:
                step = command_to_key(rng, name)
            if step is None and rng.random() < 0.02:
                step = ["key", rng.choice([0x41, 0x09, 0x70, 0x25, 0x30, 0]), rng.random() < 0.3, rng.random() < 0.3, rng.random() < 0.7, rng.random() < 0.5]
            steps.append(step or ["cmd", name])
        hot = False
    if cfg["Overview"] == "true":
        # the library starts every session in "speak" mode whatever the preference says; ToggleSpeakMode is the way into overview mode
        steps.insert(1, ["cmd", "ToggleSpeakMode"])
    return {"cfg": cfg, "steps": steps}


# ---------------------------------------------------------------------------------------------------------------------
# oracle
# ---------------------------------------------------------------------------------------------------------------------
def same_tree(a, b):
    """same element structure, ids and token text (other attributes may be added to the live tree by later processing)"""
    if mml.local(a.tag) != mml.local(b.tag) or a.get("id") != b.get("id") or len(a) != len(b):
        return False
    if not len(a) and (a.text or "").strip() != (b.text or "").strip():
        return False
    return all(same_tree(x, y) for x, y in zip(a, b))


def err_class(res):
    if res["r"] == "panic":
        p = res.get("p") or {}
        return "panic:" + re.sub(r"\d+", "N", (p.get("fn") or "?").split(" <- ")[0] + ":" + (p.get("msg") or "")[:60])
    e = res.get("e") or ""
    lines = [l for l in e.splitlines() if l.strip()]
    causes = [l[len("caused by: "):] for l in lines if l.startswith("caused by: ")]
    pats = re.findall(r'attempting replacement pattern: "([^"]*)" for "([^"]*)"', e)
    root = causes[-1] if causes else (lines[0] if lines else "")
    root = re.sub(r"\bM[0-9a-z]{6,8}-\d+", "ID", root)
    root = re.sub(r"'[^']*'", "'…'", root)
    root = re.sub(r"\d+", "N", root)
    root = re.sub(r"<.*", "", root)[:80].strip()
    return ("%s/%s|" % pats[-1] if pats else "") + root


class Shadow:
    """What the property lets us know about the navigation state without looking at the rules."""

    def __init__(self):
        self.root = None          # parsed current expression
        self.ids = {}             # id -> element (first in document order)
        self.id_list = []
        self.old_id_list = []
        self.epoch = 0
        self.pos = None           # (id, offset) observed after the previous step
        self.snap = None
        self.markers = {}         # digit -> {"pos", "epoch", "certain"}
        self.last_move = None     # position before the last position-changing move (None = unknown / nothing to undo)
        self.hist = []            # positions before every position-changing move since the last reset (information only)

    def set_expression(self, xml):
        self.old_id_list = self.id_list
        self.root = ET.fromstring(xml)
        self.ids, self.id_list = {}, []
        for e in self.root.iter():
            i = e.get("id")
            if i is not None and i not in self.ids:
                self.ids[i] = e
                self.id_list.append(i)
        self.epoch += 1

    def root_ids(self):
        out = [self.root.get("id")]
        if len(self.root) == 1:
            out.append(self.root[0].get("id"))
        return out

    def is_leaf(self, i):
        return mml.local(self.ids[i].tag) in mml.LEAVES

    def marker_status(self, digit):
        m = self.markers.get(digit)
        if m is None:
            return "unset"
        if m["epoch"] != self.epoch:
            return "stale"
        return "fresh" if m["certain"] else "uncertain"


def resolve_node(sh, sel, off):
    """(id, offset, class) for a set_navigation_node step; class in valid / bad-offset / no-such-id"""
    if isinstance(sel, list):
        if sel[0] == "old" and sh.old_id_list:
            nid = sh.old_id_list[sel[1] % len(sh.old_id_list)]
        elif sel[0] == "old":
            nid = "nosuch"
        else:
            nid = sel[1]
    else:
        nid = sh.id_list[sel % len(sh.id_list)]
    if nid not in sh.ids:
        return nid, (off[1] if isinstance(off, list) else 0), "no-such-id"
    leaf = sh.is_leaf(nid)
    n = len(sh.ids[nid].text or "") if leaf else 0
    if isinstance(off, list) and off[0] == "in":
        return nid, (off[1] % n if leaf and n else 0), "valid"
    if isinstance(off, list):
        o = off[1]
        return nid, o, ("valid" if leaf and o < n else "bad-offset")
    return nid, 0, "valid"


class Walker:
    """runs walks, each in a session thread of its own, and judges them"""

    def __init__(self, flavour="native"):
        self.flavour = flavour
        self.d = None
        self.n = 0

    def driver(self):
        if self.d is None or not self.d.alive():
            self.close()
            self.d = core.Driver(self.flavour)
        return self.d

    def close(self):
        if self.d is not None:
            self.d.close()
            self.d = None

    @staticmethod
    def prefs(cfg):
        p = {"TTS": "None"}
        for k in ("Language", "SpeechStyle", "BrailleCode", "NavMode", "Overview", "AutoZoomOut", "NavVerbosity"):
            p[k] = cfg.get(k, DEFAULT_CFG[k])
        return p

    def run(self, walk, st=None):
        """returns {"violation": None | dict, "inconclusive": bool, "facts": {...}}"""
        try:
            return self._run(walk, st)
        except (core.DriverDied, core.DriverTimeout) as e:
            self.close()
            return {"violation": None, "inconclusive": True, "facts": {}, "why": str(e)}

    def _run(self, walk, st):
        d = self.driver()
        self.n += 1
        s = "w%d" % self.n
        try:
            init = core.init_ops(self.prefs(walk["cfg"]))
            for op, r in zip(init, d.batch(init, s=s)):
                if r["r"] != "ok":
                    raise core.Inconclusive("session init failed: %s -> %s" % (op, r))
            return self._walk(d, s, walk, st)
        finally:
            if self.d is not None and self.d.alive():
                try:
                    self.d.call("end_session", s=s)
                except (core.DriverDied, core.DriverTimeout):
                    self.close()

    # -- the walk -------------------------------------------------------------------------------------------------------
    def _walk(self, d, s, walk, st):
        sh = Shadow()
        steps = walk["steps"]
        facts = {"steps": 0, "moves": 0, "marker_moves": 0, "undos": 0, "exprs": 0, "speech": 0}
        i = 0
        while i < len(steps):
            # one chunk = a set_mathml step judged on its own (the ids of later steps depend on its result) ...
            if steps[i][0] == "set":
                res = d.batch([("set_mathml", steps[i][1])] + OBS, s=s)
                if sh.root is None and res[0]["r"] != "ok":
                    if st:
                        st.count("first_set_mathml_" + res[0]["r"])
                    return {"violation": None, "inconclusive": False, "facts": facts}     # nothing to navigate; C08's business
                v = self.judge(d, walk, sh, i, steps[i], None, res[0], res[1:], facts, st)
                if v:
                    return {"violation": v, "inconclusive": False, "facts": facts}
                i += 1
                continue
            if sh.root is None:
                i += 1
                continue
            # ... followed by everything up to the next set_mathml in one batch
            j = i
            ops, meta = [], []
            shadow_ids = sh             # node steps resolve against the current expression
            while j < len(steps) and steps[j][0] != "set":
                stp = steps[j]
                if stp[0] == "cmd":
                    ops.append(("do_navigate_command", stp[1]))
                    meta.append(None)
                elif stp[0] == "key":
                    ops.append(("do_navigate_keypress", stp[1], stp[2], stp[3], stp[4], stp[5]))
                    meta.append(None)
                else:
                    nid, off, cls = resolve_node(shadow_ids, stp[1], stp[2])
                    ops.append(("set_navigation_node", nid, off))
                    meta.append((nid, off, cls))
                ops.extend(OBS)
                j += 1
            res = d.batch(ops, s=s, timeout=60)
            for k in range(i, j):
                base = (k - i) * (1 + NOBS)
                v = self.judge(d, walk, sh, k, steps[k], meta[k - i], res[base], res[base + 1:base + 1 + NOBS], facts, st)
                if v:
                    return {"violation": v, "inconclusive": False, "facts": facts}
            i = j
        return {"violation": None, "inconclusive": False, "facts": facts}

    # -- judging one step -------------------------------------------------------------------------------------------------
    def judge(self, d, walk, sh, index, step, meta, res, obs, facts, st):
        """returns None or a violation dict {kind, cls, detail, index}"""
        facts["steps"] += 1
        kind = step[0]
        before = sh.pos
        name = None
        if kind == "cmd":
            name = step[1] if step[1] in nav_commands() else None
            cls = cmd_class(name)
            label = abstract_cmd(name) if name else "unknown-command"
        elif kind == "key":
            name = key_command(*step[1:6])
            cls = cmd_class(name)
            label = abstract_cmd(name) if name else "unbound-key"
        elif kind == "node":
            cls = "node"
            label = "set_navigation_node[%s]" % meta[2]
        else:
            cls = "set"
            label = "set_mathml[%s]" % res["r"]
        digit = name[-1] if name and name[-1].isdigit() else None
        if cls == "moveto":
            label += "[marker=%s]" % sh.marker_status(digit)
        if st:
            st.count("step_" + cls)
            if name:
                st.add("commands", name)
            if kind == "key":
                st.count("keypresses")
            if cls == "moveto":         # counted here: on a tree with the stale-marker defect the universal checks below end the walk first
                st.count("moveto_" + sh.marker_status(digit))
            if res["r"] != "ok" and kind != "set":
                st.count("result_%s_%s" % (res["r"], cls))
                st.add("error_classes", "%s: %s" % (label, err_class(res))[:160])
            if res["r"] == "ok" and kind in ("cmd", "key"):
                st.count("nav_speech_strings")
                facts["speech"] += 1
            if res["r"] == "panic" and kind != "set" and len(st.notes) < 3:
                # not this property's verdict (C08 owns panics), but worth a pointer
                st.notes.append("panic in %s: %s | cfg %s | steps %s" % (label, err_class(res), cfg_sig(walk["cfg"]),
                                                                       [x if x[0] != "set" else ["set", x[1][:300]] for x in walk["steps"][max(0, index - 6):index + 1]]))

        def bad(k, detail):
            return {"kind": k, "cls": label, "detail": detail, "index": index}      # label is read when bad() is called

        # the new expression (a failed set_mathml leaves the old one in place)
        if kind == "set" and res["r"] == "ok":
            try:
                sh.set_expression(res["v"])
            except ET.ParseError as e:
                return bad("set-mathml-output-unparsable", str(e))       # cannot happen silently: C02 owns it, but nothing can be judged here
            facts["exprs"] += 1
        elif kind == "set" and st:
            st.count("set_mathml_" + res["r"])

        # ---- universal observations ------------------------------------------------------------------------------------
        rid, rmm, rbr, rsnap = obs
        if rid["r"] != "ok":
            return bad("position-unavailable", "get_navigation_mathml_id -> %s %s" % (rid["r"], err_class(rid)))
        nid, noff = rid["v"][0], int(rid["v"][1])
        now = (nid, noff)
        if nid not in sh.ids:
            return bad("position-not-in-expression", "after %s the position is %r, not an id of the current expression (%d ids); get_navigation_mathml -> %s"
                       % (self.describe(step, meta), nid, len(sh.ids), (rmm.get("e") or rmm["r"])[:120]))
        if rmm["r"] != "ok":
            return bad("nav-mathml-error", "position %r is in the expression but get_navigation_mathml -> %s %s" % (nid, rmm["r"], err_class(rmm)))
        try:
            got = ET.fromstring(rmm["v"][0])
        except ET.ParseError as e:
            return bad("nav-mathml-unparsable", str(e))
        if not same_tree(got, sh.ids[nid]) or int(rmm["v"][1]) != noff:
            return bad("nav-mathml-mismatch", "get_navigation_mathml returned %s[+%s] for position %s[+%s]" % (mml.skeleton(got), rmm["v"][1], mml.skeleton(sh.ids[nid]), noff))
        snap = rsnap.get("v") if rsnap["r"] == "ok" else None
        if snap is None:
            raise core.Inconclusive("nav_snapshot hook failed: %r" % (rsnap,))
        ps, cs = snap["position_stack"], snap["command_stack"]
        if len(ps) != len(cs):
            return bad("stack-unbalanced", "position stack %d entries, command stack %d" % (len(ps), len(cs)))
        stale = [p[0] for p in ps if p[0] not in sh.ids]
        if stale:
            return bad("stale-stack-entry", "position stack holds %r, not in the current expression" % stale[:3])
        if st:
            st.add("modes", snap.get("mode") or "-")
            st.add("overview", str(snap.get("speak_overview")))
            if len(ps) > st.counters.get("max_stack_depth", 0):
                st.counters["max_stack_depth"] = len(ps)
        # the offset is part of the position: it must name a character of a leaf (set_navigation_node itself refuses an offset on a non-leaf)
        elem = sh.ids[nid]
        if noff and mml.local(elem.tag) not in mml.LEAVES:
            return bad("offset-on-non-leaf", "after %s the position is %s: offset %d on an element that is not a leaf; get_navigation_braille -> %s"
                       % (self.describe(step, meta), self.where(sh, now), noff, rbr.get("e", rbr["r"])[:100]))
        if noff and noff >= len(elem.text or ""):
            return bad("offset-beyond-leaf", "after %s the position is %s: offset %d but the leaf has %d characters; get_navigation_braille -> %s"
                       % (self.describe(step, meta), self.where(sh, now), noff, len(elem.text or ""), rbr.get("e", rbr["r"])[:100]))
        if rbr["r"] != "ok":
            v = self.braille_failure(d, walk, sh, now, rbr)
            if v:
                # which command led here does not matter for this cause: the signature names the failure and the element instead
                label = "at:" + mml.local(elem.tag)
                return bad(*v)
            if st:
                st.count("nav_braille_errors_not_about_position")
                st.add("nav_braille_error_classes", err_class(rbr)[:120])

        # ---- rules per class of step ---------------------------------------------------------------------------------------
        changed = before is not None and now != before
        node_changed = before is not None and now[0] != before[0]
        try:
            if kind == "set":
                if res["r"] == "ok":
                    if nid not in sh.root_ids() or noff != 0:
                        return bad("not-reset", "after set_mathml the position is %s[+%d], not the whole expression" % (mml.local(sh.ids[nid].tag), noff))
                    if any(p[0] not in sh.root_ids() for p in ps):
                        return bad("not-reset", "after set_mathml the position stack is not empty: %d entries" % len(ps))
                    sh.last_move, sh.hist = None, []
                    if st and any(m[0] != "!not set" for m in snap["place_markers"]):
                        st.count("info_hook_shows_markers_kept_over_set_mathml")
                else:
                    # the old expression stays; the position may have been reset or kept
                    if before is not None and now != before and (nid not in sh.root_ids() or noff != 0):
                        return bad("failed-set-moved", "a failing set_mathml moved the position to %s" % mml.local(sh.ids[nid].tag))
                    sh.last_move, sh.hist = None, []
                    for m in sh.markers.values():
                        m["certain"] = False
                return None
            if kind == "node":
                if res["r"] == "ok":
                    if now != (meta[0], meta[1]):
                        return bad("set-node-miss", "set_navigation_node(%s) returned Ok but the position is %r" % (self.describe(step, meta), now))
                    sh.last_move, sh.hist = None, []
                    if st:
                        st.count("set_node_ok_" + meta[2])
                else:
                    if changed:
                        sh.last_move, sh.hist = None, []
                        if st:
                            st.count("info_failed_call_changed_position")
                    if st:
                        st.count("set_node_%s_%s" % (res["r"], meta[2]))
                return None
            # commands and key presses.  The statement promises nothing about the result value: a command that reports an error after it
            # moved (speech of the new node failed) is judged by where the position is now, exactly like one that returned Ok.
            ok = res["r"] == "ok"
            if not ok:
                if changed:
                    if st:
                        st.count("info_failed_call_changed_position")
                        st.add("failed_but_moved", "%s: %s" % (label, err_class(res))[:140])
                else:
                    if cls == "setmark":        # the marker may or may not have been stored before the failure
                        sh.markers[digit] = {"pos": before, "epoch": sh.epoch, "certain": False}
                    if cls == "undo":
                        sh.last_move = None
                    return None
            if cls == "readonly":
                if changed:
                    return bad("readonly-moved", "%s moved the position from %s to %s" % (label, self.where(sh, before), self.where(sh, now)))
                if st:
                    st.count("judged_readonly")
            elif cls == "setmark":
                sh.markers[digit] = {"pos": before, "epoch": sh.epoch, "certain": ok and not changed}
                if changed and st:
                    st.count("info_setplacemarker_moved")
                if st:
                    st.count("markers_set")
            elif cls == "moveto":
                status = sh.marker_status(digit)
                if status == "fresh":
                    facts["marker_moves"] += 1
                    if now[0] != sh.markers[digit]["pos"][0]:
                        return bad("marker-miss", "MoveTo%s ended on %s, the marker was set on %s" % (digit, self.where(sh, now), self.where(sh, sh.markers[digit]["pos"])))
                elif status == "stale":
                    if changed:
                        return bad("stale-marker-moved", "MoveTo%s used a marker set on an earlier expression and moved to %s" % (digit, self.where(sh, now)))
                elif status == "unset" and changed and st:
                    st.count("info_moveto_unset_moved")
                self.moved(sh, before, now, node_changed or changed, facts, st)
            elif cls == "undo":
                if sh.last_move is not None:
                    facts["undos"] += 1
                    if st:
                        st.count("judged_undo")
                    if now[0] != sh.last_move[0]:
                        return bad("undo-miss", "MoveLastLocation after a move from %s ended on %s" % (self.where(sh, sh.last_move), self.where(sh, now)))
                    sh.hist.pop()
                elif sh.hist:
                    want = sh.hist.pop()
                    if st:
                        st.count("info_deep_undo_" + ("same" if want[0] == now[0] else "other"))
                sh.last_move = None
            elif cls == "move":
                self.moved(sh, before, now, changed, facts, st)
            else:       # toggle, exit, unbound: nothing is promised beyond the universal observations
                if changed:
                    sh.last_move = None
                    if st:
                        st.count("info_%s_moved" % cls)
            return None
        finally:
            sh.pos, sh.snap = now, snap

    @staticmethod
    def moved(sh, before, now, changed, facts, st):
        if changed:
            sh.last_move = before
            sh.hist.append(before)
            facts["moves"] += 1
            if st:
                st.count("position_changes")

    @staticmethod
    def where(sh, pos):
        if pos is None:
            return "?"
        e = sh.ids.get(pos[0])
        return "%s#%d%s" % (mml.local(e.tag) if e is not None else "?", sh.id_list.index(pos[0]) if pos[0] in sh.ids else -1, "[+%d]" % pos[1] if pos[1] else "")

    @staticmethod
    def describe(step, meta):
        if step[0] == "cmd":
            return step[1]
        if step[0] == "key":
            return "key 0x%02X%s%s%s%s (%s)" % (step[1], " shift" if step[2] else "", " ctrl" if step[3] else "", " alt" if step[4] else "", " meta" if step[5] else "",
                                                key_command(*step[1:6]))
        if step[0] == "node":
            return "set_navigation_node(%r,%d)[%s]" % (meta[0] if not re.match(r"M[0-9a-z]{7}-\d+$", meta[0]) else "<generated id>", meta[1], meta[2])
        return "set_mathml"

    def braille_failure(self, d, walk, sh, pos, rbr):
        """get_navigation_braille failed although the position is a node of the expression.  It is this property's business when the
        position (node + offset) is the cause; when the same sub-tree cannot be brailled in a fresh session either it is braille's own."""
        e = sh.ids[pos[0]]
        text = e.text or ""
        if pos[1]:
            sub = "<%s>%s</%s>" % (mml.local(e.tag), mml.esc(text[pos[1]]), mml.local(e.tag))
        else:
            sub = mml.strip_ids(ET.tostring(e, encoding="unicode"))
        if mml.local(e.tag) != "math" or pos[1]:
            sub = "<math>" + sub + "</math>"
        ref = d.fresh(core.init_ops(self.prefs(walk["cfg"])) + [("set_mathml", sub), ("get_braille", "")])
        if ref[-1]["r"] != "ok" or ref[-2]["r"] != "ok":
            return None
        return ("nav-braille-error[%s]" % err_class(rbr)[:110], "get_navigation_braille -> %s (%s) at %s although the same sub-tree brailles in a fresh session"
                % (rbr["r"], (rbr.get("e") or (rbr.get("p") or {}).get("msg", ""))[:200], self.where(sh, pos)))


# ---------------------------------------------------------------------------------------------------------------------
# minimisation and signatures
# ---------------------------------------------------------------------------------------------------------------------
def first_violation(walker, walk):
    r = walker.run(walk)
    return r["violation"]


def same_cause(v, kind, cls):
    return v is not None and v["kind"] == kind and v["cls"] == cls


def minimise(walker, walk, v0):
    kind, cls = v0["kind"], v0["cls"]
    steps = walk["steps"][:v0["index"] + 1]
    cfg = dict(walk["cfg"])

    def test_steps(cand):
        return same_cause(first_violation(walker, {"cfg": cfg, "steps": cand}), kind, cls)

    steps = shrink.shrink_list(steps, test_steps, budget=120)
    # the expressions
    for i, stp in enumerate(steps):
        if stp[0] != "set":
            continue
        try:
            tree = gen.from_xml(stp[1])
        except ET.ParseError:
            continue

        def test_tree(t, i=i):
            trial = list(steps)
            trial[i] = ["set", t.xml()]
            return same_cause(first_violation(walker, {"cfg": cfg, "steps": trial}), kind, cls)

        small = shrink.shrink_tree(tree, test_tree, budget=60)
        steps[i] = ["set", small.xml()]
    # a key press becomes the command it stands for; marker numbers become 0 where the number does not matter
    for i in range(len(steps)):
        stp = steps[i]
        if stp[0] == "key" and key_command(*stp[1:6]):
            t2 = list(steps)
            t2[i] = ["cmd", key_command(*stp[1:6])]
            if test_steps(t2):
                steps = t2
    marker_cmd = re.compile(r"(MoveTo|Read|Describe|SetPlacemarker)([1-9])$")
    for digit in sorted(set(m.group(2) for stp in steps if stp[0] == "cmd" for m in [marker_cmd.match(stp[1])] if m)):
        t2 = [["cmd", stp[1][:-1] + "0"] if stp[0] == "cmd" and marker_cmd.match(stp[1]) and stp[1].endswith(digit) else stp for stp in steps]
        if test_steps(t2):
            steps = t2
    # the configuration
    for k in sorted(cfg):
        if cfg[k] != DEFAULT_CFG[k]:
            trial = dict(cfg)
            trial[k] = DEFAULT_CFG[k]
            if same_cause(first_violation(walker, {"cfg": trial, "steps": steps}), kind, cls):
                cfg = trial
    # once more over the steps with the small expressions
    steps = shrink.shrink_list(steps, test_steps, budget=40)
    return {"cfg": cfg, "steps": steps}


def cfg_sig(cfg):
    return ",".join("%s=%s" % (k, cfg[k]) for k in sorted(cfg) if cfg[k] != DEFAULT_CFG.get(k)) or "default"


def step_sig(stp):
    if stp[0] == "set":
        try:
            return "set(" + shrink.abstract_shape(gen.from_xml(stp[1])) + ")"
        except ET.ParseError:
            return "set(BROKEN)"
    if stp[0] in ("cmd", "key"):
        # the class of the command: which of many equivalent commands survived shrinking is chance.  ToggleSpeakMode is the one
        # command that changes what the library does when it tries a command again, so it keeps its name.
        name = key_command(*stp[1:6]) if stp[0] == "key" else (stp[1] if stp[1] in nav_commands() else None)
        return name if name == "ToggleSpeakMode" else cmd_class(name)
    sel = "id" if not isinstance(stp[1], list) else stp[1][0]
    off = "0" if not isinstance(stp[2], list) else stp[2][0]
    return "node(%s,%s)" % (sel, off)


def make_sig(v, walk):
    """kind | failing step (with what the shadow model knows about it) | configuration that matters | history of the minimal witness"""
    hist = [step_sig(s) for s in walk["steps"]]
    if len(hist) > 8:
        hist = hist[:3] + ["…"] + hist[-4:]
    return "%s | %s | %s | %s" % (v["kind"], v["cls"], cfg_sig(walk["cfg"]), " ; ".join(hist))


def to_violation(v, walk):
    return core.violation(v["kind"], make_sig(v, walk), walk, "step %d: %s" % (v["index"], v["detail"]))


# ---------------------------------------------------------------------------------------------------------------------
# shards, replay, run
# ---------------------------------------------------------------------------------------------------------------------
def shard(spec):
    st = core.Stats()
    rng = random.Random(spec["seed"])
    deadline = time.time() + spec["time_budget"]
    walker = Walker()
    seen_pre = set()
    opened, _fixed = core.load_findings(PROP)
    try:
        for w in range(spec["walks"]):
            if time.time() > deadline:
                st.count("stopped_by_time_budget")
                break
            walk = gen_walk(rng)
            r = walker.run(walk, st)
            st.count("walks")
            if r["inconclusive"]:
                st.inconclusive += 1
                st.notes.append("walk abandoned: " + r.get("why", "")[:200])
                continue
            f = r["facts"]
            st.evaluations += f.get("steps", 0)
            st.add("configs", "%s/ov=%s/az=%s/%s" % (walk["cfg"]["NavMode"], walk["cfg"]["Overview"], walk["cfg"]["AutoZoomOut"], walk["cfg"]["NavVerbosity"]))
            st.add("languages", walk["cfg"]["Language"])
            if f.get("moves") and (f.get("marker_moves") or f.get("undos") or f.get("exprs", 0) > 1):
                st.nontrivial.add(core.h16(repr(walk)))
                if f.get("marker_moves") and f.get("undos") and f.get("exprs", 0) > 1:
                    st.sample({"config": cfg_sig(walk["cfg"]), "steps": len(walk["steps"]), "expressions": f["exprs"], "position_changes": f["moves"],
                               "marker_moves_judged": f["marker_moves"], "undos_judged": f["undos"],
                               "first_steps": [s if s[0] != "set" else ["set", s[1][:160]] for s in walk["steps"][:6]]}, limit=2)
            v = r["violation"]
            if v is None:
                continue
            st.count("walks_cut_short_by_violation")
            st.count("raw_violations_" + v["kind"])
            pre = (v["kind"], re.sub(r"^(Move(?!To|Last)|Zoom)\w+", "Move*", v["cls"]))
            if pre in seen_pre:
                continue
            seen_pre.add(pre)
            raw = {"cfg": walk["cfg"], "steps": walk["steps"][:v["index"] + 1]}
            if core.match_finding(to_violation(v, raw), opened) is not None:
                # an open finding is recognised by oracle sub-check + class of the failing step, which shrinking does not change:
                # keep the time for walking instead of minimising the same cause in every shard
                st.violations.append(to_violation(v, raw))
                continue
            small = minimise(walker, walk, v)
            v2 = first_violation(walker, small)
            if not same_cause(v2, v["kind"], v["cls"]):
                small, v2 = {"cfg": walk["cfg"], "steps": walk["steps"][:v["index"] + 1]}, v
            st.violations.append(to_violation(v2, small))
    finally:
        walker.close()
    return st.to_dict()


def replay(witness):
    walker = Walker()
    try:
        r = walker.run(witness)
        if r["inconclusive"] or r["violation"] is None:
            return []
        return [to_violation(r["violation"], witness)]
    finally:
        walker.close()


MECHANISMS = ["position_changes", "judged_readonly", "judged_undo", "moveto_fresh", "moveto_stale", "markers_set", "set_node_ok_valid", "keypresses"]


def run(tier, seed):
    t0 = time.time()
    core.build_driver("native")
    nav_commands()
    nsh = core.NPROC
    total = int(os.environ.get("C11_WALKS", "0")) or (3000 if tier == "quick" else 200000)
    budget = 60 if tier == "quick" else 1500
    per = (total + nsh - 1) // nsh
    specs = [{"seed": core.sub_seed(seed, PROP, i), "walks": per, "time_budget": budget} for i in range(nsh)]
    results = core.run_shards(shard, specs)
    stats, errors = core.Stats.merge(results)
    if "max_stack_depth" in stats.counters:         # merged by addition; keep the honest name
        stats.counters["sum_over_shards_of_max_stack_depth"] = stats.counters.pop("max_stack_depth")
    known, fixed_failures, extra_v = core.replay_findings(PROP, replay)
    stats.violations.extend(extra_v)
    missing = [m for m in MECHANISMS if not stats.counters.get(m)]
    if missing and not errors:
        errors = ["mechanisms never reached by the workload: %s" % ", ".join(missing)]
    return core.conclude(
        PROP, tier, seed, "exploration", stats,
        {"mechanisms_required": MECHANISMS, "walks_requested": per * nsh},
        ["the nav_snapshot hook (feature verif-hooks) reports the stacks faithfully",
         "the meaning of a key press is taken from the documented key table (KEYMAP), not from the code",
         "get_navigation_braille failures are attributed to the position only when the same sub-tree brailles in a fresh session"],
        t0,
        rule="random walks (5-200 steps: navigation commands, key presses, set_navigation_node) over 1-4 textbook expressions each, every walk in a fresh "
             "session with random NavMode/Overview/AutoZoomOut/NavVerbosity; after every step the position must be an id of the current expression, "
             "its MathML and braille retrievable, the hook's stacks balanced and free of foreign ids; read-only commands must not move, MoveToN must "
             "reach a marker set on this expression and must not move for one set on an earlier expression, MoveLastLocation must undo the last "
             "position-changing move; non-trivial = the walk changed position at least once and contained a judged marker move, a judged undo or a "
             "change of expression; distinct by (configuration, steps)",
        min_nontrivial=200 if tier == "quick" else 5000, harness_errors=errors, known_replayed=known, fixed_failures=fixed_failures)
