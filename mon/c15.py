"""C15 — every shipped language, style and braille code loads and works.

Exhaustive over the configurations found by listing Rules/Languages/** and Rules/Braille/* (language, region, *_Rules.yaml style, braille code)
x verbosity.  For each configuration: the preferences are accepted, and over a corpus (fixed list with every MathML element kind + the
inputs of the repository's test files + textbook samples steered by the rule_hits hook) every getter returns Ok and something non-empty
where the expression shows something.  The loaded_files hook shows which files were really loaded: they must be the configuration's own
(or the documented fallback), which is computed here from the directory listing alone.  Unknown languages / unshipped regions must behave
exactly like the language they fall back to (metamorphic comparison with a session of that language)."""
import os
import random
import re
import time

from . import c15_corpus as corpus
from . import configs, core, gen, shrink

PROP = "C15"
VERBOSITIES = ["Terse", "Medium", "Verbose"]
NAV = ["ZoomIn", "MoveNext", "ReadCurrent", "DescribeCurrent", "WhereAmI"]
GETTERS = ["speech", "overview", "braille"] + ["nav:" + c for c in NAV]
FALLBACKS = [("xx", "en"), ("en-zz", "en"), ("sv-fi", "sv"), ("zh-cn", "en"), ("zh", "en"), ("fi-se", "fi"), ("qq-rr", "en")]
TEST_LANGUAGES = ("zz",)          # fixture of the repository's own preference tests, not a language for users


# ---------------------------------------------------------------------------------------------------------------------
# configurations, from the directory listing
# ---------------------------------------------------------------------------------------------------------------------
def language_tags(rules=None):
    """every language directory and every region directory below it, whether or not it holds rule files: [(tag, has_own_rule_files)]"""
    rules = rules or core.RULES
    base = os.path.join(rules, "Languages")
    out = []
    for lang in sorted(os.listdir(base)):
        d = os.path.join(base, lang)
        if not os.path.isdir(d):
            continue
        out.append((lang, any(f.endswith(".yaml") for f in os.listdir(d))))
        for region in sorted(os.listdir(d)):
            rd = os.path.join(d, region)
            if os.path.isdir(rd) and region != "SharedRules":
                out.append((lang + "-" + region, any(f.endswith(".yaml") for f in os.listdir(rd))))
    return out


def braille_dirs(rules=None):
    rules = rules or core.RULES
    base = os.path.join(rules, "Braille")
    return [c for c in sorted(os.listdir(base)) if os.path.isdir(os.path.join(base, c))]


def lang_dirs(tag, rules=None):
    """directories that belong to a language tag, most specific first (only those that exist)"""
    rules = rules or core.RULES
    parts = tag.split("-")
    out = []
    if len(parts) > 1:
        out.append(os.path.join(rules, "Languages", parts[0], parts[1]))
    out.append(os.path.join(rules, "Languages", parts[0]))
    return [d for d in out if os.path.isdir(d)]


def expected_file(tag, name, rules=None):
    """where the statement says a language file comes from: the region, else the language, else (documented fallback) English"""
    rules = rules or core.RULES
    for d in lang_dirs(tag, rules):
        p = os.path.join(d, name)
        if os.path.isfile(p):
            return p
    p = os.path.join(rules, "Languages", "en", name)
    return p if os.path.isfile(p) else None


def own_styles(tag, rules=None):
    out = []
    for d in lang_dirs(tag, rules):
        for f in sorted(os.listdir(d)):
            if f.endswith("_Rules.yaml") and f[:-11] not in out:
                out.append(f[:-11])
    return out


def all_configs():
    """speech configurations (language tag x own style x verbosity), each paired with a braille code in rotation"""
    codes = braille_dirs()
    cfgs = []
    i = 0
    for tag, _ in language_tags():
        if tag.split("-")[0] in TEST_LANGUAGES:
            continue
        styles = own_styles(tag)
        if not styles:
            continue          # a directory without rule files of its own (Languages/zh): judged as a fallback case
        for style in styles:
            for verb in VERBOSITIES:
                cfgs.append({"lang": tag, "style": style, "verbosity": verb, "braille": codes[i % len(codes)]})
                i += 1
    return cfgs


def prefs_for(cfg):
    p = {"TTS": "None", "Language": cfg["lang"]}
    if cfg.get("style"):
        p["SpeechStyle"] = cfg["style"]
    p["Verbosity"] = cfg.get("verbosity", "Medium")
    p["BrailleCode"] = cfg.get("braille", "Nemeth")
    p.update(cfg.get("extra", {}))
    return p


def cfg_sig(cfg):
    parts = []
    if cfg["lang"] != "en":
        parts.append("lang=" + cfg["lang"])
    if (cfg.get("style") or "ClearSpeak") != "ClearSpeak":
        parts.append("style=" + cfg["style"])
    if cfg.get("verbosity", "Medium") != "Medium":
        parts.append("verbosity=" + cfg["verbosity"])
    return ",".join(parts) or "default"


# ---------------------------------------------------------------------------------------------------------------------
# running and judging one expression
# ---------------------------------------------------------------------------------------------------------------------
def case_ops(xml):
    return [("set_mathml", xml), ("get_spoken_text",), ("get_overview_text",), ("get_braille", "")] + [("do_navigate_command", c) for c in NAV]


NOPS = 4 + len(NAV)


def error_root(res):
    """stable summary of a failure: innermost rule (name/tag) and the root cause, or the panic function"""
    if res["r"] == "panic":
        p = res.get("p") or {}
        return "panic:" + re.sub(r"\d+", "N", (p.get("fn") or "?").split(" <- ")[0] + ":" + (p.get("msg") or "")[:60])
    detail = res.get("e") or ""
    pats = re.findall(r'attempting replacement pattern: "([^"]*)" for "([^"]*)"', detail)
    causes = [l[len("caused by: "):] for l in detail.splitlines() if l.startswith("caused by: ")]
    root = causes[-1] if causes else detail.splitlines()[0] if detail else ""
    root = re.sub(r"<.*", "", root)
    root = re.sub(r"\bM[0-9a-z]{6,8}-\d+", "ID", root)
    root = re.sub(r"'[^']*'", "'…'", root)
    root = re.sub(r"\d+", "N", root)[:90].strip()
    return "%s|%s" % ("/".join(pats[-1]) if pats else "-", root)


def judge_case(tree, res, braille_code, st=None):
    """res = results of case_ops.  returns [(kind, key, detail)]: kind = speech|overview|braille|nav + '-fails' | '-empty'.
    Only expressions that show something are judged (what happens on an empty or invisible expression is C08's business)."""
    if res[0]["r"] != "ok":
        if st:
            st.count("set_mathml_%s_not_judged" % res[0]["r"])
            for n, _ in tree.walk():
                if n.tag in ("mstack", "mlongdiv", "maction", "mglyph", "malignmark", "maligngroup", "mlabeledtr", "merror"):
                    st.add("set_mathml_rejects_element", n.tag)
        return []
    if not corpus.visible_text(tree):
        if st:
            st.count("expressions_without_visible_content_not_judged")
        return []
    out = []
    seen = set()
    for name, r in zip(GETTERS, res[1:]):
        g = name.split(":")[0]
        if st:
            st.evaluations += 1
            st.count("calls_" + g)
        if r["r"] != "ok":
            key = error_root(r)
            if (g, key) not in seen:
                seen.add((g, key))
                out.append((g + "-fails", key, "%s -> %s" % (name, (r.get("e") or str(r.get("p")))[:700])))
            continue
        if (r["v"] or "").strip() == "":
            if g == "nav":
                if st:
                    st.count("nav_empty_strings")        # a command may have nothing to say about a position
            else:
                out.append((g + "-empty", braille_code if g == "braille" else "", "%s returned the empty string" % name))
    return out


def run_cases(sess, trees, timeout=120):
    """results per tree (list of NOPS results), None for a tree whose batch killed the driver"""
    out = []
    for off in range(0, len(trees), 30):
        chunk = trees[off:off + 30]
        ops = []
        for t in chunk:
            ops += case_ops(t.xml())
        res = sess.batch(ops, timeout=timeout)
        if res is None:
            for t in chunk:
                r = sess.batch(case_ops(t.xml()), timeout=60)
                out.append(r)
            continue
        for i in range(len(chunk)):
            out.append(res[i * NOPS:(i + 1) * NOPS])
    return out


def shape_sig(tree):
    from . import c05
    return c05.shape(tree)


def make_sig(kind, key, tree, cfg):
    who = cfg_sig(cfg)
    if kind.startswith("braille"):
        # braille depends on the code (and, through the decimal mark, on the language), never on style or verbosity
        who = "braille=%s" % cfg.get("braille", "Nemeth") + ("" if cfg["lang"] == "en" else ",lang=" + cfg["lang"])
    if kind.endswith("-fails"):
        return "%s | %s | %s" % (kind, key, who)
    return "%s | %s | %s | %s" % (kind, key, shape_sig(tree), who)


def minimise(cfg, tree, kind, key):
    """smallest expression and most default configuration with the same failure (same getter class, same rule and root cause)"""
    def pred(sess, c):
        def f(t):
            if not corpus.visible_text(t):
                return False
            r = sess.batch(case_ops(t.xml()), timeout=60)
            return r is not None and any(k == kind and kk == key for k, kk, _ in judge_case(t, r, c.get("braille", "Nemeth")))
        return f

    with core.Session(prefs_for(cfg)) as sess:
        small = shrink.shrink_tree(tree, pred(sess, cfg), budget=200 if kind == "nav-fails" else 400, leaf_factory=lambda: [gen.mi("x"), gen.mn("2")])
    for k, default in (("verbosity", "Medium"), ("style", "ClearSpeak"), ("lang", "en")):
        trial = dict(cfg)
        trial[k] = default
        if trial == cfg or trial["style"] not in own_styles(trial["lang"]):
            continue
        if kind.startswith("braille") and k != "lang":
            continue
        with core.Session(prefs_for(trial)) as s2:
            if pred(s2, trial)(small):
                cfg = trial
    return cfg, small


def witness(cfg, tree):
    return {"cfg": cfg, "mathml": tree.xml()}


# ---------------------------------------------------------------------------------------------------------------------
# loaded files
# ---------------------------------------------------------------------------------------------------------------------
def check_loaded(cfg, tables, rules=None):
    """problems [(kind, key, detail)] of the loaded_files snapshot against what the directory listing says the configuration owns"""
    rules = rules or core.RULES
    out = []
    tag = cfg["lang"]
    by = {t["table"]: t for t in tables}
    own = lang_dirs(tag, rules)
    styles = own_styles(tag, rules)
    style = cfg.get("style") or "ClearSpeak"
    if style in styles:
        want_speech = expected_file(tag, style + "_Rules.yaml", rules)
    elif styles:
        want_speech = None          # documented: another style of the same language
    else:
        want_speech = expected_file(tag, style + "_Rules.yaml", rules)
    expect = {"Speech": want_speech, "OverView": expected_file(tag, "overview.yaml", rules), "Navigation": expected_file(tag, "navigate.yaml", rules),
              "Intent": os.path.join(rules, "intent.yaml")}
    code = cfg.get("braille", "Nemeth")
    bdir = os.path.join(rules, "Braille", code)
    if os.path.isdir(bdir):
        rule_files = [f for f in os.listdir(bdir) if f.endswith("_Rules.yaml")]
        expect["Braille"] = os.path.join(bdir, rule_files[0]) if len(rule_files) == 1 else None
    for table, want in expect.items():
        t = by.get(table)
        if t is None:
            out.append(("not-loaded", table, "no entry for table %s in the loaded_files snapshot" % table))
            continue
        if t.get("error"):
            out.append(("load-error", table, t["error"][:400]))
        files = t.get("rule_files") or []
        if not files:
            out.append(("not-loaded", table, "table %s has no rule file after all getters were called" % table))
            continue
        got = os.path.normpath(files[0])
        if want is not None and got != os.path.normpath(want):
            out.append(("wrong-file", "%s:%s" % (table, os.path.basename(os.path.dirname(want)) + "/" + os.path.basename(want)),
                        "table %s was loaded from %s, the configuration's own file is %s" % (table, rel(got), rel(want))))
        elif want is None and table == "Speech" and own and not any(got.startswith(os.path.normpath(d) + os.sep) for d in own):
            out.append(("wrong-file", "Speech:style-fallback", "style file %s is outside the language's directories" % rel(got)))
        if table in ("Speech", "OverView", "Navigation", "Braille"):
            if table == "Braille":
                want_u = os.path.join(bdir, "unicode.yaml") if os.path.isdir(bdir) else None
                want_d = os.path.join(bdir, "definitions.yaml") if os.path.isdir(bdir) else None
            else:
                want_u = expected_file(tag, "unicode.yaml", rules)
                want_d = expected_file(tag, "definitions.yaml", rules)
            us = [os.path.normpath(f) for f in t.get("unicode_short_files") or []]
            if want_u and us and os.path.normpath(want_u) not in us:
                out.append(("wrong-file", "%s:unicode.yaml" % table, "Unicode table of %s was loaded from %s, not from %s" % (table, [rel(u) for u in us[:3]], rel(want_u))))
            if table == "Braille":
                want_f = os.path.join(bdir, "unicode-full.yaml") if os.path.isdir(bdir) else None
            else:
                want_f = expected_file(tag, "unicode-full.yaml", rules)
            fs = [os.path.normpath(f) for f in t.get("unicode_full_files") or []]
            if want_f and fs and os.path.normpath(want_f) not in fs:
                out.append(("wrong-file", "%s:unicode-full.yaml" % table, "full Unicode table of %s was loaded from %s, not from %s" % (table, [rel(u) for u in fs[:3]], rel(want_f))))
            ds = [os.path.normpath(f) for f in t.get("definitions_files") or []]
            if want_d and ds and os.path.normpath(want_d) not in ds:
                out.append(("wrong-file", "%s:definitions.yaml" % table, "definitions of %s were loaded from %s, not from %s" % (table, [rel(u) for u in ds[:3]], rel(want_d))))
    return out


def mml_ids(x):
    from . import mml
    return mml.strip_ids(x) if isinstance(x, str) else x


def rel(p):
    p = os.path.normpath(p)
    r = os.path.normpath(core.RULES)
    return p[len(r) + 1:] if p.startswith(r + os.sep) else p


_TAG_RX = re.compile(r"^\s*-?\s*tag:\s*(.+?)\s*(#.*)?$")


def tags_of_file(path):
    """tags that occur in a rule file (tag: name | tag: [a, b] | tag: "*")"""
    out = set()
    try:
        with open(path, encoding="utf-8") as f:
            for line in f:
                m = _TAG_RX.match(line)
                if not m:
                    continue
                v = m.group(1).strip()
                if v.startswith("["):
                    v = v.strip("[]")
                    names = [x.strip().strip("'\"") for x in v.split(",")]
                else:
                    names = [v.strip("'\"")]
                out.update(n for n in names if n)
    except OSError:
        pass
    return out


# ---------------------------------------------------------------------------------------------------------------------
# shards
# ---------------------------------------------------------------------------------------------------------------------
DEFAULT_CFG = {"lang": "en", "style": "ClearSpeak", "verbosity": "Medium"}


def reproduces(cfg, tree, kind, key):
    with core.Session(prefs_for(cfg)) as s:
        r = s.batch(case_ops(tree.xml()), timeout=60)
    return r is not None and any(k == kind and kk == key for k, kk, _ in judge_case(tree, r, cfg.get("braille", "Nemeth")))


def record(st, cfg, tree, problems, seen_pre, limit=400):
    for kind, key, detail in problems:
        st.count("raw_" + kind)
        top = tree.kids[0].tag if tree.kids else ""
        nums = [n.text or "" for n, _ in tree.walk() if n.kids is None and n.tag == "mn"]
        # how the numbers are written is part of the cheap key: rules that test for a decimal mark fail for one spelling and not the other
        numfmt = ("." if any("." in t for t in nums) else "") + ("," if any("," in t for t in nums) else "")
        pre = (kind, key, cfg["lang"], cfg["style"], numfmt) if kind.endswith("-fails") else (kind, key, cfg["lang"], top)
        if pre in seen_pre:
            continue
        seen_pre.add(pre)
        if cfg["lang"] != "en" and not kind.startswith("braille"):
            # most failures do not depend on the language: when the same expression fails the same way under the default configuration,
            # the cluster is the default configuration's
            dflt = dict(DEFAULT_CFG, braille=cfg["braille"])
            if reproduces(dflt, tree, kind, key):
                pre = (kind, key, "en", "", numfmt) if kind.endswith("-fails") else (kind, key, "en", top)
                if pre in seen_pre:
                    continue
                seen_pre.add(pre)
                cfg = dflt
        if len(seen_pre) > limit:
            st.count("clusters_not_shrunk")
            over = ("overflow", kind)
            if over not in seen_pre:
                seen_pre.add(over)
                st.violations.append(core.violation(kind, "%s | not minimised (more than %d clusters in one shard)" % (kind, limit), witness(cfg, tree),
                                                    "%s | %s | %s" % (cfg_sig(cfg), tree.xml()[:300], detail[:300])))
            continue
        mcfg, small = minimise(cfg, tree, kind, key)
        st.violations.append(core.violation(kind, make_sig(kind, key, small, mcfg), witness(mcfg, small),
                                            "minimal witness %s | %s | %s" % (small.xml(), cfg_sig(mcfg), detail[:500])))


def note_hits(st, hits, cfg):
    new = 0
    for k in hits or {}:
        t = k.split("|")
        if len(t) < 4:
            continue
        item = "%s|%s|%s" % (t[0], rel(t[1]), t[2])
        if item not in st.sets.get("tags_matched", ()):
            new += 1
        st.add("tags_matched", item)
        st.add("rules_matched", "%s|%s|%s|%s" % (t[0], rel(t[1]), t[2], t[3]))
    return new


def shard(spec):
    st = core.Stats()
    deadline = time.time() + spec["time_budget"]
    seen_pre = set()
    fixed = corpus.fixed_trees()
    harvested = corpus.harvest()
    for unit in spec["units"]:
        if time.time() > deadline:
            st.count("units_skipped_by_time_budget")
            st.notes.append("configuration not run (time budget): %s" % unit.get("cfg", unit))
            continue
        if unit["kind"] == "config":
            run_config(st, unit, fixed, harvested, seen_pre, deadline)
        elif unit["kind"] == "fallback":
            run_fallback(st, unit, fixed, seen_pre)
        elif unit["kind"] == "braille":
            run_braille(st, unit, fixed, harvested, seen_pre, deadline)
        elif unit["kind"] == "switch":
            run_switch(st, unit, seen_pre)
        elif unit["kind"] == "styles":
            run_styles(st, unit, fixed, seen_pre)
    return st.to_dict()


def open_session(st, cfg, seen_pre):
    """a driver with the configuration set preference by preference; every rejected preference is a violation"""
    d = core.Driver("native")
    ok = True
    try:
        res = d.batch(core.init_ops(prefs_for(cfg)))
    except (core.DriverDied, core.DriverTimeout) as e:
        d.close()
        st.inconclusive += 1
        st.count("driver_died_during_configuration")
        return None
    for op, r in zip(core.init_ops(prefs_for(cfg)), res):
        st.evaluations += 1
        st.count("calls_set_preference")
        if r["r"] != "ok":
            ok = False
            name = op[1] if op[0] == "set_preference" else op[0]
            key = "%s|%s" % (name, re.sub(r"(/[^ :]*)+/", "…/", error_root(r)))
            pre = ("set-preference-fails", key, cfg["lang"])
            if pre not in seen_pre:
                seen_pre.add(pre)
                st.violations.append(core.violation("set-preference-fails", "set-preference-fails | %s | %s" % (key, cfg_sig(cfg)), {"cfg": cfg, "mathml": corpus.FIXED[0]},
                                                    "%s -> %s" % (op, (r.get("e") or str(r.get("p")))[:400])))
    if not ok:
        d.close()
        return None
    return d


class _S:
    """core.Session look-alike around an already configured driver (so that a died driver is restarted with the same preferences)"""

    def __init__(self, cfg, d):
        self.s = core.Session(prefs_for(cfg))
        self.s.d = d

    def batch(self, ops, timeout=None):
        return self.s.batch(ops, timeout=timeout)

    def call(self, op, *a):
        return self.s.call(op, *a)

    def close(self):
        self.s.close()


def run_config(st, unit, fixed, harvested, seen_pre, deadline):
    cfg = unit["cfg"]
    rng = random.Random(unit["seed"])
    d = open_session(st, cfg, seen_pre)
    name = "%s/%s/%s" % (cfg["lang"], cfg["style"], cfg["verbosity"])
    if d is None:
        st.add("configurations_not_selectable", name)
        return
    sess = _S(cfg, d)
    try:
        r = sess.call("get_preference", "DecimalSeparators")
        decimal = (r.get("v") or ".")[0] if r and r["r"] == "ok" else "."
        sample = list(harvested)
        if unit["n_harvested"] is not None and len(sample) > unit["n_harvested"]:
            sample = rng.sample(sample, unit["n_harvested"])
        trees = fixed + sample
        sess.call("rule_hits")
        n_fail = 0
        results = run_cases(sess, trees)
        for t, res in zip(trees, results):
            if res is None:
                st.inconclusive += 1
                st.count("driver_died_or_hung")
                continue
            problems = judge_case(t, res, cfg["braille"], st)
            if res[0]["r"] == "ok":
                st.nontrivial.add(core.h16(name + "|" + cfg["braille"] + "|" + t.xml()))
                for n, _ in t.walk():
                    st.add("element_kinds_judged", n.tag)
            if problems:
                n_fail += 1
                record(st, cfg, t, problems, seen_pre)
        r = sess.call("rule_hits")
        note_hits(st, r.get("v") if r else None, cfg)
        # files that were really loaded (after every getter has run)
        lf = sess.call("loaded_files")
        if lf and lf["r"] == "ok":
            for t in lf["v"]:
                for f in t.get("rule_files") or []:
                    st.add("rule_files_loaded", "%s|%s" % (t["table"], rel(f)))
            for kind, key, detail in check_loaded(cfg, lf["v"]):
                st.evaluations += 1
                pre = (kind, key, cfg["lang"], cfg["braille"] if key.startswith("Braille") else "")
                if pre not in seen_pre:
                    seen_pre.add(pre)
                    who = "braille=" + cfg["braille"] if key.startswith("Braille") else cfg_sig({"lang": cfg["lang"], "style": cfg["style"]})
                    st.violations.append(core.violation(kind, "%s | %s | %s" % (kind, key, who), witness(cfg, fixed[7]), detail))
            st.count("loaded_files_checks")
        # textbook samples, steered by the rule-hit hook: constructs that reached new tags are drawn more often;
        # stops when two rounds in a row reach no new tag of the configuration's files, or when the budget ends
        weights = {c: 1.0 for c in gen.Textbook.CONSTRUCTS}
        dry = 0
        done = 0
        while done < unit["n_textbook"] and dry < unit["dry_rounds"] and time.time() < deadline:
            batch = []
            for _ in range(40):
                feats = rng.choices(list(weights), weights=list(weights.values()), k=3)
                # mostly the session's own decimal mark, sometimes the other one (a document need not follow the listener's locale)
                mark = decimal if rng.random() < 0.7 else ("," if decimal == "." else ".")
                tb = gen.Textbook(rng, decimal=mark, max_depth=rng.choice([2, 3, 4]), p_ident=0.5, features=feats)
                if mark != decimal:
                    st.count("textbook_samples_with_the_other_decimal_mark")
                batch.append((tb.expression()[0], feats))
            done += len(batch)
            new_total = 0
            for (t, feats), res in zip(batch, run_cases(sess, [b[0] for b in batch])):
                if res is None:
                    st.inconclusive += 1
                    st.count("driver_died_or_hung")
                    continue
                problems = judge_case(t, res, cfg["braille"], st)
                if res[0]["r"] == "ok":
                    st.nontrivial.add(core.h16(name + "|" + cfg["braille"] + "|" + t.shape()))
                if problems:
                    n_fail += 1
                    record(st, cfg, t, problems, seen_pre)
            r = sess.call("rule_hits")
            new_total = note_hits(st, r.get("v") if r else None, cfg)
            if new_total:
                dry = 0
                for (t, feats) in batch:
                    for f in feats:
                        weights[f] = min(8.0, weights[f] + 0.05 * new_total)
            else:
                dry += 1
            st.count("textbook_rounds")
        st.count("textbook_samples", done)
        st.add("configurations", "%s+%s" % (name, cfg["braille"]))
        st.add("languages", cfg["lang"])
        st.add("braille_codes", cfg["braille"])
        if n_fail == 0:
            st.add("configurations_clean", name)
        if len(st.samples) < 2 and results and results[9] is not None:
            st.sample({"config": name + "+" + cfg["braille"], "mathml": trees[9].xml()[:300],
                       "results": {g: (r.get("v") if r["r"] == "ok" else r["r"]) for g, r in zip(GETTERS, results[9][1:])}})
    finally:
        sess.close()


def run_braille(st, unit, fixed, harvested, seen_pre, deadline):
    """one braille code directory on the whole harvested corpus (Language=en): the braille part of the configuration space"""
    cfg = {"lang": "en", "style": "ClearSpeak", "verbosity": "Medium", "braille": unit["code"]}
    rng = random.Random(unit["seed"])
    d = open_session(st, cfg, seen_pre)
    if d is None:
        st.add("configurations_not_selectable", "braille:" + unit["code"])
        return
    sess = _S(cfg, d)
    try:
        sample = list(harvested)
        if unit["n_harvested"] is not None and len(sample) > unit["n_harvested"]:
            sample = rng.sample(sample, unit["n_harvested"])
        trees = fixed + sample
        for _ in range(unit["n_textbook"]):
            trees.append(gen.Textbook(rng, max_depth=rng.choice([2, 3, 4]), p_ident=0.5).expression()[0])
        sess.call("rule_hits")
        for off in range(0, len(trees), 120):
            if time.time() > deadline:
                st.count("braille_chunks_skipped_by_time_budget")
                break
            chunk = trees[off:off + 120]
            ops = []
            for t in chunk:
                ops += [("set_mathml", t.xml()), ("get_braille", "")]
            res = sess.batch(ops, timeout=120)
            if res is None:
                st.inconclusive += 1
                st.count("driver_died_or_hung")
                continue
            for i, t in enumerate(chunk):
                sm, br = res[2 * i], res[2 * i + 1]
                if sm["r"] != "ok":
                    st.count("set_mathml_%s_not_judged" % sm["r"])
                    continue
                st.evaluations += 1
                st.count("calls_braille")
                st.nontrivial.add(core.h16("braille|" + unit["code"] + "|" + t.xml()))
                problems = []
                if br["r"] != "ok":
                    problems.append(("braille-fails", error_root(br), (br.get("e") or str(br.get("p")))[:700]))
                elif corpus.visible_text(t) and (br["v"] or "").strip() == "":
                    problems.append(("braille-empty", unit["code"], "get_braille returned the empty string"))
                if problems:
                    record_braille(st, cfg, t, problems, seen_pre)
        r = sess.call("rule_hits")
        note_hits(st, r.get("v") if r else None, cfg)
        lf = sess.call("loaded_files")
        if lf and lf["r"] == "ok":
            for t in lf["v"]:
                if t["table"] == "Braille":
                    for f in t.get("rule_files") or []:
                        st.add("rule_files_loaded", "%s|%s" % (t["table"], rel(f)))
            for kind, key, detail in check_loaded(cfg, lf["v"]):
                st.evaluations += 1
                if not key.startswith("Braille"):
                    continue
                pre = (kind, key, cfg["lang"], cfg["braille"])
                if pre not in seen_pre:
                    seen_pre.add(pre)
                    st.violations.append(core.violation(kind, "%s | %s | braille=%s" % (kind, key, cfg["braille"]), witness(cfg, fixed[7]), detail))
            st.count("loaded_files_checks")
        st.add("braille_codes_full_corpus", unit["code"])
    finally:
        sess.close()


def record_braille(st, cfg, tree, problems, seen_pre):
    for kind, key, detail in problems:
        st.count("raw_" + kind)
        pre = (kind, key, cfg["braille"])
        if pre in seen_pre:
            continue
        seen_pre.add(pre)

        def fails(t):
            with core.Session(prefs_for(cfg)) as s:
                r = s.batch([("set_mathml", t.xml()), ("get_braille", "")], timeout=60)
            if r is None or r[0]["r"] != "ok":
                return False
            if kind == "braille-fails":
                return r[1]["r"] != "ok" and error_root(r[1]) == key
            return r[1]["r"] == "ok" and bool(corpus.visible_text(t)) and (r[1]["v"] or "").strip() == ""
        small = shrink.shrink_tree(tree, fails, budget=300, leaf_factory=lambda: [gen.mi("x"), gen.mn("2")])
        st.violations.append(core.violation(kind, make_sig(kind, key, small, cfg), witness(cfg, small), "minimal witness %s | braille=%s | %s" % (small.xml(), cfg["braille"], detail[:400])))


def run_fallback(st, unit, fixed, seen_pre):
    """a language tag that has no files of its own must be accepted and behave exactly like the language it falls back to"""
    tag, base = unit["tag"], unit["base"]
    # the decimal mark is derived from the language TAG (documented: DecimalSeparator=Auto), not from the rule files, so it is pinned in both
    # sessions: what is compared is which rules speak
    cfg = {"lang": tag, "style": None, "verbosity": "Medium", "braille": "Nemeth", "extra": {"DecimalSeparator": "."}}
    ref = {"lang": base, "style": None, "verbosity": "Medium", "braille": "Nemeth", "extra": {"DecimalSeparator": "."}}
    d = open_session(st, cfg, seen_pre)
    st.add("fallback_tags", "%s->%s" % (tag, base))
    if d is None:
        return
    s1 = _S(cfg, d)
    s2 = core.Session(prefs_for(ref))
    try:
        r1 = run_cases(s1, fixed)
        r2 = run_cases(s2, fixed)
        for t, a, b in zip(fixed, r1, r2):
            if a is None or b is None:
                st.inconclusive += 1
                continue
            if a[0]["r"] == "ok":
                st.nontrivial.add(core.h16("fallback|%s|%s" % (tag, t.xml())))
            problems = []
            for g, x, y in zip(["set_mathml"] + GETTERS, a, b):
                st.evaluations += 1
                st.count("calls_fallback_compared")
                vx = mml_ids(x.get("v")) if g == "set_mathml" else x.get("v")
                vy = mml_ids(y.get("v")) if g == "set_mathml" else y.get("v")
                if x["r"] != y["r"] or (x["r"] == "ok" and vx != vy):
                    problems.append(("fallback-differs", "%s|%s->%s" % (g.split(":")[0], tag, base), "%s gives %s %r under Language=%s but %s %r under Language=%s" % (
                        g, x["r"], (x.get("v") or x.get("e") or "")[:150], tag, y["r"], (y.get("v") or y.get("e") or "")[:150], base)))
                    break
            for kind, key, detail in problems:
                st.count("raw_" + kind)
                pre = (kind, key, tag)
                if pre in seen_pre:
                    continue
                seen_pre.add(pre)
                st.violations.append(core.violation(kind, "%s | %s | lang=%s" % (kind, key, tag), {"cfg": cfg, "mathml": t.xml(), "fallback_of": base}, "%s | %s" % (t.xml()[:300], detail[:400])))
        lf = s1.call("loaded_files")
        lf2 = s2.call("loaded_files")
        if lf and lf2 and lf["r"] == "ok" and lf2["r"] == "ok":
            st.count("loaded_files_checks")
            st.evaluations += 1
            f1 = {t["table"]: (t.get("rule_files") or [None])[0] for t in lf["v"]}
            f2 = {t["table"]: (t.get("rule_files") or [None])[0] for t in lf2["v"]}
            if f1 != f2:
                st.violations.append(core.violation("fallback-files-differ", "fallback-files-differ | %s->%s" % (tag, base), {"cfg": cfg, "mathml": fixed[0].xml(), "fallback_of": base},
                                                    "Language=%s loaded %s, Language=%s loaded %s" % (tag, f1, base, f2)))
    finally:
        s1.close()
        s2.close()


# ---------------------------------------------------------------------------------------------------------------------
# style resolution: every (language or region) x (every style name, the default, a style nobody ships)
# ---------------------------------------------------------------------------------------------------------------------
UNSHIPPED_STYLE = "NoSuchSpeak"
STYLE_PROBES = [1, 8, 9, 13, 15, 33, 36, 42, 48, 66]        # indexes into the fixed list: number, row, fractions, roots, scripts, big operator, matrix, |x|


def style_names():
    """every style name some language ships, the default (None = SpeechStyle never set) and a name nobody ships"""
    names = []
    for tag, _ in language_tags():
        for sname in own_styles(tag):
            if sname not in names:
                names.append(sname)
    return sorted(names) + [None, UNSHIPPED_STYLE]


def default_style():
    return configs.prefs_yaml().get("SpeechStyle", ("ClearSpeak", []))[0] or "ClearSpeak"


def resolve_style(tag, style, rules=None):
    """Independent re-implementation of the documented fallback for the speech style file of a language tag:
    the requested style in the region, else in the language; else another style of the region, else another style of the language;
    else English (requested style, else any).  Returns (set of acceptable files, tree) where tree = the tag's own directories."""
    rules = rules or core.RULES
    style = style or default_style()
    tree = lang_dirs(tag, rules)
    for d in tree:
        p = os.path.join(d, style + "_Rules.yaml")
        if os.path.isfile(p):
            return {os.path.normpath(p)}, tree
    for d in tree:
        alts = [os.path.join(d, f) for f in sorted(os.listdir(d)) if f.endswith("_Rules.yaml")]
        if alts:
            return set(os.path.normpath(a) for a in alts), tree
    en = os.path.join(rules, "Languages", "en")
    p = os.path.join(en, style + "_Rules.yaml")
    if os.path.isfile(p):
        return {os.path.normpath(p)}, tree
    return set(os.path.normpath(os.path.join(en, f)) for f in os.listdir(en) if f.endswith("_Rules.yaml")), tree


def run_styles(st, unit, fixed, seen_pre):
    """one language tag under every style name, set before and after the language: the style file that is loaded must be the one the documented
    fallback names, every Speech rule that fires must come from the same directory tree as that file, and the getters must work"""
    tag = unit["tag"]
    probes = [fixed[i] for i in STYLE_PROBES if i < len(fixed)]
    for style in style_names():
        for order in ("language-first", "style-first"):
            if style is None and order == "style-first":
                continue
            want, tree = resolve_style(tag, style)
            sel = [("set_preference", "Language", tag)] + ([("set_preference", "SpeechStyle", style)] if style else [])
            if order == "style-first":
                sel.reverse()
            ops = [("set_rules_dir", core.RULES), ("set_preference", "TTS", "None")] + sel + [("rule_hits",)]
            n0 = len(ops)
            for t in probes:
                ops += case_ops(t.xml())
            ops += [("loaded_files",), ("rule_hits",)]
            cfg = {"lang": tag, "style": style, "verbosity": "Medium", "braille": "Nemeth", "order": order}
            who = "lang=%s,style=%s%s" % (tag, style or "(default)", ",style set first" if order == "style-first" else "")
            try:
                with core.Driver("native") as d:
                    res = d.batch(ops, timeout=120)
            except (core.DriverDied, core.DriverTimeout):
                st.inconclusive += 1
                st.count("driver_died_in_style_phase")
                continue
            problems = []
            for op, r in zip(ops[2:n0 - 1], res[2:n0 - 1]):
                st.evaluations += 1
                if r["r"] != "ok":
                    problems.append(("set-preference-fails", "%s|%s" % (op[1], re.sub(r"(/[^ :]*)+/", "…/", error_root(r))), "%s -> %s" % (op, (r.get("e") or str(r.get("p")))[:300])))
            st.count("style_resolutions")
            st.add("style_resolutions", "%s x %s" % (tag, style or "(default)"))
            if not problems:
                for i, t in enumerate(probes):
                    r = res[n0 + i * NOPS:n0 + (i + 1) * NOPS]
                    for kind, key, detail in judge_case(t, r, "Nemeth", st):
                        if kind.startswith(("speech", "overview")):
                            problems.append((kind, key, "%s | %s" % (t.xml()[:200], detail)))
                    if r[0]["r"] == "ok":
                        st.nontrivial.add(core.h16("styles|%s|%s|%s|%d" % (tag, style, order, i)))
                lf, hits = res[-2], res[-1]
                if lf["r"] == "ok":
                    st.count("loaded_files_checks")
                    st.evaluations += 1
                    sp = [t for t in lf["v"] if t["table"] == "Speech"]
                    got = os.path.normpath(sp[0]["rule_files"][0]) if sp and sp[0].get("rule_files") else None
                    if got is None:
                        problems.append(("not-loaded", "Speech", "no speech rule file after the getters ran"))
                    elif got not in want:
                        inside = any(got.startswith(os.path.normpath(d) + os.sep) for d in tree)
                        cls = "other-file-of-the-language" if inside else "outside-the-language"
                        problems.append(("style-file", cls, "speech rules were loaded from %s; the documented fallback (region, language, other style of the language, English) names %s" % (
                            rel(got), sorted(rel(w) for w in want))))
                    else:
                        st.add("style_files_resolved", "%s x %s -> %s" % (tag, style or "(default)", rel(got)))
                    # the words: every Speech rule that fired must live in the directory tree of the file the fallback names
                    if hits["r"] == "ok" and want:
                        roots = set(os.path.dirname(w) for w in want)
                        foreign = sorted(set(rel(k.split("|")[1]) for k in hits["v"] if k.startswith("Speech|") and
                                             not any(os.path.normpath(k.split("|")[1]).startswith(r0 + os.sep) for r0 in roots)))
                        st.evaluations += 1
                        if foreign:
                            problems.append(("foreign-speech-rules", "Speech", "speech rules fired from %s although the style file of this configuration lives in %s" % (foreign[:4], sorted(rel(r0) for r0 in roots))))
                    for kind, key, detail in check_loaded({"lang": tag, "style": style or default_style(), "braille": "Nemeth"}, lf["v"]):
                        if key.startswith("Speech:") and ("_Rules.yaml" in key or key.endswith("style-fallback")):
                            continue          # the style file itself is judged above, with the full fallback chain
                        problems.append((kind, key, detail))
            for kind, key, detail in problems:
                st.count("raw_" + kind)
                sig_who = who if kind in ("style-file", "foreign-speech-rules", "set-preference-fails", "not-loaded") else cfg_sig({"lang": tag, "style": style or default_style()})
                if kind in ("style-file", "foreign-speech-rules"):
                    sig_who = "lang=%s,style=%s" % (tag, "own" if (style or default_style()) in own_styles(tag) else "not shipped by the language")
                pre = (kind, key, sig_who)
                if pre in seen_pre:
                    continue
                seen_pre.add(pre)
                st.violations.append(core.violation(kind, "%s | %s | %s" % (kind, key, sig_who), {"styles": {"tag": tag}},
                                                    "%s | %s" % (who, detail[:500])))


# ---------------------------------------------------------------------------------------------------------------------
# selecting a configuration by switching inside a live session
# ---------------------------------------------------------------------------------------------------------------------
SWITCH_GETTERS = ["speech", "overview", "braille", "nav:ZoomIn", "nav:ReadCurrent"]
SWITCH_FIXED = ["<math><mfrac><mrow><mi>x</mi><mo>+</mo><mn>1</mn></mrow><mn>2</mn></mfrac></math>",
                "<math><msqrt><mi>b</mi></msqrt><mo>&#x2264;</mo><msup><mi>A</mi><mn>2</mn></msup></math>",
                "<math><mrow><mo>(</mo><mtable><mtr><mtd><mi>a</mi></mtd><mtd><mn>1</mn></mtd></mtr></mtable><mo>)</mo></mrow></math>",
                "<math><mrow><mi>sin</mi><mo>&#x2061;</mo><mi>&#x3B8;</mi><mo>=</mo><mn>0.5</mn></mrow></math>"]
_FULL_ONLY = {}


def full_only_chars(kind, name):
    """characters that live only in the full Unicode table of a language ('lang', tag) or of a braille code ('braille', code): defined in
    unicode-full.yaml, not in unicode.yaml (read from the tree: workload side)"""
    from . import c05_chars as cc
    key = (kind, name)
    if key not in _FULL_ONLY:
        if kind == "lang":
            tc = cc.table_chars(name)
            short, full = set(tc["short"]), tc["full"]
        else:
            d = os.path.join(core.RULES, "Braille", name)
            short = set(cc.file_chars(os.path.join(d, "unicode.yaml")))
            full = cc.file_chars(os.path.join(d, "unicode-full.yaml"))
        seen, out = set(), []
        for c in full:
            if c not in short and c not in seen and cc.usable(c) and not c.isspace() and c not in "<&" and 0x2000 <= ord(c) < 0x3000:
                seen.add(c)
                out.append(c)
        _FULL_ONLY[key] = out
    return _FULL_ONLY[key]


def switch_probes(cfg, rng):
    """expressions for one step: characters only in the full table of the step's language, characters only in the full table of its braille
    code (alone and between operands), and a few ordinary expressions"""
    out = []
    lang_chars = full_only_chars("lang", cfg["lang"])
    code_chars = full_only_chars("braille", cfg["braille"])
    picks = []
    for pool, n in ((lang_chars, 5), (code_chars, 5)):
        if pool:
            picks += rng.sample(pool, min(n, len(pool)))
    if "\u2259" not in picks:
        picks.append("\u2259")
    for i, c in enumerate(picks):
        out.append("<math><mo>%s</mo></math>" % c if i % 2 else "<math><mrow><mi>a</mi><mo>%s</mo><mi>b</mi></mrow></math>" % c)
    out += SWITCH_FIXED
    return out


def switch_ops(xml):
    return [("set_mathml", xml), ("get_spoken_text",), ("get_overview_text",), ("get_braille", ""), ("do_navigate_command", "ZoomIn"), ("do_navigate_command", "ReadCurrent")]


SWITCH_NOPS = 6


def select_ops(cfg):
    """the preferences that select a configuration, in the order a program sets them"""
    p = prefs_for(cfg)
    p.pop("TTS", None)
    ops = [("set_preference", k, v) for k, v in p.items()]
    if cfg.get("via_auto"):
        # the documented protocol of assistive technology that follows the language of the document: Language=Auto, then LanguageAuto=<tag>
        i = [k for k, (_, n, _) in enumerate(ops) if n == "Language"][0]
        ops[i:i + 1] = [("set_preference", "Language", "Auto"), ("set_preference", "LanguageAuto", cfg["lang"])]
    return ops


def switch_compare(probes, got, ref):
    """[(getter, probe index, detail)] where the switched session and the fresh session disagree"""
    out = []
    for i, xml in enumerate(probes):
        a = got[i * SWITCH_NOPS:(i + 1) * SWITCH_NOPS]
        b = ref[i * SWITCH_NOPS:(i + 1) * SWITCH_NOPS]
        if a[0]["r"] != "ok" and b[0]["r"] != "ok":
            continue
        for g, x, y in zip(SWITCH_GETTERS, a[1:], b[1:]):
            vx = x.get("v") if x["r"] == "ok" else error_root(x)
            vy = y.get("v") if y["r"] == "ok" else error_root(y)
            if x["r"] != y["r"] or vx != vy:
                out.append((g.split(":")[0], i, "%s of %s: after switching %s %r, in a fresh session %s %r" % (g, xml, x["r"], str(vx)[:120], y["r"], str(vy)[:120])))
                break
    return out


def run_chain(d, sname, steps, probe_lists, st=None):
    """run the whole chain in ONE session thread of driver d; returns per step (set_preference results, getter results) or None if the driver died"""
    out = []
    ops0 = [("set_rules_dir", core.RULES), ("set_preference", "TTS", "None")]
    r = d.batch(ops0, s=sname)
    if any(x["r"] != "ok" for x in r):
        raise core.Inconclusive("switch session init failed: %s" % r)
    for cfg, probes in zip(steps, probe_lists):
        sel = select_ops(cfg)
        ops = list(sel)
        for xml in probes:
            ops += switch_ops(xml)
        ops.append(("loaded_files",))
        res = d.batch(ops, s=sname, timeout=120)
        out.append((res[:len(sel)], res[len(sel):-1], res[-1]))
    return out


def fresh_reference(d, cfg, probes):
    ops = core.init_ops(prefs_for(cfg))
    n0 = len(ops)
    for xml in probes:
        ops += switch_ops(xml)
    res = d.fresh(ops, timeout=120)
    return res[:n0], res[n0:]


def probe_class(cfg, xml):
    m = re.search(r"<mo>(.)</mo>", xml)
    if m and xml not in SWITCH_FIXED:
        c = m.group(1)
        if c in full_only_chars("lang", cfg["lang"]) or c in full_only_chars("braille", cfg["braille"]):
            return "full-table-character"
        return "character"
    return "expression"


def run_switch(st, unit, seen_pre):
    rng = random.Random(unit["seed"])
    steps = unit["steps"]
    probe_lists = [switch_probes(c, rng) for c in steps]
    d = core.Driver("native")
    try:
        try:
            chain = run_chain(d, "sw", steps, probe_lists, st)
        except (core.DriverDied, core.DriverTimeout):
            st.inconclusive += 1
            st.count("driver_died_in_switch_chain")
            return
        prev = None
        for i, (cfg, probes, (sel_res, got, lf)) in enumerate(zip(steps, probe_lists, chain)):
            name = "%s/%s+%s" % (cfg["lang"], cfg["style"], cfg["braille"])
            st.add("switch_targets", name)
            if prev is not None:
                st.add("switch_language_pairs", "%s->%s" % (prev["lang"], cfg["lang"]))
                st.add("switch_braille_pairs", "%s->%s" % (prev["braille"], cfg["braille"]))
            problems = []
            for op, r in zip(select_ops(cfg), sel_res):
                st.evaluations += 1
                if r["r"] != "ok":
                    problems.append(("switch-set-preference-fails", "%s|%s" % (op[1], re.sub(r"(/[^ :]*)+/", "…/", error_root(r))), "%s -> %s" % (op, (r.get("e") or str(r.get("p")))[:300])))
            try:
                ref_sel, ref = fresh_reference(d, cfg, probes)
            except (core.DriverDied, core.DriverTimeout):
                st.inconclusive += 1
                st.count("driver_died_in_fresh_reference")
                return
            if any(r["r"] != "ok" for r in ref_sel):
                st.count("switch_reference_not_selectable")       # judged by the configuration phase
                prev = cfg
                continue
            diffs = switch_compare(probes, got, ref)
            st.evaluations += len(probes) * (SWITCH_NOPS - 1)
            st.count("switch_steps")
            st.count("switch_getter_comparisons", len(probes) * (SWITCH_NOPS - 1))
            if i > 0:
                st.nontrivial.add(core.h16("switch|%s|%s|%d" % (prev and prev["lang"] + prev["braille"], name, unit["seed"] % 1000)))
            for g, idx, detail in diffs:
                problems.append(("switch-differs", "%s|%s" % (g, probe_class(cfg, probes[idx])), detail))
            if lf["r"] == "ok":
                st.count("loaded_files_checks")
                for kind, key, detail in check_loaded(cfg, lf["v"]):
                    st.evaluations += 1
                    problems.append(("switch-" + kind, key, detail))
            for kind, key, detail in problems:
                st.count("raw_" + kind)
                if kind == "switch-wrong-file" and key.startswith("Braille") and cfg["braille"] == "ASCIIMath-fi":
                    kind, who = "wrong-file", "braille=ASCIIMath-fi"          # the known dead directory, not an effect of switching
                else:
                    who = "switched"
                pre = (kind, key, who)
                if pre in seen_pre:
                    continue
                seen_pre.add(pre)
                # shortest history: the step before and this one, else the whole chain up to here
                w_steps = steps[:i + 1]
                w_probes = probe_lists[:i + 1]
                if i > 1 and kind != "wrong-file":
                    short = switch_witness_fails(d, [steps[i - 1], cfg], [probe_lists[i - 1], probes], kind, key)
                    if short:
                        w_steps, w_probes = [steps[i - 1], cfg], [probe_lists[i - 1], probes]
                st.violations.append(core.violation(kind, "%s | %s | %s" % (kind, key, who), {"switch": {"steps": w_steps, "probes": w_probes}},
                                                    "history %s | %s" % (" -> ".join("%s/%s+%s" % (c["lang"], c["style"], c["braille"]) for c in w_steps), detail[:500])))
            prev = cfg
    finally:
        d.close()


_SW = [0]


def switch_problems(d, steps, probe_lists):
    """problems of the LAST step of a chain run in a new session thread of d: [(kind, key, detail)]"""
    _SW[0] += 1
    chain = run_chain(d, "swr%d" % _SW[0], steps, probe_lists)
    cfg, probes = steps[-1], probe_lists[-1]
    sel_res, got, lf = chain[-1]
    out = []
    for op, r in zip(select_ops(cfg), sel_res):
        if r["r"] != "ok":
            out.append(("switch-set-preference-fails", "%s|%s" % (op[1], re.sub(r"(/[^ :]*)+/", "…/", error_root(r))), str(r)[:300]))
    ref_sel, ref = fresh_reference(d, cfg, probes)
    if all(r["r"] == "ok" for r in ref_sel):
        for g, idx, detail in switch_compare(probes, got, ref):
            out.append(("switch-differs", "%s|%s" % (g, probe_class(cfg, probes[idx])), detail))
    if lf["r"] == "ok":
        for kind, key, detail in check_loaded(cfg, lf["v"]):
            if key.startswith("Braille") and cfg["braille"] == "ASCIIMath-fi":
                out.append(("wrong-file", key, detail))
            else:
                out.append(("switch-" + kind, key, detail))
    try:
        d.call("end_session", s="swr%d" % _SW[0])
    except Exception:
        pass
    return out


def switch_witness_fails(d, steps, probe_lists, kind, key):
    try:
        return any(k == kind and kk == key for k, kk, _ in switch_problems(d, steps, probe_lists))
    except (core.DriverDied, core.DriverTimeout, core.Inconclusive):
        return False


def switch_chains(seed, n_chains, length):
    """chains of configurations: every (language tag, style) and every braille code is a switch TARGET in every chain block, each time after a
    different predecessor (seeded permutations)"""
    rng = random.Random(core.sub_seed(seed, PROP, "switch"))
    speech = []
    for tag, _ in language_tags():
        if tag.split("-")[0] in TEST_LANGUAGES:
            continue
        for style in own_styles(tag):
            speech.append((tag, style))
    codes = braille_dirs()
    chains = []
    while len(chains) < n_chains:
        sp = list(speech)
        rng.shuffle(sp)
        cd = []
        while len(cd) < len(sp):
            c = list(codes)
            rng.shuffle(c)
            cd += c
        # never the same language / code twice in a row: a step must really switch
        steps = []
        for (tag, style), code in zip(sp, cd):
            if steps and steps[-1]["braille"] == code:
                code = next(c for c in codes if c != code and c != steps[-1]["braille"])
            steps.append({"lang": tag, "style": style, "verbosity": rng.choice(VERBOSITIES), "braille": code})
        for off in range(0, len(steps), length):
            part = steps[off:off + length]
            if len(part) >= 2 and len(chains) < n_chains:
                chains.append(part)
                if len(chains) % 4 == 3 and len(chains) < n_chains and len(part) >= 3:
                    # a chain that comes BACK to a language, selecting it through Language=Auto / LanguageAuto before and after a fixed one
                    x, y, z = [dict(c) for c in part[:3]]
                    back = dict(x, verbosity=rng.choice(VERBOSITIES), braille=z["braille"], via_auto=True)
                    chains.append([dict(x, via_auto=True), y, back, dict(z, via_auto=rng.random() < 0.5), dict(y, braille=x["braille"])][:max(3, length)])
    return chains


def pred_decimal_comma_numbers(v, params):
    """Known finding C15-decimal-comma-common-fraction is about numbers written with the decimal COMMA (the rule files test for '.'):
    the minimal witness has an mn containing ',' and no mn containing '.'"""
    tree = gen.from_xml(v["witness"]["mathml"])
    nums = [n.text or "" for n, _ in tree.walk() if n.kids is None and n.tag == "mn"]
    return any("," in t for t in nums) and not any("." in t for t in nums)


core.PREDICATES["c15_decimal_comma_numbers"] = pred_decimal_comma_numbers


def pred_char_not_in_braille_tables(v, params):
    """Known finding C15-braille-empty-undefined-char: the witness is a single token and none of its characters is defined in the braille
    code's unicode.yaml / unicode-full.yaml (read from the tree; for a code with a '-' also the directory the library really loads)"""
    from . import c05_chars as cc
    w = v["witness"]
    tree = gen.from_xml(w["mathml"])
    if len(tree.kids) != 1 or tree.kids[0].kids is not None:
        return False
    text = (tree.kids[0].text or "").strip()
    code = w["cfg"].get("braille", "Nemeth")
    known = set()
    for d in {code, code.split("-")[0]}:
        for f in ("unicode.yaml", "unicode-full.yaml"):
            known.update(cc.file_chars(os.path.join(core.RULES, "Braille", d, f)))
    return bool(text) and all(c not in known for c in text)


core.PREDICATES["c15_char_not_in_braille_tables"] = pred_char_not_in_braille_tables


# ---------------------------------------------------------------------------------------------------------------------
# replay
# ---------------------------------------------------------------------------------------------------------------------
def replay(w):
    if w.get("styles"):
        st = core.Stats()
        run_styles(st, {"tag": w["styles"]["tag"]}, corpus.fixed_trees(), set())
        return st.violations
    if w.get("switch"):
        out = []
        with core.Driver("native") as d:
            for kind, key, detail in switch_problems(d, w["switch"]["steps"], w["switch"]["probes"]):
                who = "braille=ASCIIMath-fi" if kind == "wrong-file" else "switched"
                out.append(core.violation(kind, "%s | %s | %s" % (kind, key, who), w, detail[:600]))
        return out
    cfg = dict(w["cfg"])
    tree = gen.from_xml(w["mathml"])
    st = core.Stats()
    seen = set()
    if w.get("fallback_of"):
        run_fallback(st, {"tag": cfg["lang"], "base": w["fallback_of"]}, [tree], seen)
        return st.violations
    cfg.setdefault("braille", "Nemeth")
    d = open_session(st, cfg, seen)
    if d is None:
        return st.violations
    sess = _S(cfg, d)
    out = list(st.violations)
    try:
        res = sess.batch(case_ops(tree.xml()), timeout=60)
        if res is not None:
            for kind, key, detail in judge_case(tree, res, cfg["braille"]):
                out.append(core.violation(kind, make_sig(kind, key, tree, cfg), w, detail[:600]))
        lf = sess.call("loaded_files")
        if lf and lf["r"] == "ok":
            for kind, key, detail in check_loaded(cfg, lf["v"]):
                who = "braille=" + cfg["braille"] if key.startswith("Braille") else cfg_sig({"lang": cfg["lang"], "style": cfg.get("style") or "ClearSpeak"})
                out.append(core.violation(kind, "%s | %s | %s" % (kind, key, who), w, detail))
    finally:
        sess.close()
    return out


# ---------------------------------------------------------------------------------------------------------------------
# run
# ---------------------------------------------------------------------------------------------------------------------
def run(tier, seed):
    t0 = time.time()
    core.build_driver("native")
    quick = tier == "quick"
    cfgs = all_configs()
    units = []
    for i, cfg in enumerate(cfgs):
        units.append({"kind": "config", "cfg": cfg, "seed": core.sub_seed(seed, PROP, "cfg", i), "n_harvested": 200 if quick else None,
                      "n_textbook": 240 if quick else 12000, "dry_rounds": 2 if quick else 120})
    for code in braille_dirs():
        units.append({"kind": "braille", "code": code, "seed": core.sub_seed(seed, PROP, "br", code), "n_harvested": None, "n_textbook": 300 if quick else 6000})
    shipped = dict(language_tags())
    fallbacks = [(t, b) for t, b in FALLBACKS]
    # shipped directories that hold no rule file of their own (Languages/zh) must fall back as well
    for tag, has in language_tags():
        if not has and tag.split("-")[0] not in TEST_LANGUAGES and not own_styles(tag) and (tag, "en") not in fallbacks:
            fallbacks.append((tag, "en"))
    for tag, base in fallbacks:
        units.append({"kind": "fallback", "tag": tag, "base": base})
    style_tags = [tag for tag, _ in language_tags() if tag.split("-")[0] not in TEST_LANGUAGES]
    for tag in style_tags:
        units.append({"kind": "styles", "tag": tag})
    chains = switch_chains(seed, 16 if quick else 160, 5)
    for i, steps in enumerate(chains):
        units.append({"kind": "switch", "steps": steps, "seed": core.sub_seed(seed, PROP, "sw", i)})
    rng = random.Random(core.sub_seed(seed, PROP, "order"))
    rng.shuffle(units)
    nsh = core.NPROC
    budget = int(os.environ.get("C15_BUDGET", "0")) or int((80 if quick else 1600) * core.load_factor())
    specs = [{"units": units[i::nsh], "time_budget": budget} for i in range(nsh)]
    results = core.run_shards(shard, specs)
    stats, errors = core.Stats.merge(results)
    known, fixed_failures, extra_v = core.replay_findings(PROP, replay)
    stats.violations.extend(extra_v)

    # coverage of rule-file tags, per file that was really loaded
    matched = {}
    for item in stats.sets.get("tags_matched", ()):
        table, f, tag = item.split("|", 2)
        matched.setdefault(f, set()).add(tag)
    files = sorted(set(x.split("|", 1)[1] for x in stats.sets.get("rule_files_loaded", ())))
    cov = {}
    tot_tags = tot_hit = 0
    for f in files:
        tags = tags_of_file(os.path.join(core.RULES, f))
        if not tags:
            continue
        hit = tags & matched.get(f, set())
        tot_tags += len(tags)
        tot_hit += len(hit)
        cov[f] = {"tags": len(tags), "matched": len(hit), "unreached": sorted(tags - hit)}
    fixed = corpus.fixed_trees()
    extra = {"configurations_total": len(cfgs), "braille_codes_total": len(braille_dirs()), "fallback_cases": ["%s->%s" % fb for fb in fallbacks],
             "switch_chains": len(chains),
             "excluded_configurations": ["Language=%s (fixture of the repository's preference tests)" % t for t, _ in language_tags() if t.split("-")[0] in TEST_LANGUAGES],
             "corpus": {"fixed": len(fixed), "harvested_from_tests": len(corpus.harvest()), "element_kinds_in_fixed_list": len(corpus.element_kinds_in(fixed)),
                        "element_kinds_missing_from_fixed_list": sorted(set(corpus.ELEMENT_KINDS) - corpus.element_kinds_in(fixed))},
             "rule_file_tag_coverage": {"files": len(cov), "tags": tot_tags, "matched": tot_hit, "per_file": cov}}
    missing = []
    want_cfg = set("%s/%s/%s+%s" % (c["lang"], c["style"], c["verbosity"], c["braille"]) for c in cfgs)
    got_cfg = stats.sets.get("configurations", set()) | set()
    unselectable = stats.sets.get("configurations_not_selectable", set())
    not_run = [c for c in sorted(want_cfg - got_cfg) if c.split("+")[0] not in unselectable]
    if not_run:
        missing.append("configurations not run: %s" % not_run[:6])
    if set(braille_dirs()) - stats.sets.get("braille_codes_full_corpus", set()) - set(x[8:] for x in unselectable if x.startswith("braille:")):
        missing.append("braille codes not run: %s" % sorted(set(braille_dirs()) - stats.sets.get("braille_codes_full_corpus", set())))
    if len(stats.sets.get("style_resolutions", ())) < len(style_tags) * len(style_names()):
        missing.append("only %d of %d (language, style name) resolutions judged" % (len(stats.sets.get("style_resolutions", ())), len(style_tags) * len(style_names())))
    if stats.counters.get("switch_steps", 0) < 3 * len(chains):
        missing.append("only %d switch steps judged" % stats.counters.get("switch_steps", 0))
    if stats.counters.get("loaded_files_checks", 0) < len(cfgs) // 2:
        missing.append("loaded_files hook observed only %d times" % stats.counters.get("loaded_files_checks", 0))
    if missing and not errors:
        errors = ["observed too little: " + "; ".join(missing)]
    return core.conclude(
        PROP, tier, seed, "exploration", stats, extra,
        ["configurations are discovered by listing Rules/Languages/** and Rules/Braille/*; which file a configuration owns is derived from that listing alone "
         "(region directory, else language directory, else English)",
         "set_mathml failures are C08's business (counted; the element kinds MathCAT rejects are listed); an empty navigation string is only counted",
         "the inputs of the repository's tests are used as corpus, their expected outputs are never read",
         "Language=zz / zz-aa (fixture of the repository's own tests) is excluded and listed under excluded_configurations"],
        t0,
        rule="every (language or language-region, style, verbosity) that ships rule files, each paired with a braille code in rotation, plus every braille code on the "
             "whole corpus, plus languages/regions that do not ship (fallback, compared getter by getter with the language they fall back to); corpus = fixed list "
             "containing every MathML element kind + inputs of tests/**/*.rs + textbook samples steered by rule_hits; per expression set_mathml, get_spoken_text, "
             "get_overview_text, get_braille and do_navigate_command{ZoomIn,MoveNext,ReadCurrent,DescribeCurrent,WhereAmI} must be Ok and non-empty where something is "
             "visible; loaded_files must name the configuration's own files. Non-trivial = set_mathml Ok and the getters were judged; distinct by (configuration, expression)",
        min_nontrivial=3000 if quick else 100000, harness_errors=errors, known_replayed=known, fixed_failures=fixed_failures)
