"""'hostile' workload for C08: strings passed as MathML that are valid-but-degenerate, schema-invalid, non-MathML XML or not XML at all,
byte-level mutations of valid inputs, very deep / wide / long inputs; random preference name/value pairs; random navigation commands,
key codes, ids, offsets and braille positions.  Everything is a deterministic function of the random.Random passed in."""
import os
import re

from . import configs, core, gen, gen_degen

FIXED_ARITY = ["mfrac", "mroot", "msub", "msup", "msubsup", "munder", "mover", "munderover", "mmultiscripts", "msqrt", "menclose", "mtd", "mtr", "mtable",
               "mlabeledtr", "mstack", "mlongdiv", "msgroup", "msrow", "mscarries", "mscarry", "msline", "semantics", "maction", "mglyph", "mspace", "none", "mprescripts"]
UNKNOWN = ["mfoo", "div", "span", "svg", "apply", "ci", "cn", "math", "mstyle2", "MI", "m:mi", "annotation", "annotation-xml", "mphantom", "merror", "maction", "mlabeledtr", "mtr", "mtd"]
ATTRS = [("intent", ["", "(", "$", "f($x", ":", "a(b(c(d)))", "_", "1.2.3", "$a $b", "x:y:z", "é($中)", "f(" * 50 + ")" * 50, "plus($a,$b)", "$missing"]),
         ("arg", ["a", "", "$", "x y"]), ("mathvariant", ["bold", "", "nonsense", "BOLD"]), ("form", ["prefix", "x", ""]),
         ("width", ["1em", "-1em", "1e400em", "NaN", "", "em"]), ("notation", ["", "longdiv", "box circle", "é"]), ("linethickness", ["0", "-1", "thick", ""]),
         ("display", ["block", "x"]), ("id", ["a", "a", "", "'", "x y", "é", "M0-1", "]]"]), ("data-number", ["", "x"]), ("data-changed", ["added", "empty_content"]),
         ("data-maybe-chemistry", ["0", "x", "-5", "99999999999999999999"]), ("data-chem-element", ["1", "x"]), ("data-id-added", ["true"]), ("xmlns", ["http://www.w3.org/1998/Math/MathML", "urn:x", ""]),
         ("open", ["", "((", "〈"]), ("close", ["", "))"]), ("separators", ["", "  ", ",;,;,;,;"]), ("columnalign", ["left", ""]), ("encoding", ["MathML-Presentation", "x/y+z", ""])]
GARBAGE = ["", " ", "\n", "x", "<", ">", "<>", "</>", "<math", "<math>", "</math>", "<math></math>", "<math/>", "<math><mi>x</mi>", "<math><mi>x</mn></math>", "&", "&amp;", "<math>&nosuch;</math>",
           "<math><mi>&#xFFFFFFFF;</mi></math>", "<math><mi>&#0;</mi></math>", "<math><mi>&#xD800;</mi></math>", "﻿<math><mi>x</mi></math>", "<?xml version='1.0'?><math><mi>x</mi></math>",
           "<!DOCTYPE math><math><mi>x</mi></math>", "<math><![CDATA[<mi>x</mi>]]></math>", "<math><!-- c --><mi>x</mi><?pi?></math>", "<math><mi>x</mi></math><math><mi>y</mi></math>",
           "<mi>x</mi>", "<mrow><mi>x</mi><mo>+</mo></mrow>", "<mn>1</mn><mn>2</mn>", "text only", "{\"json\": 1}", "\\frac{1}{2}", "<html><body><p>x</p></body></html>", "<svg xmlns='http://www.w3.org/2000/svg'/>",
           "<math xmlns='http://www.w3.org/1998/Math/MathML'><mi>x</mi></math>", "<m:math xmlns:m='http://www.w3.org/1998/Math/MathML'><m:mi>x</m:mi></m:math>", "<m:math><m:mi>x</m:mi></m:math>",
           "<math><mi>x</mi>\x00</math>", "<math><mi>\x01\x02</mi></math>", "<math><mi>x</mi></math>\x00", "<math a='1' a='2'><mi>x</mi></math>", "<math a=1><mi>x</mi></math>", "<math><mi x>x</mi></math>",
           "<math><mi class='MJX-TeXAtom-ORD'>x</mi></math>", "<math><mi>x</mi><mo>&InvisibleTimes;</mo><mi>y</mi></math>", "<math>text<mi>x</mi>more</math>", "<math><mrow>a<mi>x</mi></mrow></math>",
           "<math><mi><mi>x</mi></mi></math>", "<math><mn><mrow><mi>x</mi></mrow></mn></math>", "<math><annotation>x</annotation></math>", "<math><semantics/></math>",
           "<math><semantics><annotation-xml encoding='MathML-Presentation'/></semantics></math>", "<math><semantics><annotation-xml encoding='MathML-Presentation'><mi>a</mi><mi>b</mi></annotation-xml></semantics></math>",
           "<math><semantics><annotation>t</annotation><mi>x</mi></semantics></math>", "<math><mtable><mi>x</mi></mtable></math>", "<math><mtr><mtd><mi>x</mi></mtd></mtr></math>", "<math><mtd><mi>x</mi></mtd></math>",
           "<math><mtable><mtr><mi>x</mi></mtr></mtable></math>", "<math><mmultiscripts><mprescripts/></mmultiscripts></math>", "<math><mmultiscripts><mi>x</mi><mprescripts/><mprescripts/></mmultiscripts></math>",
           "<math><none/></math>", "<math><mprescripts/></math>", "<math><mo>|</mo><mo>)</mo></math>", "<math><mo>)</mo><mo>(</mo></math>", "<math><mo>(</mo></math>", "<math><mo>|</mo><mo>|</mo><mo>|</mo></math>",
           "<math><mfenced open='|' close=')'/></math>", "<math><mstack><msrow><mn>1</mn></msrow></mstack></math>", "<math><mlongdiv><mn>1</mn></mlongdiv></math>", "<math><mlongdiv><mn>1</mn><mn>2</mn><mn>3</mn></mlongdiv></math>",
           "<math><mglyph/></math>", "<math><mi><mglyph/></mi></math>", "<math><maction><mi>x</mi><mi>y</mi></maction></math>", "<math><mspace><mi>x</mi></mspace></math>"]
NAV_GARBAGE = ["", " ", "zoomin", "ZoomIn ", "Zoom", "MoveTo", "MoveTo10", "MoveTo-1", "SetPlacemarker", "SetPlacemarker99", "Read", "é", "A" * 1000, "ZoomIn;ZoomOut", "None", "Exit", "ReadStart"]
PREF_VALUES = ["", " ", "true", "false", "True", "FALSE", "0", "1", "-1", "1.5", "1e400", "NaN", "inf", "-0", "abc", "None", "none", "Auto", "auto", "en", "EN", "en-US", "en-us-x", "e", "-", "zz",
               "xx-yy", "sv", "zh", "zh-tw", "é", "中", "A" * 5000, "../..", "/etc/passwd", "Nemeth", "UEB", "ClearSpeak", "SimpleSpeak", "SSML", "SAPI5", "Terse", "Verbose", "Medium",
               "Enhanced", "Simple", "Character", "Off", "All", "EndPoints", "FirstChar", ",", ".", ";", "'", "\"", "<", "&", "\n", "\x00", "0x10", "١٢", "1,5", " 1 ", "Error", "IgnoreIntent", "Prefs"]


def nav_commands():
    """navigation command names as the library lists them (read from the tree so that the workload follows the code base)"""
    src = open(os.path.join(core.REPO, "src", "navigate.rs"), encoding="utf-8").read()
    names = set(re.findall(r'"((?:Zoom|Move|Read|Describe|WhereAmI|Toggle|SetPlacemarker|Exit)[A-Za-z0-9]*)"', src))
    return sorted(names) or ["ZoomIn", "ZoomOut", "MoveNext", "MovePrevious"]


_INTERNAL = {}


def internal_attrs():
    """every data-* attribute name that occurs in the library's source (read from the tree so that the workload follows the code base)"""
    if "attrs" not in _INTERNAL:
        names = set()
        for f in sorted(os.listdir(os.path.join(core.REPO, "src"))):
            if f.endswith(".rs"):
                names |= set(re.findall(r'"(data-[A-Za-z0-9_-]+)"', open(os.path.join(core.REPO, "src", f), encoding="utf-8").read()))
        _INTERNAL["attrs"] = sorted(names) or ["data-changed"]
    return _INTERNAL["attrs"]


def internal_chars():
    """private-use characters that the library's source names in \\u{...} escapes: its internal markers (optional word, concatenation,
    automatic pause, ...) -- as characters of the INPUT"""
    if "chars" not in _INTERNAL:
        cps = set()
        for f in sorted(os.listdir(os.path.join(core.REPO, "src"))):
            if f.endswith(".rs"):
                for h in re.findall(r"\\u\{([0-9A-Fa-f]{4,6})\}", open(os.path.join(core.REPO, "src", f), encoding="utf-8").read()):
                    cp = int(h, 16)
                    if 0xE000 <= cp <= 0xF8FF or cp >= 0xF0000:
                        cps.add(cp)
        _INTERNAL["chars"] = [chr(c) for c in sorted(cps) if c <= 0x10FFFF] or ["\uf8fd", "\uf8fe", "\uf8fa"]
    return _INTERNAL["chars"]


def internal_names():
    """upper-case identifiers the library uses for elements it creates itself (TEMP_NAME, ...) -- as intent names in the input"""
    if "names" not in _INTERNAL:
        names = set()
        for f in ("speech.rs", "infer_intent.rs", "canonicalize.rs"):
            try:
                names |= set(re.findall(r'"([A-Z][A-Z_]{3,})"', open(os.path.join(core.REPO, "src", f), encoding="utf-8").read()))
            except OSError:
                pass
        _INTERNAL["names"] = sorted(names) or ["TEMP_NAME"]
    return _INTERNAL["names"]


def pref_names():
    names = sorted(set(configs.prefs_yaml()) | set(configs.API_DEFAULTS))
    return names + ["", "NoSuchPref", "language", "LANGUAGE", "Speech", "ClearSpeak", "ClearSpeak_", "_", "é", "A" * 300, "Language ", "DecimalSeparators", "BlockSeparators", "LanguageAuto", "MathRate",
                    "PauseFactor", "CapitalLetters_Pitch", "NavMode", "NavVerbosity", "AutoZoomOut", "Overview", "ResetNavMode", "ResetOverview", "BrailleNavHighlight", "UEB_START_MODE", "SubjectArea", "Chemistry"]


class Hostile:
    def __init__(self, rng):
        self.rng = rng
        self.nav = nav_commands()
        self.prefs = pref_names()
        self._enums = None

    # -- strings passed as MathML -------------------------------------------------------------
    def mathml(self):
        """returns (string, class, tree or None)"""
        r = self.rng
        k = r.random()
        if k < 0.30:
            g = gen_degen.Degenerate(r, max_depth=r.choice([2, 3, 4, 5]), id_policy=r.choice(["none", "some", "duplicate"]), p_empty=r.choice([0.05, 0.15, 0.3]), size_cap=r.choice([12, 30, 60]))
            t = g.expression()
            return t.xml(), "degenerate", t
        if k < 0.365:
            t = gen.Textbook(r, max_depth=r.choice([2, 3, 4])).expression()[0]
            return t.xml(), "textbook", t
        if k < 0.40:
            # the library's own marker characters inside the text of an otherwise ordinary expression (alone, leading, trailing, doubled, in the middle)
            t = gen.Textbook(r, max_depth=r.choice([1, 2, 3])).expression()[0]
            leaves = [n for n, _ in t.walk() if n.kids is None and n.tag in ("mi", "mn", "mtext", "mo")]
            for n in r.sample(leaves, min(len(leaves), r.randint(1, 3))):
                c = r.choice(internal_chars())
                base = r.choice([n.text or "", "abcdefgh", "the", ""])
                n.text = r.choice([c, c + base, base + c, base[:1] + c + base[1:], c + base + c, c + c, base + c + c + "x"])
                if r.random() < 0.5:
                    n.tag = r.choice(["mtext", "mi"])
            return t.xml(), "marker-text", t
        if k < 0.52:
            return self.arity(), "arity", None
        if k < 0.60:
            return self.schema_invalid(), "schema-invalid", None
        if k < 0.70:
            return self.attributed(), "attributes", None
        if k < 0.78:
            return r.choice(GARBAGE), "garbage", None
        if k < 0.93:
            return self.mutated(), "mutated", None
        if k < 0.95:
            return self.numeric_extreme(), "numeric-extreme", None
        if k < 0.97:
            return self.big(), "big", None
        return "".join(chr(r.choice([r.randint(0, 0x7f), r.randint(0, 0x7ff), r.randint(0x800, 0xd7ff), r.randint(0x10000, 0x10ffff)])) for _ in range(r.randint(0, 60))), "random-unicode", None

    def numeric_extreme(self):
        """numbers of every length (1..80 digits), with leading zeros, signs, decimals, in the positions that are spoken as words:
        exponent, root index, denominator, subscript, mixed number"""
        r = self.rng
        n = r.randint(1, 80) if r.random() < 0.8 else r.choice([19, 20, 21, 33, 34, 35, 36, 37, 38, 39, 40, 63, 64, 65, 66, 67, 99, 100, 101, 308, 309, 310])
        digits = "".join(r.choice("0123456789") for _ in range(n))
        if r.random() < 0.7:
            digits = r.choice("123456789") + digits[1:]
        k = r.random()
        if k < 0.15:
            digits = digits[:max(1, n // 2)] + r.choice([".", ","]) + digits[max(1, n // 2):]
        elif k < 0.2:
            digits = "-" + digits
        num = "<mn>%s</mn>" % digits
        shape = r.choice(["<msup><mi>x</mi>%s</msup>", "<mroot><mi>x</mi>%s</mroot>", "<mfrac><mn>1</mn>%s</mfrac>", "<mfrac>%s<mn>3</mn></mfrac>", "<msub><mi>x</mi>%s</msub>",
                          "<mrow><mn>2</mn><mfrac><mn>1</mn>%s</mfrac></mrow>", "<msup>%s<mn>2</mn></msup>", "%s", "<msubsup><mi>x</mi>%s<mn>2</mn></msubsup>", "<mrow>%s<mo>!</mo></mrow>"])
        return "<math>" + shape % num + "</math>"

    def leaf(self):
        r = self.rng
        return r.choice(["<mi>x</mi>", "<mn>2</mn>", "<mo>+</mo>", "<mtext>t</mtext>", "<mrow/>", "<mi/>", "<none/>", "<mrow><mi>a</mi><mo>=</mo><mn>1</mn></mrow>", "<mspace width='1em'/>", "<mprescripts/>",
                         "<mi>sin</mi>", "<mo>(</mo>", "<mo>|</mo>", "<mn>1,000</mn>", "<mi>H</mi>", "<mn>-3</mn>", "<mtable/>", "<mfenced/>"])

    def arity(self):
        r = self.rng
        tag = r.choice(FIXED_ARITY)
        n = r.choice([0, 0, 1, 1, 2, 3, 4, 5, 6])
        inner = "<%s>%s</%s>" % (tag, "".join(self.leaf() for _ in range(n)), tag)
        wrap = r.choice(["%s", "<mrow><mi>a</mi><mo>+</mo>%s</mrow>", "<mfrac>%s<mn>2</mn></mfrac>", "<msup><mi>x</mi>%s</msup>", "<mtable><mtr><mtd>%s</mtd></mtr></mtable>", "<msqrt>%s</msqrt>", "%s<mi>z</mi>"])
        return "<math>" + wrap % inner + "</math>"

    def schema_invalid(self):
        r = self.rng
        tag = r.choice(UNKNOWN)
        body = r.choice(["<%s>%s</%s>" % (tag, self.leaf(), tag), "<%s/>" % tag, "<mrow>text%s</mrow>" % self.leaf(), "<mi>%s</mi>" % self.leaf(), "<mn>1<mi>x</mi>2</mn>",
                         "<mrow><%s><%s>%s</%s></%s></mrow>" % (tag, tag, self.leaf(), tag, tag), "<semantics><%s/>%s</semantics>" % (tag, self.leaf()),
                         "<semantics>%s<annotation-xml encoding='MathML-Presentation'><%s/></annotation-xml></semantics>" % (self.leaf(), tag)])
        return "<math>" + body + "</math>"

    def attributed(self):
        r = self.rng
        t = gen.Textbook(r, max_depth=r.choice([1, 2, 3])).expression()[0] if r.random() < 0.6 else gen_degen.Degenerate(r, max_depth=3, size_cap=15).expression()
        nodes = [n for n, _ in t.walk()]
        for n in r.sample(nodes, min(len(nodes), r.randint(1, 4))):
            if r.random() < 0.35:
                # MathCAT's own bookkeeping attributes (every data-* name that occurs in the library's source) with values it would never store:
                # returned MathML that was edited and sent back
                n.attrs[r.choice(internal_attrs())] = r.choice(["", "x", "true", "0", "-1", "3", "99999999999999999999", "added", "⠹⠹", "1.5", "a b"])
                continue
            name, values = r.choice(ATTRS)
            n.attrs[name] = r.choice(values)
            if name == "intent" and r.random() < 0.3:
                n.attrs[name] = r.choice(internal_names()) + r.choice(["", "($a)", "($a,$b)", "(x)(y)"])
        return t.xml()

    def mutated(self):
        r = self.rng
        base = gen.Textbook(r, max_depth=r.choice([1, 2, 3])).expression()[0].xml() if r.random() < 0.7 else r.choice(GARBAGE)
        s = base
        for _ in range(r.randint(1, 4)):
            if not s:
                break
            i = r.randrange(len(s))
            j = min(len(s), i + r.choice([1, 1, 2, 5, 20]))
            k = r.random()
            if k < 0.3:
                s = s[:i] + s[j:]
            elif k < 0.55:
                s = s[:i] + r.choice(["<", ">", "/", "&", "'", "\"", "=", " ", "\x00", " ", "⁢", "m", "<mi>", "</mrow>", "&#x", ";", "<!--", "]]>", "퟿", "\U0001d400"]) + s[i:]
            elif k < 0.8:
                s = s[:i] + s[i:j] * r.choice([2, 3, 30]) + s[j:]
            else:
                s = s[:i] + "".join(reversed(s[i:j])) + s[j:]
        return s[:200000]

    def big(self):
        r = self.rng
        k = r.random()
        if k < 0.3:
            tag = r.choice(["mrow", "msqrt", "mfrac", "msup", "mstyle", "mfenced", "menclose", "mpadded", "munder", "mtable"])
            return nested(tag, r.choice([32, 64, 128, 200, 256]))
        if k < 0.55:
            n = r.choice([100, 300, 800])
            return "<math><mrow>" + "".join(r.choice(["<mi>x</mi>", "<mo>+</mo>", "<mn>1</mn>", "<mo>(</mo>", "<mo>)</mo>", "<mo>,</mo>", "<mn>2</mn><mo>.</mo>"]) for _ in range(n)) + "</mrow></math>"
        if k < 0.75:
            return big_token(r)
        if k < 0.9:
            rows = r.choice([30, 80])
            return "<math><mtable>" + ("<mtr>" + "<mtd><mn>1</mn></mtd>" * r.choice([1, 30]) + "</mtr>") * rows + "</mtable></math>"
        return "<math><mmultiscripts><mi>x</mi>" + "<mn>1</mn><none/>" * r.choice([50, 500]) + "<mprescripts/>" + "<none/><mi>a</mi>" * r.choice([1, 200]) + "</mmultiscripts></math>"

    # -- other arguments -----------------------------------------------------------------------
    def nav_command(self):
        r = self.rng
        return r.choice(self.nav) if r.random() < 0.85 else r.choice(NAV_GARBAGE)

    def keypress(self):
        r = self.rng
        return (r.choice([r.randint(0, 255), r.choice([13, 27, 32, 33, 34, 35, 36, 37, 38, 39, 40, 48, 57, 88, 190]), r.randint(256, 70000)]), r.random() < 0.3, r.random() < 0.3, r.random() < 0.3, r.random() < 0.1)

    def pref_pair(self):
        r = self.rng
        if r.random() < 0.35:
            # a documented value of a documented preference (the enumerators named in the comment of its prefs.yaml line): rules that test a
            # rarely used value are only reached when that value is really set
            if self._enums is None:
                self._enums = sorted((n, v[1]) for n, v in configs.prefs_yaml().items() if v[1])
            if self._enums:
                n, vals = r.choice(self._enums)
                return n, r.choice(vals)
        return r.choice(self.prefs), r.choice(PREF_VALUES)

    def node_id(self, valid_ids):
        r = self.rng
        if valid_ids and r.random() < 0.6:
            return r.choice(valid_ids)
        return r.choice(["", "nosuch", "M0-0", "'", "é", "a b", "]]", "A" * 500, "0"])

    def offset(self):
        return self.rng.choice([0, 0, 0, 1, 2, 5, 100, 2 ** 31, 2 ** 53])

    def position(self):
        return self.rng.choice([0, 1, 2, 3, 5, 10, 30, 100, 10 ** 6, 2 ** 53])


def big_token(r):
    tag = r.choice(["mi", "mn", "mo", "mtext"])
    text = r.choice(["x", "1", ",", "a b ", "é", "1,000.", "-", "'"]) * r.choice([500, 5000])
    return "<math><%s>%s</%s></math>" % (tag, text, tag)


def nested(tag, depth, leaf="<mi>x</mi>"):
    if tag == "mfrac":
        return "<math>" + "<mfrac>" * depth + leaf + "<mn>2</mn></mfrac>" * depth + "</math>"
    if tag in ("msup", "munder"):
        return "<math>" + ("<%s><mi>x</mi>" % tag) * depth + "<mn>2</mn>" + ("</%s>" % tag) * depth + "</math>"
    if tag == "mtable":
        return "<math>" + "<mtable><mtr><mtd>" * depth + leaf + "</mtd></mtr></mtable>" * depth + "</math>"
    if tag == "mfenced":
        return "<math>" + "<mfenced>" * depth + leaf + "</mfenced>" * depth + "</math>"
    return "<math>" + ("<%s>" % tag) * depth + leaf + ("</%s>" % tag) * depth + "</math>"
