"""C05 — speech is clean, non-empty text in every language.

Invariant at the API boundary: every string returned by get_spoken_text, get_overview_text and do_navigate_command is scanned for
code points that only the library can have put there (private-use markers, the [[ ]] navigation brackets, raw invisible operators,
tag-shaped markup when TTS=None) and must not be empty when the expression has visible content.  The inputs never contain private-use
characters, '[[' or ']]', and '<' only as a one-character token, so whatever the scan finds was produced by the library.
The oracle (c05_chars.scan) is written from the property statement and shares nothing with MathCAT."""
import os
import random
import re
import time
import unicodedata

from . import c05_chars as cc
from . import canon, configs, core, gen, shrink

PROP = "C05"
VERBOSITIES = ["Terse", "Medium", "Verbose"]
ENGINES = ["None", "SSML", "SAPI5"]
# "no engine selected" in every spelling the library accepts (the value is stored as given): the documented ones and an unknown name
NO_ENGINE_SPELLINGS = ["None", "none", "NONE", "NoSuchEngine"]
ENGINE_SPELLINGS = ["SSML", "SAPI5", "ssml", "Sapi5"]
ELEMS = ["mi", "mo", "mtext", "mn"]

# every preference the workload varies, with the value it has when a configuration does not mention it (documented defaults)
BASE_PREFS = {
    "SpeechOverrides_CapitalLetters": "", "CapitalLetters_UseWord": "true", "CapitalLetters_Pitch": "0", "CapitalLetters_Beep": "false",
    "Impairment": "Blindness", "Bookmark": "false", "PauseFactor": "100", "MathRate": "100", "Pitch": "0", "Rate": "180", "Volume": "100",
    "SpeechSound": "None", "CheckRuleFiles": "Prefs",
}
CAP_VARIANTS = [
    {}, {"SpeechOverrides_CapitalLetters": "big"}, {"CapitalLetters_UseWord": "false"}, {"CapitalLetters_Pitch": "30"},
    {"CapitalLetters_Beep": "true"}, {"CapitalLetters_Beep": "true", "CapitalLetters_Pitch": "-20", "SpeechOverrides_CapitalLetters": "upper case"},
    {"Impairment": "LowVision"}, {"Impairment": "LearningDisability", "SpeechOverrides_CapitalLetters": "grande"},
    {"CapitalLetters_UseWord": "false", "CapitalLetters_Pitch": "25", "CapitalLetters_Beep": "true"},
]
ENGINE_VARIANTS = [{}, {"Bookmark": "true"}, {"PauseFactor": "0"}, {"PauseFactor": "400"}, {"MathRate": "160"}, {"Pitch": "20", "Volume": "60"},
                   {"Rate": "260"}, {"SpeechSound": "Beep"}, {"Bookmark": "true", "MathRate": "70", "PauseFactor": "30"}]
NAV_DEFAULT = {"NavMode": "Enhanced", "NavVerbosity": "Medium", "Overview": "false", "AutoZoomOut": "true"}
NAV_MOVES = ["MoveNext", "MovePrevious", "ZoomIn", "ZoomOut", "ZoomInAll", "ZoomOutAll", "MoveStart", "MoveEnd", "MoveLineStart", "MoveLineEnd",
             "MoveCellPrevious", "MoveCellNext", "MoveCellUp", "MoveCellDown", "MoveColumnStart", "MoveColumnEnd", "MoveLastLocation"]
NAV_READS = ["ReadPrevious", "ReadNext", "ReadCurrent", "ReadCellCurrent", "DescribePrevious", "DescribeNext", "DescribeCurrent", "WhereAmI", "WhereAmIAll"]
NAV_OTHER = ["ToggleZoomLockUp", "ToggleZoomLockDown", "ToggleSpeakMode", "SetPlacemarker1", "MoveTo1", "Read1", "Describe1", "ReadStart", "ReadEnd",
             "ReadLineStart", "ReadLineEnd"]


# ---------------------------------------------------------------------------------------------------------------------
# configurations
# ---------------------------------------------------------------------------------------------------------------------
_BASE = None


def base_prefs():
    """BASE_PREFS plus every ClearSpeak_* preference at its default: a session that moves from one configuration to the next must not keep
    a preference of the previous one"""
    global _BASE
    if _BASE is None:
        b = dict(BASE_PREFS)
        for k, (default, _enums) in sorted(configs.prefs_yaml().items()):
            if k.startswith("ClearSpeak_"):
                b[k] = default
        _BASE = b
    return _BASE


def prefs_for(cfg, nav=None):
    p = {"TTS": cfg.get("tts", "None"), "Language": cfg["lang"], "SpeechStyle": cfg["style"], "Verbosity": cfg["verbosity"]}
    p.update(base_prefs())
    p.update(cfg.get("extra", {}))
    p.update(NAV_DEFAULT)
    if nav:
        p.update(nav.get("prefs", {}))
    return p


def cfg_sig(cfg, nav=None):
    parts = []
    if cfg["lang"] != "en":
        parts.append("lang=" + cfg["lang"])
    if cfg["style"] != "ClearSpeak":
        parts.append("style=" + cfg["style"])
    if cfg["verbosity"] != "Medium":
        parts.append("verbosity=" + cfg["verbosity"])
    if cfg.get("tts", "None") != "None":
        parts.append("TTS=" + cfg["tts"])
    for k, v in sorted(cfg.get("extra", {}).items()):
        parts.append("%s=%s" % (k, v))
    if nav:
        for k, v in sorted(nav.get("prefs", {}).items()):
            if NAV_DEFAULT.get(k) != v:
                parts.append("%s=%s" % (k, v))
    return ",".join(parts) or "default"


_CLEARSPEAK = None


def clearspeak_prefs():
    global _CLEARSPEAK
    if _CLEARSPEAK is None:
        prefs = configs.prefs_yaml()
        _CLEARSPEAK = {k: v[1] for k, v in prefs.items() if k.startswith("ClearSpeak_") and v[1]}
    return _CLEARSPEAK


def random_extra(rng, caps=True):
    """one capital-letter / override / engine-parameter combination (plus, sometimes, ClearSpeak_* preferences)"""
    extra = {}
    if caps:
        extra.update(rng.choice(CAP_VARIANTS))
    if rng.random() < 0.5:
        extra.update(rng.choice(ENGINE_VARIANTS))
    if rng.random() < 0.4:
        cs = clearspeak_prefs()
        for k in rng.sample(sorted(cs), rng.randint(1, 3)):
            extra[k] = rng.choice(cs[k])
    if rng.random() < 0.3:
        # the re-reading policy of the rule files: the session moves from configuration to configuration, and a preference change must take
        # effect whether or not the files are looked at again
        extra["CheckRuleFiles"] = rng.choice(["None", "None", "All"])
    return extra


def random_cfg(rng, lang, tts=None):
    cfg = {"lang": lang, "style": rng.choice(configs.styles(lang)), "verbosity": rng.choice(VERBOSITIES),
           "tts": tts or (rng.choice(NO_ENGINE_SPELLINGS) if rng.random() < 0.55 else rng.choice(ENGINE_SPELLINGS))}
    extra = random_extra(rng)
    if extra:
        cfg["extra"] = extra
    return cfg


def random_nav(rng):
    prefs = {"NavMode": rng.choice(["Enhanced", "Simple", "Character"]), "NavVerbosity": rng.choice(["Terse", "Medium", "Verbose", "Full"]),
             "Overview": rng.choice(["false", "false", "true"]), "AutoZoomOut": rng.choice(["true", "true", "false"])}
    cmds = []
    if prefs["Overview"] == "true" and rng.random() < 0.7:
        cmds.append("ToggleSpeakMode")        # sessions start in speak mode whatever the preference says
    for _ in range(rng.randint(3, 12)):
        r = rng.random()
        cmds.append(rng.choice(NAV_MOVES[:4]) if r < 0.45 else rng.choice(NAV_MOVES) if r < 0.65 else rng.choice(NAV_READS) if r < 0.9 else rng.choice(NAV_OTHER))
    return {"prefs": prefs, "cmds": cmds}


# ---------------------------------------------------------------------------------------------------------------------
# inputs
# ---------------------------------------------------------------------------------------------------------------------
_NOT_VISIBLE_CATS = ("Cf", "Cc", "Zs", "Zl", "Zp")


def visible(tree):
    """does the expression show anything?  (C01's flat()/norm(), minus format characters and variation selectors)"""
    s = canon.norm(canon.flat_in(tree))
    return any(unicodedata.category(c) not in _NOT_VISIBLE_CATS and not (0xFE00 <= ord(c) <= 0xFE0F or 0xE0100 <= ord(c) <= 0xE01EF) for c in s)


def input_ok(tree):
    """inside the quantifier: no private-use character, no '[[' / ']]', no token text that is itself tag- or reference-shaped"""
    for n, _ in tree.walk():
        if n.kids is None:
            t = n.text or ""
            if cc.has_forbidden_input(t):
                return False
        for v in n.attrs.values():
            if cc.has_forbidden_input(v):
                return False
    multi = [n.text or "" for n, _ in tree.walk() if n.kids is None and len(n.text or "") > 1]
    if multi and cc.could_pass_through_markup([n.text or "" for n, _ in tree.walk() if n.kids is None and (len(n.text or "") > 1 or (n.text or "") in "<>&")]):
        return False
    return True


def char_tree(elem, ch):
    return gen.math(gen.N(elem, text=ch))


WORDS = ["if", "and", "x", "sin", "ab", "where", "2", "10", "for all", "π", "≤", "A", "Na", "dx", "n-1", "x,y", "…",
         # the XML special characters inside multi-character text (passed through, never looked up in a table)
         "if a < b & c", "Newton's law", 'say "hi"', "x>y", "<<", ">=", "a&b", "R&D", "f'", "<", "&", "'", '"', ">", "1<2", "p -> q"]
GLUE = [" ", "⁡", "⁢", "⁣", "⁤", " ", " ", " ", "​", "⁢ ", "  "]


def text_token(rng, pool):
    """a multi-character token: words and table characters glued with NBSP / invisible operators / blanks"""
    n = rng.randint(1, 3)
    parts = []
    if rng.random() < 0.3:
        parts.append(rng.choice(GLUE))
    for i in range(n):
        parts.append(rng.choice(WORDS) if rng.random() < 0.7 else rng.choice(pool))
        if i + 1 < n or rng.random() < 0.4:
            parts.append(rng.choice(GLUE))
    text = "".join(parts)
    if cc.has_forbidden_input(text):
        # the parts happen to join into something tag- or reference-shaped: keep the words, drop what makes the shape
        text = cc.passed_through(text).replace("<", "< ").replace("&", "& ").replace("[[", "[").replace("]]", "]")
    elem = rng.choice(["mtext", "mtext", "mtext", "mi", "mn", "mo", "ms"])
    tok = gen.N(elem, text=text)
    if elem in ("mi", "mtext") and rng.random() < 0.12 and not any(c in text for c in "<>&"):
        # (a unit name is spoken with a plural 's' glued on: a text that ends in '<' would make something tag-shaped out of the author's own characters)
        # marked as a unit the two documented ways (the unit rules speak known units by table and anything else by its text)
        if rng.random() < 0.5:
            tok.attrs["intent"] = ":unit"
        else:
            tok.attrs["class"] = "MathML-unit"
    return tok


def text_tree(rng, pool):
    tok = text_token(rng, pool)
    r = rng.random()
    if r < 0.45:
        return gen.math(tok)
    if r < 0.7:
        return gen.math(gen.mrow(gen.mn("2"), tok, gen.mi("x")))
    if r < 0.8:
        return gen.math(gen.N("mfrac", [tok, gen.mi("y")]))
    if r < 0.9:
        return gen.math(gen.N("msup", [gen.mi("x"), tok]))
    return gen.math(gen.mrow(tok, gen.mo("="), text_token(rng, pool)))


def textbook_tree(rng, pool):
    tb = gen.Textbook(rng, decimal=".", max_depth=rng.choice([1, 2, 3, 4]), p_ident=rng.choice([0.3, 0.6, 0.9]))
    tree, _ = tb.expression()
    # identifiers of every kind (capital letters, Greek, table characters) in place of some of the planted literals / variables
    for n, _ in tree.walk():
        if n.kids is None and n.tag in ("mi", "mn") and rng.random() < 0.25:
            r = rng.random()
            if r < 0.4:
                n.tag, n.text = "mi", rng.choice("ABCDEFGHIJKLMNOPQRSTUVWXYZ")
            elif r < 0.6:
                n.tag, n.text = "mi", rng.choice("ΓΔΘΛΞΠΣΦΨΩαβγδεζ")
            elif r < 0.8:
                n.tag, n.text = "mi", rng.choice(pool)
            else:
                n.tag, n.text = "mn", rng.choice(["0", "1", "2", "3", "10", "12", "100", "2.5", "1000"])
    return tree


# ---------------------------------------------------------------------------------------------------------------------
# judging
# ---------------------------------------------------------------------------------------------------------------------
def case_ops(tree, nav):
    ops = []
    if nav:
        for k, v in sorted(nav["prefs"].items()):
            ops.append(("set_preference", k, v))
    ops += [("set_mathml", tree.xml()), ("get_spoken_text",), ("get_overview_text",)]
    if nav:
        ops += [("do_navigate_command", c) for c in nav["cmds"]]
    return ops


def abstract_cmd(c):
    return re.sub(r"\d$", "N", c)


def judge_results(tree, cfg, nav, res, st=None):
    """res = results of case_ops(tree, nav).  Returns (problems, judged) with problems = [(kind, leak, call, string)]:
    call = 'speech' | 'overview' | 'nav:<index>'."""
    npref = len(nav["prefs"]) if nav else 0
    sm = res[npref]
    if sm["r"] != "ok":
        if st:
            st.count("set_mathml_%s_not_judged" % sm["r"])      # C08's business
        return [], 0
    tts = cfg.get("tts", "None")
    vis = visible(tree)
    problems = []
    judged = 0
    calls = [("speech", res[npref + 1]), ("overview", res[npref + 2])]
    if nav:
        calls += [("nav:%d" % i, r) for i, r in enumerate(res[npref + 3:])]
    for call, r in calls:
        cls = call.split(":")[0]
        if r["r"] != "ok":
            if st:
                st.count("%s_%s_not_judged" % (cls, r["r"]))   # a getter that fails is C04/C15/C11's business
            continue
        s = r["v"]
        judged += 1
        if st:
            st.count("strings_scanned_" + cls)
            if cls == "nav":
                st.add("nav_commands_judged", abstract_cmd(nav["cmds"][int(call[4:])]))
            if cc.no_engine(tts) and any(c in s for c in ",;"):
                st.count("strings_with_pause_punctuation")
            elif not cc.no_engine(tts) and "<" in s:
                st.count("strings_with_engine_markup")
            if cc.no_engine(tts) and any(c in s for c in "<>&'\""):
                st.count("plain_strings_with_xml_special_characters")
            if cc.INTERNAL_WORDS_RX.search(s):
                st.count("rule_internal_words_seen")
                st.add("rule_internal_words", cc.INTERNAL_WORDS_RX.search(s).group(0))
        for kind, leak in cc.scan(s, tts):
            problems.append((kind, leak, call, s))
        if vis and cc.is_empty_speech(s, tts):
            if cls == "nav":
                # a navigation command may legitimately have nothing to say about a position (e.g. an invisible operator): counted only
                if st:
                    st.count("nav_empty_strings")
                    st.add("nav_empty_commands", abstract_cmd(nav["cmds"][int(call[4:])]))
            else:
                problems.append(("empty", "", call, s))
        elif vis and st and cc.is_pause_only(s, tts):
            st.count("pause_only_strings_" + cls)
    return problems, judged


class Sess:
    """driver holding one configuration at a time; preferences are re-sent when the configuration changes"""

    def __init__(self):
        self.s = None
        self.cfg_key = None
        self.lang = None

    def configure(self, cfg):
        key = repr(sorted(prefs_for(cfg).items()))
        if self.s is not None and self.s.d is not None and self.s.d.alive() and key == self.cfg_key:
            return True
        if self.s is None or self.lang != cfg["lang"]:
            self.close()
            self.s = core.Session(prefs_for(cfg))
            self.lang = cfg["lang"]
            self.cfg_key = key
            self.s.ensure()
            return True
        self.s.prefs = prefs_for(cfg)
        if self.s.d is None or not self.s.d.alive():
            self.s.ensure()
        else:
            res = self.s.batch([("set_preference", k, v) for k, v in self.s.prefs.items()])
            if res is None or any(r["r"] != "ok" for r in res):
                self.s.close()
                self.s.ensure()
        self.cfg_key = key
        return True

    def run(self, cfg, tree, nav):
        """results of case_ops, or None when the driver died / hung"""
        self.configure(cfg)
        res = self.s.batch(case_ops(tree, nav), timeout=60)
        if res is None:
            self.cfg_key = None
        return res

    def close(self):
        if self.s is not None:
            self.s.close()
            self.s = None
            self.cfg_key = None


_POOL = {}       # language -> Sess used for re-runs (minimisation, replay); one driver per language per process


def pool_sess(lang):
    if lang not in _POOL:
        if len(_POOL) >= 3:
            _POOL.pop(next(iter(_POOL))).close()
        _POOL[lang] = Sess()
    return _POOL[lang]


def close_pool():
    for s in _POOL.values():
        s.close()
    _POOL.clear()


def problems_of(cfg, tree, nav, st=None, fresh=False):
    """problems of one case; None when the driver died or hung.  fresh=True: in a brand-new driver process (nothing of the history that found
    the case can play a part), otherwise in a pooled session that sets every varied preference explicitly"""
    if fresh:
        s = Sess()
        try:
            res = s.run(cfg, tree, nav)
        finally:
            s.close()
    else:
        res = pool_sess(cfg["lang"]).run(cfg, tree, nav)
    if res is None:
        return None
    return judge_results(tree, cfg, nav, res, st)[0]


def call_class(call):
    return call.split(":")[0]


# ---------------------------------------------------------------------------------------------------------------------
# minimisation and signatures
# ---------------------------------------------------------------------------------------------------------------------
def tok_shape(n):
    t = n.text or ""
    if n.tag in ("none", "mprescripts", "mspace"):
        return n.tag
    if t == "":
        return n.tag + ":EMPTY"
    if len(t) == 1:
        if t.isascii() and t.isalpha():
            return n.tag + (":A" if t.isupper() else ":a")
        if t.isascii() and t.isdigit():
            return n.tag + ":D"
        return "%s:U+%04X" % (n.tag, ord(t))
    if re.fullmatch(r"[0-9]+", t):
        return n.tag + ":D"
    if re.fullmatch(r"[0-9]*[.,][0-9]+", t):
        return n.tag + ":D.D"
    if t.isascii() and t.isalpha():
        return n.tag + ":WORD"
    special = sorted(set("U+%04X" % ord(c) for c in t if c in cc.INVISIBLE_OPS or c in "\u00a0\u2009\u202f\u200b"))
    return "%s:TEXT{%s}" % (n.tag, ",".join(special[:6]))


def shape(t, depth=0):
    if t.kids is None:
        return tok_shape(t)
    keep = [k for k in sorted(t.attrs) if k in ("notation", "linethickness", "open", "close", "separators", "intent", "bevelled", "mathvariant")]
    a = "[" + ",".join("%s=%s" % (k, t.attrs[k]) for k in keep) + "]" if keep else ""
    if depth > 8:
        return t.tag + "(…)"
    return t.tag + a + "(" + ",".join(shape(k, depth + 1) for k in t.kids) + ")"


def make_sig(kind, leak, call, tree, cfg, nav):
    c = call_class(call)
    if c == "nav" and nav:
        c = "nav:" + abstract_cmd(nav["cmds"][int(call[4:])])
    if kind == "invisible-operator":
        leak = ""          # which of U+2061..2064 came through is in the shape of the witness
    return "%s[%s] | %s | %s | %s" % (kind, leak, c, shape(tree), cfg_sig(cfg, nav if call_class(call) == "nav" else None))


def shorten_tokens(tree, still_fails, budget=60):
    """drop characters of multi-character tokens one at a time while the witness still fails (blanks and invisible characters first)"""
    best = tree
    calls = 0
    for node, path in list(best.walk()):
        if node.kids is None and re.fullmatch(r"[0-9]*[.,]?[0-9]+", node.text or ""):
            continue          # a number stays a number (its class is part of the signature)
        if node.kids is not None or len(node.text or "") < 2 or not path:
            continue
        text = node.text
        order = sorted(range(len(text)), key=lambda i: (not (text[i].isspace() or text[i] in cc.INVISIBLE_OPS or text[i] in "\u200b\u2060\ufeff"), i))
        removed = set()
        for i in order:
            if calls >= budget or len(text) - len(removed) <= 1:
                break
            trial = "".join(c for j, c in enumerate(text) if j not in removed and j != i)
            n2 = node.copy()
            n2.text = trial
            cand = shrink._replace_at(best, path, n2)
            calls += 1
            if still_fails(cand):
                best = cand
                removed.add(i)
    return best


def minimise(cfg, tree, nav, kind, cls):
    """smallest expression, shortest command list and most default configuration that still shows a problem of this kind on this kind of call"""
    def fails(c, t, nv):
        if not input_ok(t):
            return False          # the shrinker must not leave the quantifier (e.g. shorten a token into something tag-shaped)
        ps = problems_of(c, t, nv)
        return bool(ps) and any(p[0] == kind and call_class(p[2]) == cls for p in ps)

    if True:
        if cls != "nav":
            nav = None
        small = shrink.shrink_tree(tree, lambda t: fails(cfg, t, nav), budget=600, leaf_factory=lambda: [gen.mi("x"), gen.mn("2")])
        small = shorten_tokens(small, lambda t: fails(cfg, t, nav))
        if nav:
            cmds = shrink.shrink_list(nav["cmds"], lambda cs: fails(cfg, small, {"prefs": nav["prefs"], "cmds": cs}), budget=120)
            nav = {"prefs": dict(nav["prefs"]), "cmds": cmds}
            for k, v in sorted(NAV_DEFAULT.items()):
                if nav["prefs"].get(k, v) != v:
                    trial = {"prefs": dict(nav["prefs"], **{k: v}), "cmds": nav["cmds"]}
                    if fails(cfg, small, trial):
                        nav = trial
        trials = [("extra", k) for k in sorted(cfg.get("extra", {}))] + [("verbosity", "Medium"), ("style", "ClearSpeak"), ("tts", "None"), ("lang", "en")]
        for key, default in trials:
            trial = dict(cfg)
            if key == "extra":
                ex = dict(trial.get("extra", {}))
                ex.pop(default, None)
                trial.pop("extra", None)
                if ex:
                    trial["extra"] = ex
            else:
                trial[key] = default
            if trial == cfg:
                continue
            if key == "tts" and kind == "markup" and not cc.no_engine(cfg.get("tts", "None")):
                continue
            if trial["style"] not in configs.styles(trial["lang"]):
                continue
            if fails(trial, small, nav):
                cfg = trial
        return cfg, small, nav


def report(st, cfg, tree, nav, problems, seen_pre, origin, deadline=None):
    """pre-cluster, shrink one representative per cluster, record the violation"""
    for kind, leak, call, s in problems:
        cls = call_class(call)
        st.count("raw_%s_%s" % (kind, cls))
        if origin in ("chars", "caps") and nav is None and len(tree.kids) == 1 and tree.kids[0].kids is None:
            # a one-token expression: the character is the case; one cluster per (language, character), whatever the element and the call
            pre = (kind, leak, cfg["lang"], tree.kids[0].text)
            cap = 200
        else:
            pre = (kind, leak, cls, cfg["lang"], origin, tree.kids[0].tag if tree.kids else "")
            cap = 200
        if pre in seen_pre:
            continue
        seen_pre.add(pre)
        if cfg["lang"] != "en" and len(pre) == 6:
            # most causes do not depend on the language: when the same case fails the same way in English, the cluster is English's
            trial = dict(cfg, lang="en")
            if trial["style"] not in configs.styles("en"):
                trial["style"] = "ClearSpeak"
            ps = problems_of(trial, tree, nav)
            if ps and any(p[0] == kind and call_class(p[2]) == cls for p in ps):
                pre = (kind, leak, cls, "en", origin, pre[5])
                if pre in seen_pre:
                    continue
                seen_pre.add(pre)
                cfg = trial
        if len(seen_pre) > cap or (deadline and time.time() > deadline + 60):
            # far more clusters than any healthy tree produces: stop shrinking, keep one unminimised representative per (kind, what, call)
            st.count("clusters_not_shrunk")
            over = ("overflow", kind, leak, cls)
            if over not in seen_pre:
                seen_pre.add(over)
                st.violations.append(core.violation(kind, "%s[%s] | %s | not minimised (too many clusters in one shard or out of time)" % (kind, leak, cls),
                                                    witness(cfg, tree, nav), "%s returned %r for %s under %s" % (call, s[:300], tree.xml()[:300], cfg_sig(cfg, nav))))
            continue
        mcfg, small, mnav = minimise(cfg, tree, nav, kind, cls)
        ps = problems_of(mcfg, small, mnav, fresh=True) or []
        ps = [p for p in ps if p[0] == kind and call_class(p[2]) == cls]
        if not ps:
            st.count("violation_not_reproduced_in_fresh_session")
            st.notes.append("not reproduced in a fresh session (history dependence is C10's business): %s %s %s" % (kind, cfg_sig(cfg, nav), tree.xml()[:300]))
            continue
        k2, leak2, call2, s2 = ps[0]
        sig = make_sig(k2, leak2, call2, small, mcfg, mnav)
        detail = "minimal witness %s | %s%s returned %r" % (small.xml(), cfg_sig(mcfg, mnav), (" | commands " + ",".join(mnav["cmds"])) if mnav else "", s2[:400])
        st.violations.append(core.violation(kind, sig, witness(mcfg, small, mnav), detail))


def witness(cfg, tree, nav):
    w = {"cfg": cfg, "mathml": tree.xml()}
    if nav:
        w["nav"] = nav
    return w


def pred_mn_only_separators(v, params):
    """Known finding C05-mn-of-separators: the witness is a single mn whose text has no digit and no letter, only punctuation / modifier symbols /
    blanks (what the language's default mn rule strips as digit-block separators)."""
    tree = gen.from_xml(v["witness"]["mathml"])
    if len(tree.kids) != 1 or tree.kids[0].tag != "mn" or tree.kids[0].kids is not None:
        return False
    t = tree.kids[0].text or ""
    return bool(t) and all(unicodedata.category(c)[0] in "PZ" or unicodedata.category(c) == "Sk" for c in t)


core.PREDICATES["c05_mn_only_separators"] = pred_mn_only_separators


def replay(w):
    tree = gen.from_xml(w["mathml"])
    if not input_ok(tree):
        return []            # outside the quantifier (the input itself could pass through as something markup-shaped)
    cfg = dict(w["cfg"])
    cfg.setdefault("tts", "None")
    nav = w.get("nav")
    ps = problems_of(cfg, tree, nav, fresh=True)
    out = []
    for kind, leak, call, s in ps or []:
        out.append(core.violation(kind, make_sig(kind, leak, call, tree, cfg, nav), w, "%s returned %r" % (call, s[:400])))
    return out


# ---------------------------------------------------------------------------------------------------------------------
# shards
# ---------------------------------------------------------------------------------------------------------------------
def run_cases(sess, st, cfg, cases, seen_pre, origin, batch=60):
    """cases: list of (tree, nav or None).  All under one configuration; batched into one driver call per `batch` cases."""
    sess.configure(cfg)
    for off in range(0, len(cases), batch):
        chunk = cases[off:off + batch]
        ops, spans = [], []
        for tree, nav in chunk:
            o = case_ops(tree, nav)
            spans.append((len(ops), len(ops) + len(o)))
            ops += o
        if any(nav for _, nav in chunk):
            ops += [("set_preference", k, v) for k, v in sorted(NAV_DEFAULT.items())]
        res = sess.s.batch(ops, timeout=120)
        if res is None:
            # the driver died or hung somewhere in the chunk: redo case by case; the culprit is only counted (C08's business)
            sess.cfg_key = None
            for tree, nav in chunk:
                r = sess.run(cfg, tree, nav)
                if r is None:
                    st.inconclusive += 1
                    st.count("driver_died_or_hung")
                    continue
                handle(st, cfg, tree, nav, r, seen_pre, origin)
            sess.configure(cfg)
            continue
        for (tree, nav), (a, b) in zip(chunk, spans):
            handle(st, cfg, tree, nav, res[a:b], seen_pre, origin)


def handle(st, cfg, tree, nav, res, seen_pre, origin):
    problems, judged = judge_results(tree, cfg, nav, res, st)
    st.evaluations += judged
    if judged:
        if visible(tree):
            st.nontrivial.add(core.h16("%s|%s|%s|%s" % (origin, shape(tree), cfg_sig(cfg, nav), ",".join(nav["cmds"]) if nav else "")))
        else:
            st.count("cases_without_visible_content")
        st.add("languages", cfg["lang"])
        st.add("configs", "%s/%s/%s/%s" % (cfg["lang"], cfg["style"], cfg["verbosity"], cfg.get("tts", "None")))
        st.add("tts_spellings", cfg.get("tts", "None"))
        for k in cfg.get("extra", {}):
            st.add("extra_preferences", k)
        st.count("cases_" + origin)
        if len(st.samples) < 3 and origin != "chars" and nav and res[-1]["r"] == "ok":
            st.sample({"config": cfg_sig(cfg, nav), "mathml": tree.xml()[:400], "speech": res[len(nav["prefs"]) + 1].get("v", "")[:200],
                       "navigation": [[c, r.get("v", r.get("e", ""))[:120]] for c, r in zip(nav["cmds"], res[len(nav["prefs"]) + 3:])][:6]})
    if problems:
        report(st, cfg, tree, nav, problems, seen_pre, origin, _DEADLINE[0])


_DEADLINE = [None]


def shard(spec):
    st = core.Stats()
    rng = random.Random(spec["seed"])
    deadline = time.time() + spec["time_budget"]
    _DEADLINE[0] = deadline
    seen_pre = set()
    sess = Sess()
    try:
        for unit in spec["units"]:
            if time.time() > deadline:
                st.count("units_skipped_by_time_budget")
                continue
            lang = unit["lang"]
            if unit["kind"] == "chars":
                chars = unit["chars"]
                for off in range(0, len(chars), unit["chunk"]):
                    if time.time() > deadline:
                        st.count("char_chunks_skipped_by_time_budget")
                        break
                    cfg = random_cfg(rng, lang)
                    # the verbosity is not left to chance: round r gives chunk k the verbosity (r + k) mod 3, so over three rounds every
                    # character of every table is spoken Terse, Medium and Verbose (entries that speak in one verbosity only are a common slip)
                    cfg["verbosity"] = VERBOSITIES[(unit.get("round", 0) + off // unit["chunk"]) % 3]
                    cases = []
                    for ch, table in chars[off:off + unit["chunk"]]:
                        for elem in unit["elems"]:
                            cases.append((char_tree(elem, ch), None))
                        st.count("chars_from_" + table)
                        if table == "none":
                            st.add("outside_char_classes", cc.char_class(ch))
                    run_cases(sess, st, cfg, cases, seen_pre, "chars", batch=150)
            elif unit["kind"] == "caps":
                # every capital-letter preference combination x engine on the letters themselves
                for vi_, variant in enumerate(CAP_VARIANTS):
                    for tts in [NO_ENGINE_SPELLINGS[vi_ % 4], ENGINE_SPELLINGS[vi_ % 4], ENGINE_SPELLINGS[(vi_ + 1) % 4]]:
                        cfg = {"lang": lang, "style": rng.choice(configs.styles(lang)), "verbosity": rng.choice(VERBOSITIES), "tts": tts}
                        if variant:
                            cfg["extra"] = dict(variant)
                        cases = [(char_tree(e, ch), None) for ch in unit["letters"] for e in ("mi", "mtext")]
                        cases += [(gen.math(gen.mrow(gen.mi(a), gen.mo("+"), gen.N("msub", [gen.mi(b), gen.mi(c)]))), None)
                                  for a, b, c in [rng.sample(unit["letters"], 3) for _ in range(6)]]
                        cases += [(gen.math(gen.mi(a + b)), None) for a, b in [rng.sample(unit["letters"], 2) for _ in range(6)]]
                        run_cases(sess, st, cfg, cases, seen_pre, "caps", batch=150)
            else:
                pool = unit["pool"]
                for _ in range(unit["n_cfg"]):
                    if time.time() > deadline:
                        st.count("expression_rounds_skipped_by_time_budget")
                        break
                    cfg = random_cfg(rng, lang, tts=unit.get("tts"))
                    cases = []
                    for i in range(unit["per_cfg"]):
                        r = rng.random()
                        tree = text_tree(rng, pool) if r < 0.3 else textbook_tree(rng, pool)
                        if not input_ok(tree):
                            st.count("inputs_outside_quantifier_dropped")
                            continue
                        nav = random_nav(rng) if rng.random() < unit["p_nav"] else None
                        cases.append((tree, nav))
                    run_cases(sess, st, cfg, cases, seen_pre, "expr", batch=40)
                    try:
                        hits = sess.s.ensure().call("rule_hits")["v"]
                        for k in hits:
                            t = k.split("|")
                            if t[0] in ("Speech", "Overview", "Navigation"):
                                st.add("rules_fired", "%s|%s|%s|%s" % (t[0], t[1].split("/Rules/")[-1], t[2], t[3]))
                    except Exception:
                        pass
    finally:
        sess.close()
        close_pool()
    return st.to_dict()


# ---------------------------------------------------------------------------------------------------------------------
# run
# ---------------------------------------------------------------------------------------------------------------------
def make_units(tier, seed):
    rng = random.Random(core.sub_seed(seed, PROP, "units"))
    units = []
    quick = tier == "quick"
    totals = {"short": 0, "full": 0, "none": 0, "private_use_excluded": 0}
    for lang in configs.languages():
        tc = cc.table_chars(lang)
        known = set(tc["short"]) | set(tc["full"])
        chars = []
        for table in ("short", "full"):
            for c in tc[table]:
                if cc.usable(c):
                    chars.append((c, table))
                    totals[table] += 1
                elif cc.is_private_use(c):
                    totals["private_use_excluded"] += 1
        outside = cc.outside_chars(known, rng, n_random=80 if quick else 600)
        chars += [(c, "none") for c in outside]
        totals["none"] += len(outside)
        rng.shuffle(chars)
        rounds = 3 if quick else 6          # a multiple of 3: every character meets every verbosity (see shard)
        for rnd in range(rounds):
            n = 600
            for off in range(0, len(chars), n):
                units.append({"kind": "chars", "lang": lang, "chars": chars[off:off + n], "elems": ELEMS, "chunk": 100, "round": rnd})
        letters = [c for c in "ABCDEFGHIJKLMNOPQRSTUVWXYZ"] + [c for c in "ΑΒΓΔΩÅÉ𝐀𝐴𝔸ℝ𝒜" if cc.usable(c)] + list("abz")
        units.append({"kind": "caps", "lang": lang, "letters": letters})
        pool = [c for c, _ in chars if not c.isspace() and c not in "<&"]
        pool = rng.sample(pool, min(len(pool), 400))
        n_units = 10 if quick else 48
        for i in range(n_units):
            units.append({"kind": "expr", "lang": lang, "pool": pool, "n_cfg": 4 if quick else 12, "per_cfg": 60 if quick else 250,
                          "p_nav": 0.5, "tts": (NO_ENGINE_SPELLINGS + ENGINE_SPELLINGS)[i % 8] if i % 2 == 0 else None})
    rng.shuffle(units)
    return units, totals


def run(tier, seed):
    t0 = time.time()
    core.build_driver("native")
    units, totals = make_units(tier, seed)
    nsh = core.NPROC
    budget = 75 if tier == "quick" else 1500
    specs = [{"seed": core.sub_seed(seed, PROP, i), "units": units[i::nsh], "time_budget": budget} for i in range(nsh)]
    results = core.run_shards(shard, specs)
    stats, errors = core.Stats.merge(results)
    known, fixed_failures, extra_v = core.replay_findings(PROP, replay)
    stats.violations.extend(extra_v)
    # mechanisms that must have been reached for "held" to mean anything
    missing = []
    langs = set(configs.languages())
    if stats.sets.get("languages", set()) != langs:
        missing.append("languages never judged: %s" % sorted(langs - stats.sets.get("languages", set())))
    for key, least in (("strings_scanned_speech", 5000), ("strings_scanned_overview", 5000), ("strings_scanned_nav", 2000),
                       ("strings_with_pause_punctuation", 500), ("strings_with_engine_markup", 200), ("chars_from_full", 1000), ("chars_from_none", 100),
                       ("cases_caps", 500)):
        if stats.counters.get(key, 0) < least:
            missing.append("%s=%d < %d" % (key, stats.counters.get(key, 0), least))
    if missing and not errors:
        errors = ["observed too little: " + "; ".join(missing)]
    return core.conclude(
        PROP, tier, seed, "exploration", stats,
        {"work_units": len(units), "table_characters": totals,
         "oracle": "alphabet scan of every returned string: U+E000-F8FF and planes 15/16, '[[' / ']]', U+2061-2064, tag-shaped markup when TTS=None; "
                   "empty speech/overview for an expression with visible content"},
        ["inputs contain no private-use character, no '[[' / ']]' and '<' only as a one-character token, so any such output was produced by the library",
         "unknown characters pass through unchanged by design; leaked rule-internal words are counted, not judged",
         "a getter that returns Err or panics is C04/C15/C08's business and only counted here; an empty navigation string is only counted "
         "(a command may have nothing to say about a position)",
         "under SSML/SAPI5 only marker freedom is judged (markup is the engine's format, C13 judges its well-formedness)"],
        t0,
        rule="(a) every non-private-use character of every shipped language's unicode.yaml and unicode-full.yaml plus characters in no table (CJK, kana, emoji, "
             "unassigned, combining, format, other scripts, random code points) as a one-character mi/mo/mtext(/mn), under rotating style x verbosity x engine x "
             "capital-letter/override/engine-parameter preferences; (b) every capital-letter preference combination x {None,SSML,SAPI5} on capital letters; "
             "(c) textbook expressions with capital/Greek/table-character identifiers and multi-character tokens glued with NBSP / invisible operators, half of "
             "them followed by a random navigation walk (3-12 commands, NavMode x NavVerbosity x Overview x AutoZoomOut). Non-trivial = set_mathml succeeded, "
             "the expression has visible content and at least one returned string was scanned; distinct by (workload, expression shape incl. the character, "
             "configuration, command list); evaluations = strings scanned",
        min_nontrivial=5000 if tier == "quick" else 50000, harness_errors=errors, known_replayed=known, fixed_failures=fixed_failures)
