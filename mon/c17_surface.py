"""XML surface respellings of a gen.N tree (workload side of C17).

A respelling is the tree plus a list of *atoms*; every atom is one local change of the XML surface form that, by the XML
recommendation / the HTML5 entity table, does not change the document: a namespace prefix, white space between elements or
inside tags, a comment or processing instruction between elements, a MathJax bookkeeping class attribute, the quote style of an
attribute, the spelling of one character (raw / decimal / hex / named reference).  Atoms are stored *inside* the tree (reserved
attribute MARK, never serialised) so that the generic tree shrinker keeps them attached to their nodes.

The only knowledge about characters used here is Python's html.entities.html5 table (named reference -> characters); the pool
of names the workload draws from is read from the tree under test (src/entities.in) so that the workload follows the code base."""
import html.entities
import json
import os
import re

from . import core
from .gen import N, mi, mn, mo, mtext, mrow, math
from .mml import esc, MATHML_NS

MARK = "\x00c17"
H5 = {k[:-1]: v for k, v in html.entities.html5.items() if k.endswith(";")}
FOREIGN_NS = {"xlink": "http://www.w3.org/1999/xlink", "xsi": "http://www.w3.org/2001/XMLSchema-instance",
              "svg": "http://www.w3.org/2000/svg", "h": "http://www.w3.org/1999/xhtml"}
# W3C 2007 entity file (the one MathCAT's table cites) defines these as SPACE + combining mark, HTML5 as the bare mark
LEADING_SPACE_NAMES = ("DotDot", "DownBreve", "TripleDot", "tdot")
XML_WS = " \t\r\n"


def table_names(repo=None):
    """entity names of src/entities.in, in file order (the set the property quantifies over)"""
    path = os.path.join(repo or core.REPO, "src", "entities.in")
    with open(path, encoding="utf-8") as f:
        return re.findall(r'^\s*"([^"]+)"\s*=>', f.read(), re.M)


_INV = {}


def inverse_table():
    """expansion (1 or 2 characters, per HTML5) -> names of the tree's table that HTML5 defines with exactly this expansion"""
    if not _INV:
        for n in table_names():
            if n in H5 and n not in LEADING_SPACE_NAMES:
                _INV.setdefault(H5[n], []).append(n)
    return _INV


# ------------------------------------------------------------------------------------------------
# marks
# ------------------------------------------------------------------------------------------------
def get_marks(node):
    m = node.attrs.get(MARK)
    return json.loads(m) if m else []


def set_marks(node, atoms):
    if atoms:
        node.attrs[MARK] = json.dumps(atoms)
    else:
        node.attrs.pop(MARK, None)


def add_mark(node, atom):
    set_marks(node, get_marks(node) + [atom])


def strip_marks(tree):
    t = tree.copy()
    for n, _ in t.walk():
        n.attrs.pop(MARK, None)
    return t


def collect(tree):
    """[(path as list, atom)] of every atom in the tree"""
    out = []
    for n, p in tree.walk():
        for a in get_marks(n):
            out.append([list(p), a])
    return out


def with_atoms(tree, pairs):
    """copy of tree carrying exactly the given (path, atom) pairs"""
    t = strip_marks(tree)
    for p, a in pairs:
        cur = t
        ok = True
        for i in p:
            if cur.kids is None or i >= len(cur.kids):
                ok = False
                break
            cur = cur.kids[i]
        if ok:
            add_mark(cur, a)
    return t


def real_attrs(node):
    return [(k, v) for k, v in node.attrs.items() if k != MARK]


# ------------------------------------------------------------------------------------------------
# serialiser
# ------------------------------------------------------------------------------------------------
def _render_chars(s, atoms, q=None):
    by_idx = {}
    ws_at = {}
    for a in atoms:
        if a[0] == "tokws":
            if s[a[1]:a[1] + a[2]] == a[5] and a[1] not in ws_at:
                ws_at[a[1]] = a
        elif s[a[2]:a[2] + a[3]] == a[6] and a[2] not in by_idx:
            by_idx[a[2]] = a
    out = []
    i = 0
    while i < len(s):
        w = ws_at.get(i)
        if w is not None:
            out.append(w[3])
            i += w[2]
            continue
        a = by_idx.get(i)
        if a is None:
            out.append(esc(s[i]))
            i += 1
            continue
        seg = s[i:i + a[3]]
        form = a[4]
        if form == "named":
            out.append("&%s;" % a[5])
        elif form == "dec":
            out.append("".join("&#%d;" % ord(c) for c in seg))
        elif form == "hex":
            out.append("".join("&#x%x;" % ord(c) for c in seg))
        elif form == "HEX":
            out.append("".join("&#x%05X;" % ord(c) for c in seg))
        elif form == "raw":
            # '>' is never written raw after two ']' -- however those are spelled: the XML recommendation asks for '>' to be escaped there
            legal = (seg in ('"', "'") and seg != q) or (seg == ">" and s[max(0, i - 2):i] != "]]")
            out.append(seg if legal else esc(seg))
        else:
            out.append(esc(seg))
        i += a[3]
    return "".join(out)


def _gap_item(kind, payload):
    if kind == "ws":
        return payload
    if kind == "comment":
        return "<!--" + payload + "-->"
    return "<?" + payload + "?>"


def spell(root, marks=True):
    """XML text of the tree; marks=False gives the base spelling (identical to gen.N.xml())"""
    rmarks = get_marks(root) if marks else []
    ns = None
    for a in rmarks:
        if a[0] == "ns":
            ns = a
    pre = "".join(_gap_item(a[2], a[3]) for a in rmarks if a[0] == "outer" and a[1] == 0)
    post = "".join(_gap_item(a[2], a[3]) for a in rmarks if a[0] == "outer" and a[1] == 1)

    def qname(tag, path):
        if ns is None or ns[1] in ("default", "default+foreign", "foreign+default"):
            return tag
        if ns[1] == "two-prefixes" and path and (sum(path) + len(path)) % 2 == 1:
            return ns[3] + ":" + tag
        return ns[2] + ":" + tag

    def ns_decls():
        if ns is None:
            return []
        mode, pfx, pfx2 = ns[1], ns[2], ns[3]
        foreign = ("xmlns:" + pfx2, FOREIGN_NS.get(pfx2, "urn:c17:foreign"))
        return {"default": [("xmlns", MATHML_NS)],
                "prefix": [("xmlns:" + pfx, MATHML_NS)],
                "prefix+foreign-after": [("xmlns:" + pfx, MATHML_NS), foreign],
                "foreign-before+prefix": [foreign, ("xmlns:" + pfx, MATHML_NS)],
                "two-prefixes": [("xmlns:" + pfx, MATHML_NS), ("xmlns:" + pfx2, MATHML_NS)],
                "default+foreign": [("xmlns", MATHML_NS), foreign],
                "foreign+default": [foreign, ("xmlns", MATHML_NS)]}[mode]

    def elem(node, path):
        atoms = get_marks(node) if marks else []
        name = qname(node.tag, path)
        attrs = [(k, v, False) for k, v in real_attrs(node)]
        has_class = any(k == "class" for k, _, _ in attrs)
        mjx = [a for a in atoms if a[0] == "mjx"]
        if mjx and not has_class:
            a = mjx[0]
            attrs.insert(min(a[1], len(attrs)), ("class", a, True))
        parts = ["<", name]
        if not path and ns is not None:
            q = ns[4]
            decl = "".join(" %s=%s%s%s" % (k, q, v, q) for k, v in ns_decls())
        else:
            decl = ""
        if decl and ns[5] == 0:
            parts.append(decl)
        for k, v, is_mjx in attrs:
            if is_mjx:
                a = v
                parts.append(" class%s=%s%s%s%s" % (a[4], a[5], a[3], a[2], a[3]))
                continue
            sep, eql, eqr, q = " ", "", "", "'"
            catoms = []
            for a in atoms:
                if a[0] == "tagws" and a[3] == k:
                    if a[1] == "attr-sep":
                        sep = a[2]
                    elif a[1] == "eq-l":
                        eql = a[2]
                    elif a[1] == "eq-r":
                        eqr = a[2]
                elif a[0] == "quote" and a[1] == k:
                    q = a[2]
                elif a[0] == "char" and a[1] == k:
                    catoms.append(a)
            parts.append("%s%s%s=%s%s%s%s" % (sep, k, eql, eqr, q, _render_chars(v, catoms, q), q))
        if decl and ns[5] == 1:
            parts.append(decl)
        open_end = "".join(a[2] for a in atoms if a[0] == "tagws" and a[1] == "open-end")
        close_end = "".join(a[2] for a in atoms if a[0] == "tagws" and a[1] == "close-end")
        parts.append(open_end)
        if node.kids is None:
            parts.append(">")
            parts.append("".join(a[2] for a in atoms if a[0] == "tokpad" and a[1] == 0))
            parts.append(_render_chars(node.text or "", [a for a in atoms if (a[0] == "char" and a[1] is None) or a[0] == "tokws"]))
            parts.append("".join(a[2] for a in atoms if a[0] == "tokpad" and a[1] == 1))
            parts.append("</%s%s>" % (name, close_end))
            return "".join(parts)
        gaps = {}
        n = len(node.kids)
        for a in atoms:
            if a[0] == "gap" and (n > 0 or node.tag == "mrow"):
                gaps.setdefault(min(a[1], n), []).append(_gap_item(a[2], a[3]))
        if n == 0 and not gaps:
            parts.append("/>")
            return "".join(parts)
        parts.append(">")
        for i, k in enumerate(node.kids):
            parts.append("".join(gaps.get(i, [])))
            parts.append(elem(k, path + (i,)))
        parts.append("".join(gaps.get(n, [])))
        parts.append("</%s%s>" % (name, close_end))
        return "".join(parts)

    return pre + elem(root, ()) + post


# ------------------------------------------------------------------------------------------------
# atom kinds (structural labels used in signatures and evidence)
# ------------------------------------------------------------------------------------------------
def ws_class(s):
    kinds = set()
    for c in s:
        kinds.add({" ": "sp", "\t": "tab", "\n": "nl", "\r": "cr"}.get(c, "other"))
    if kinds == {"cr", "nl"}:
        return "crlf"
    return "+".join(sorted(kinds)) or "none"


def char_class(seg):
    if len(seg) > 1:
        return "seq"
    c = seg
    if ord(c) > 127:
        return "U"
    if c.isalpha():
        return "L"
    if c.isdigit():
        return "D"
    return c


def atom_kind(atom, node):
    k = atom[0]
    if k == "gap":
        if atom[2] == "ws":
            return "ws[%s]" % ws_class(atom[3])
        return "%s[%s]" % (atom[2], atom[4])
    if k == "outer":
        cls = ws_class(atom[3]) if atom[2] == "ws" else atom[4]
        return "outer:%s[%s]:%s" % (atom[2], cls, "before" if atom[1] == 0 else "after")
    if k == "tagws":
        return "tagws:%s[%s]" % (atom[1], ws_class(atom[2]))
    if k == "mjx":
        nattr = len(real_attrs(node))
        pos = min(atom[1], nattr)
        poscls = "alone" if nattr == 0 else "first" if pos == 0 else "last" if pos == nattr else "middle"
        eq = atom[4] + atom[5]
        eqcls = "tight" if eq == "" else "spaced" if set(eq) <= {" "} else "ws-" + ws_class(eq)
        return "mjx[%s,%s,%s,%s]" % (atom[6], "dq" if atom[3] == '"' else "sq", eqcls, poscls)
    if k == "quote":
        v = dict(real_attrs(node)).get(atom[1], "")
        other = "'" if atom[2] == '"' else '"'
        return "quote[%s]%s" % ("dq" if atom[2] == '"' else "sq", "+inner-" + ("sq" if other == "'" else "dq") if other in v else "")
    if k == "char":
        where = "text" if atom[1] is None else "attr"
        if atom[4] == "named":
            return "char:named[%s]@%s" % (atom[5], where)
        return "char:%s[%s]@%s" % (atom[4], char_class(atom[6]), where)
    if k == "tokws":
        return "tokws[%s]@inner" % atom[4]
    if k == "tokpad":
        where = "empty" if not (node.text or "") else ("lead" if atom[1] == 0 else "trail")
        return "tokws[%s]@%s" % (atom[3], where)
    if k == "ns":
        pcls = "alpha" if re.fullmatch(r"[A-Za-z]+", atom[2]) else "nonalpha"
        return "ns:%s[%s]" % (atom[1], pcls)
    return k


def _abstract(s):
    return re.sub(r"\d", "9", s)[:48]


def residue(tree):
    """what is left of the expression in a minimal witness besides the canonical identifier <mi>x</mi>: token texts and attribute
    values (digits abstracted).  After shrinking, whatever is listed here was needed for the failure."""
    items = set()
    for n, _ in tree.walk():
        if n.kids is None and not (n.tag == "mi" and n.text == "x"):
            items.add("%s:%s" % (n.tag, _abstract(n.text or "")))
        for k, v in real_attrs(n):
            items.add("@%s=%s" % (k, _abstract(v)))
    return sorted(items)


def kinds_of(tree):
    out = []
    for n, _ in tree.walk():
        for a in get_marks(n):
            out.append(atom_kind(a, n))
    return out


# ------------------------------------------------------------------------------------------------
# pools
# ------------------------------------------------------------------------------------------------
WS_POOL = [" ", "  ", "\n", "\n  ", "\t", "\r\n", " \n\t ", "\n\n", "\r", "      "]
WS_TAG_POOL = [" ", "  ", "\n", "\t", "\r\n", " \n "]
COMMENTS = {
    "plain": [" a comment ", "", "TODO", " x + 1 ", " - ", "\n multi\n line \n", " é ∑ 𝔄 "],
    "markup": [" <mi>y</mi> ", "<mo>+</mo><mn>3</mn>", " </mrow> ", "<![CDATA[ x ]]>", " <math> ", "<mtext>", " <!- - "],
    "prefix": [" <m:mi>q</m:mi> ", "</mml:mrow>", " <a:b/> ", " a:b "],
    "nsdecl": [" xmlns:q='urn:q' ", " xmlns:m "],
    "mjx": [' class="MJX-x" ', " class='data-mjx-a' ", ' <mi class="MJX-TeXAtom-ORD">y</mi> '],
    "entity": [" &alpha; &amp; &lt; ", "&InvisibleTimes;", " &gt;&quot; ", "&#x3b1; &#945;"],
    "amp": [" a & b ", " && ", "&;", "&#;", " & x; ", " a &1; "],
}
ADV_COMMENTS = {"unknown-entity-like": [" &foo; ", "&nosuchentity;", " if (a &b; c) ", " &Alpha1; "]}
PIS = {
    "plain": ["pi", "target data", "xml-stylesheet href='a.css' type=\"text/css\"", "php echo 1; ", "x ", "p ?", "p > <"],
    "markup": ["t <mi>y</mi>", "t </mrow>"],
    "prefix": ["t m:pi x", "t <m:mi>", "ab c:d"],       # the target itself has no colon (Namespaces in XML forbids it)
    "nsdecl": ["t xmlns:q", "t xmlns:m='urn:m'"],
    "mjx": ["t class=\"MJX-x\""],
    "entity": ["t &alpha;", "t &amp;&lt;"],
    "amp": ["t a & b"],
}
ADV_PIS = {"unknown-entity-like": ["t &foo;", "t a &b; c"]}
MJX_V2 = ["MJX-TeXAtom-ORD", "MJX-TeXAtom-OP", "MJX-TeXAtom-REL", "MJX-variant", "MJX-tex-caligraphic", "MJX-tex-mathit", "MJX-fixedlimits",
          "MJX-TeXAtom-ORD MJX-variant", "MJX-tex-oldstyle MJX-TeXAtom-ORD", "MJX-"]
MJX_V3 = ["data-mjx-texclass-ORD", "data-mjx-variant", "data-mjx-alternate", "data-mjx-pseudoscript", "data-mjx-"]
MJX_EQ = [("", ""), ("", ""), (" ", " "), ("", " "), (" ", ""), ("  ", "  ")]
ADV_MJX_EQ = [("\n", ""), ("", "\t"), ("\n", "\n"), (" \t", " ")]
PREFIXES = ["m", "mml", "math", "M", "MathML", "mathml", "x"]
ADV_PREFIXES = ["m1", "mml-2", "m_l", "m.l", "_m", "mm2l"]


# ------------------------------------------------------------------------------------------------
# adding atoms
# ------------------------------------------------------------------------------------------------
def _containers(tree):
    return [(n, p) for n, p in tree.walk() if n.kids is not None and (len(n.kids) > 0 or n.tag == "mrow")]


def add_ws(tree, rng, density=None):
    density = density if density is not None else rng.choice([0.2, 0.5, 1.0])
    for n, p in _containers(tree):
        for slot in range(len(n.kids) + 1):
            if rng.random() < density:
                add_mark(n, ["gap", slot, "ws", rng.choice(WS_POOL), ""])
    if rng.random() < 0.5:
        add_mark(tree, ["outer", rng.choice([0, 1]), "ws", rng.choice(WS_POOL), ""])
    return tree


def add_tagws(tree, rng, count=None):
    nodes = list(tree.walk())
    for _ in range(count or rng.randint(1, 5)):
        n, p = rng.choice(nodes)
        attrs = real_attrs(n)
        opts = ["open-end", "close-end"] if (n.kids is None or n.kids) else ["open-end"]
        if attrs:
            opts += ["attr-sep", "eq-l", "eq-r", "attr-sep", "eq-l", "eq-r"]
        w = rng.choice(opts)
        a = rng.choice(attrs)[0] if w in ("attr-sep", "eq-l", "eq-r") else None
        add_mark(n, ["tagws", w, rng.choice(WS_TAG_POOL), a])
    return tree


def _pick_payload(pool, rng):
    cls = rng.choice(sorted(pool))
    return cls, rng.choice(pool[cls])


def add_comments(tree, rng, count=None, adversarial=False):
    conts = _containers(tree)
    for _ in range(count or rng.randint(1, 4)):
        kind = "comment" if rng.random() < 0.65 else "pi"
        pool = (ADV_COMMENTS if kind == "comment" else ADV_PIS) if adversarial else (COMMENTS if kind == "comment" else PIS)
        cls, payload = _pick_payload(pool, rng)
        if rng.random() < 0.15 or not conts:
            add_mark(tree, ["outer", rng.choice([0, 1]), kind, payload, cls])
        else:
            n, p = rng.choice(conts)
            add_mark(n, ["gap", rng.randint(0, len(n.kids)), kind, payload, cls])
        if adversarial:
            break
    return tree


def add_mjx(tree, rng, count=None, adversarial=False):
    nodes = [n for n, _ in tree.walk() if "class" not in n.attrs and not any(a[0] == "mjx" for a in get_marks(n))]
    rng.shuffle(nodes)
    # elements that carry other attributes are the interesting neighbours: take them first half of the time
    if rng.random() < 0.5:
        nodes.sort(key=lambda n: -len(real_attrs(n)))
    for n in nodes[:count or rng.randint(1, 4)]:
        v3 = rng.random() < 0.3
        val = rng.choice(MJX_V3 if v3 else MJX_V2)
        eql, eqr = rng.choice(ADV_MJX_EQ if adversarial else MJX_EQ)
        add_mark(n, ["mjx", rng.randint(0, len(real_attrs(n))), val, rng.choice(['"', "'"]), eql, eqr, "v3" if v3 else "v2"])
        if adversarial:
            break
    return tree


def add_quotes(tree, rng, p=None):
    p = p if p is not None else rng.choice([0.5, 1.0])
    for n, _ in tree.walk():
        for k, v in real_attrs(n):
            if rng.random() < p:
                add_mark(n, ["quote", k, '"'])
    return tree


def _char_sites(tree):
    """(node, attr or None, string) of every token text and attribute value"""
    out = []
    for n, _ in tree.walk():
        if n.kids is None and n.text:
            out.append((n, None, n.text))
        for k, v in real_attrs(n):
            if v:
                out.append((n, k, v))
    return out


def _char_atom(s, i, attr, rng, forms=None, strict=False):
    """one atom respelling the character (or 2-character entity expansion) at s[i]; None when nothing can be done"""
    inv = inverse_table()
    c = s[i]
    if c in XML_WS:
        return None         # white space inside tokens / attribute values is significant: not varied
    choices = []
    if s[i:i + 2] in inv and len(s[i:i + 2]) == 2:
        choices += [("named", 2)] * 3
    if c in inv:
        choices += [("named", 1)] * 3
    choices += [("dec", 1), ("hex", 1), ("HEX", 1)]
    if c in "\"'>":
        choices += [("raw", 1)] * 2
    if forms:
        choices = [ch for ch in choices if ch[0] in forms] or ([] if strict else choices)
    if not choices:
        return None
    form, ln = rng.choice(choices)
    seg = s[i:i + ln]
    name = rng.choice(inv[seg]) if form == "named" else None
    return ["char", attr, i, ln, form, name, seg]


def add_chars(tree, rng, count=None, everything=False, forms=None, strict=False):
    sites = _char_sites(tree)
    if not sites:
        return tree
    if everything:
        for n, attr, s in sites:
            i = 0
            while i < len(s):
                a = _char_atom(s, i, attr, rng, forms, strict)
                if a is not None:
                    add_mark(n, a)
                    i += a[3]
                else:
                    i += 1
        return tree
    inv = inverse_table()
    for _ in range(count or rng.randint(1, 6)):
        n, attr, s = rng.choice(sites)
        # prefer characters that have a name; sometimes a run of neighbours (adjacent references)
        idx = [i for i, c in enumerate(s) if c in inv] if rng.random() < 0.7 else []
        i = rng.choice(idx) if idx else rng.randrange(len(s))
        run = rng.choice([1, 1, 1, 2, 3, 8])
        j = i
        while j < len(s) and run > 0:
            a = _char_atom(s, j, attr, rng, forms)
            if a is None:
                j += 1
                continue
            add_mark(n, a)
            j += a[3]
            run -= 1
    return tree


# White space inside token elements: MathML trims it at both ends and collapses every inner run of space / tab / LF / CR to one blank
# (MathML 3, 2.1.7), so a run in any mix -- typed or written as a character reference / &Tab; / &NewLine; -- between two
# non-blank characters stands for one blank, and a run at either end of a token stands for nothing.
WS_TOKEN_TAGS = ("mi", "mn", "mo", "mtext", "ms")
WS_PIECES = {" ": [(" ", "raw"), (" ", "raw"), ("&#32;", "ref"), ("&#x20;", "ref")],
             "\t": [("\t", "raw"), ("\t", "raw"), ("&#9;", "ref"), ("&#x9;", "ref"), ("&Tab;", "named")],
             "\n": [("\n", "raw"), ("\n", "raw"), ("&#10;", "ref"), ("&#xA;", "ref"), ("&#x0000a;", "ref"), ("&NewLine;", "named")],
             "\r": [("\r", "raw"), ("&#13;", "ref"), ("&#xD;", "ref")]}


def ws_run(rng, lone_not_blank=False):
    """(rendered run, class label): 1-5 white-space characters in any mix and spelling; class = characters, length class, spelling class"""
    n = rng.choice([1, 1, 1, 1, 2, 2, 3, 5])
    chars = [rng.choice(" \t\n\r") for _ in range(n)]
    if n == 1 and lone_not_blank and chars[0] == " " and rng.random() < 0.7:
        chars = [rng.choice("\t\n\r")]
    pieces = [rng.choice(WS_PIECES[c]) for c in chars]
    forms = set(f for _, f in pieces)
    label = "%s,%s,%s" % (ws_class("".join(chars)), "1" if n == 1 else "n", forms.pop() if len(forms) == 1 else "mixed")
    return "".join(p for p, _ in pieces), label


def add_tokws(tree, rng, p=None):
    """respell inner white-space runs of tokens, pad tokens with leading / trailing white space"""
    p = p if p is not None else rng.choice([0.4, 0.8])
    for n, _ in tree.walk():
        if n.kids is not None or n.tag not in WS_TOKEN_TAGS:
            continue
        t = n.text or ""
        for m in re.finditer(r"[ \t\r\n]+", t):
            if m.start() == 0 or m.end() == len(t) or rng.random() >= p:
                continue
            run, label = ws_run(rng, lone_not_blank=True)
            if run != m.group(0):
                add_mark(n, ["tokws", m.start(), len(m.group(0)), run, label, m.group(0)])
        for side in (0, 1):
            if rng.random() < p * 0.35:
                run, label = ws_run(rng)
                add_mark(n, ["tokpad", side, run, label])
    return tree


def add_ns(tree, rng, adversarial=False):
    q = rng.choice(["'", '"'])
    pos = rng.choice([0, 0, 1])
    if adversarial:
        mode = rng.choice(["prefix", "foreign-before+prefix", "two-prefixes", "default+foreign", "foreign+default"])
        pfx = rng.choice(ADV_PREFIXES) if mode == "prefix" else rng.choice(PREFIXES[:3])
        pfx2 = rng.choice([p for p in PREFIXES[:3] if p != pfx]) if mode == "two-prefixes" else rng.choice(sorted(FOREIGN_NS))
    else:
        mode = rng.choice(["default", "prefix", "prefix", "prefix", "prefix+foreign-after"])
        pfx = rng.choice(PREFIXES)
        pfx2 = rng.choice(sorted(FOREIGN_NS))
    add_mark(tree, ["ns", mode, pfx, pfx2, q, pos])
    return tree


FAMILIES = ["ns", "ws", "tagws", "tokws", "comment", "mjx", "quote", "char", "char-all", "char-raw", "mixed"]
ADV_FAMILIES = ["adv-ns", "adv-comment", "adv-mjx"]


def make_variant(tree, family, rng):
    """marked copy of the (unmarked) tree for one family"""
    t = strip_marks(tree)
    if family == "ns":
        add_ns(t, rng)
    elif family == "ws":
        add_ws(t, rng)
    elif family == "tagws":
        add_tagws(t, rng)
    elif family == "tokws":
        add_tokws(t, rng)
    elif family == "comment":
        add_comments(t, rng)
    elif family == "mjx":
        add_mjx(t, rng)
    elif family == "quote":
        add_quotes(t, rng)
    elif family == "char":
        add_chars(t, rng)
    elif family == "char-all":
        add_chars(t, rng, everything=True, forms=rng.choice([None, ("dec", "hex", "HEX"), ("named",)]))
    elif family == "char-raw":
        # every quote and greater-than sign written as the character itself wherever XML allows it (the way people type them)
        add_chars(t, rng, everything=True, forms=("raw",), strict=True)
        if rng.random() < 0.5:
            add_quotes(t, rng)
    elif family == "mixed":
        if rng.random() < 0.6:
            add_ns(t, rng)
        add_ws(t, rng, density=0.3)
        add_tagws(t, rng, count=2)
        add_tokws(t, rng, p=0.3)
        add_comments(t, rng, count=2)
        add_mjx(t, rng, count=2)
        add_quotes(t, rng, p=0.5)
        add_chars(t, rng, count=4)
    elif family == "outer":
        # comments / processing instructions only in front of and behind the outermost element
        for _ in range(rng.randint(1, 3)):
            kind = "comment" if rng.random() < 0.6 else "pi"
            cls, payload = _pick_payload(COMMENTS if kind == "comment" else PIS, rng)
            add_mark(t, ["outer", rng.choice([0, 1]), kind, payload, cls])
    elif family == "adv-ns":
        add_ns(t, rng, adversarial=True)
    elif family == "adv-comment":
        add_comments(t, rng, adversarial=True)
    elif family == "adv-mjx":
        add_mjx(t, rng, adversarial=True)
    else:
        raise ValueError(family)
    return t


# ------------------------------------------------------------------------------------------------
# hand-written tricky expressions: (name, tree).  One hazard per case; the name goes into the signature.
# ------------------------------------------------------------------------------------------------
def _a(node, **attrs):
    for k, v in attrs.items():
        node.attrs[k.rstrip("_").replace("_", "-")] = v
    return node


def _eq(*rhs):
    return math(mrow(mi("x"), mo("="), *rhs))


def tricky():
    T = []
    add = lambda name, tree: T.append((name, tree))
    # text that looks like a namespace prefix / declaration
    add("text-colon", _eq(mtext("a:b"), mi("c:d"), mtext("x:=y"), mtext("http://example.org/p:q")))
    add("text-prefixed-tag", _eq(mtext("<m:mi>q</m:mi>"), mtext("</mml:mrow>")))
    add("text-xmlns-decl", _eq(mtext("xmlns:foo")))
    add("text-xmlns-decl-quoted", _eq(mtext("set xmlns:m='u' here")))
    add("attr-colon", _eq(_a(mi("y"), data_x="a:b", href="http://example.org/a:b"), _a(mn("2"), data_y="<m:mi>")))
    add("attr-xmlns-decl", _eq(_a(mi("y"), data_x="xmlns:a"), mn("2")))
    # text that looks like a MathJax class attribute
    add("text-mjx-class-dq", _eq(mtext('class="MJX-x"')))
    add("text-mjx-class-sq", _eq(mtext("class='MJX-TeXAtom-ORD'"), mi("y")))
    add("text-mjx3-class", _eq(mtext('the class = "data-mjx-texclass" one')))
    add("text-class-other", _eq(mtext("class='big'"), mtext("class=foo"), mtext('class="mjx-x"'), mtext("MJX-TeXAtom-ORD")))
    add("attr-name-ends-with-class", _eq(_a(mi("y"), data_class="MJX-a"), mn("2")))
    add("attr-class-other", _eq(_a(mi("y"), class_="big MJX-like"), _a(mn("2"), class_="mjx-x"), _a(mi("z"), data_c="class=MJX-")))
    add("attr-value-like-mjx-class", _eq(_a(mi("y"), title="class='MJX-a'"), mn("2")))
    # ampersands and less-than signs which must stay escaped
    add("text-amp", _eq(mtext("a & b"), mtext("AT&T"), mo("&"), mtext("&&")))
    add("text-amp-entity-like", _eq(mtext("&alpha;"), mtext("&amp;"), mtext("&#x3b1;"), mtext("&lt;"), mtext("a&b;c")))
    add("text-lt", _eq(mn("1"), mo("<"), mn("2"), mo(">"), mn("0"), mtext("a<b>c"), mtext("]]>")))
    add("text-markup-like", _eq(mtext("<mi>x</mi>"), mtext("<!-- c -->"), mtext("<?pi?>"), mtext("<![CDATA[x]]>")))
    add("attr-amp-lt", _eq(_a(mi("y"), data_x="a & b < c > d", title="&alpha; &amp; \"q\" 'r'")))
    # adjacent references, multi-character expansions, names with digits
    add("adjacent-greek", _eq(mi("αβγ"), mtext("≠≤≥∑∏"), mo("∘∘")))
    add("invisible-ops", math(mrow(mn("2"), mo("\u2062"), mi("x"), mo("+"), mi("f"), mo("\u2061"), mrow(mo("("), mi("y"), mo(")")),
                                   mo("+"), mn("3"), mo("\u2064"), N("mfrac", [mn("1"), mn("2")]), mo("+"), N("msub", [mi("a"), mrow(mi("i"), mo("\u2063"), mi("j"))]))))
    add("digit-names", _eq(mn("½"), mo("+"), N("msup", [mi("y"), mo("²")]), mtext("∴¼¾³¹"), mtext("▒░▓")))
    add("multi-char-expansions", _eq(mo("\u2242\u0338"), mo("\u2267\u0338"), mtext("fj"), mo("\u223d\u0331"), mo("<\u20d2"), mo(">\u20d2"), mo("=\u20e5")))
    add("ascii-with-names", _eq(mtext("a+b=c, (d) [e] {f} |g| 50% #1 x_y a.b! ?*/\\^`~@$;"), mo("("), mi("y"), mo(")")))
    add("spaces-non-xml", _eq(mtext("a\u00a0b\u2003c\u2009d\u200ae\u205ff"), mo("\u2061"), mtext("\u00a0"), mtext("g\u200bh\u2060i")))
    add("astral", _eq(mi("𝔄"), mi("𝕏"), mi("𝒜"), mi("𝓏"), mi("𝔸𝔹")))
    add("combining", _eq(N("mover", [mi("x"), mo("\u0311")]), N("mover", [mi("y"), mo("\u20db")]), mtext("e\u0301"), N("mover", [mi("z"), mo("\u20dc")])))
    # white space inside tokens (trimmed at the ends, inner runs collapse to one blank)
    add("token-whitespace", math(mrow(mi("x"), mo(">"), mn("0"), mtext("for all"), mi("n"), mtext("such that it holds"), mn("1 000"),
                                      N("ms", text="a b c"), mi("sin"), mo("\u2061"), mi("y"))))
    add("token-whitespace-empty", math(mrow(mtext(""), mi("x"), mo("+"), mtext("a b"), mi(""), mn("2"))))
    # quoting
    add("quotes-in-attr", math(_a(N("mfenced", [mi("x"), mi("y")]), open="'", close='"', separators=";"), mo("+"),
                               _a(mi("z"), title="it's", data_q='say "hi"')))
    add("quotes-in-text", _eq(mtext("it's"), mtext('say "hi"'), mo("'"), mo('"')))
    add("attr-gt", _eq(_a(mi("y"), data_x="a>b", title="x -> y"), mtext("a > b")))
    # neighbours of a MathJax class attribute
    add("many-attrs", math(_a(mrow(_a(mi("x"), mathvariant="bold", data_foo="bar", id="author-1"), _a(mo("+"), form="infix", stretchy="false", lspace="0"),
                                   _a(mn("1"), mathvariant="normal", title="class", data_bar='q')), data_row="r", id="row")))
    add("fenced-attrs", math(_a(N("mfenced", [mi("a"), mi("b"), mi("c")]), open="⟨", close="⟩", separators=";,"), mo("="),
                             _a(N("mfrac", [mn("1"), mn("2")]), linethickness="0", bevelled="false")))
    # structure
    add("empty-mrow", math(mrow(mi("x"), mo("+"), N("mrow", []), mn("1")), N("msub", [mi("y"), N("mrow", [])])))
    add("table", math(N("mtable", [N("mtr", [N("mtd", [mi("a")]), N("mtd", [mn("1")])]), N("mlabeledtr", [N("mtd", [mtext("(1)")]), N("mtd", [mi("b")]), N("mtd", [mn("2")])])])))
    add("semantics", math(N("semantics", [mrow(mi("x"), mo("+"), mn("1")), _a(N("annotation", text="x+1"), encoding="application/x-tex"),
                                           _a(N("annotation-xml", [N("apply", [N("plus", []), N("ci", text="x"), N("cn", text="1")])]), encoding="MathML-Content")])))
    add("scripts", math(N("mmultiscripts", [mi("C"), mn("1"), N("none"), N("mprescripts"), N("none"), mn("14")]), mo("+"),
                        N("munderover", [mo("∑"), mrow(mi("i"), mo("="), mn("1")), mi("n")]), N("msup", [mi("i"), mn("2")])))
    add("deep", math(N("msqrt", [N("mfrac", [mrow(mo("-"), mi("b"), mo("\u00b1"), N("msqrt", [mrow(N("msup", [mi("b"), mn("2")]), mo("-"), mn("4"), mo("\u2062"), mi("a"), mo("\u2062"), mi("c"))])),
                                             mrow(mn("2"), mo("\u2062"), mi("a"))])])))
    add("mathjax-v2-shape", math(_a(N("mstyle", [mrow(mi("x"), N("mrow", [mo("+")]), N("msup", [mi("e"), N("mrow", [mo("-"), mi("t")])]))]), displaystyle="true")))
    return T
