"""C10 helper: schedules.  N scripts run on N threads of one driver process released together by a barrier (driver --parallel), natively
and under ThreadSanitizer.  Oracle: every thread's result log equals the log of the same script run alone in its own process
(sequential model), and ThreadSanitizer reports nothing."""
import json
import os
import random
import re
import shutil
import subprocess
import threading
import time

from . import core

PROP = "C10"
ID_RX = re.compile(r"\bM[0-9a-z]{7}-([0-9]+)")
HASH_RX = re.compile(r"::h[0-9a-f]{16}\b")


def workdir():
    d = os.path.join(core.WORK, PROP)
    os.makedirs(d, exist_ok=True)
    return d


def cleanup():
    """every run removes its own sub-directories after use; the common parent goes when it is empty (other runs may be using it)"""
    try:
        os.rmdir(os.path.join(core.WORK, PROP))
    except OSError:
        pass


def build_all(flavours):
    """build the driver flavours side by side (separate target directories and locks); returns {flavour: error text}"""
    errors = {}

    def one(fl):
        try:
            core.build_driver(fl)
        except core.Inconclusive as e:
            errors[fl] = str(e)
        except Exception as e:              # noqa: BLE001 — a failed build is reported, never raised from a thread
            errors[fl] = repr(e)

    ts = [threading.Thread(target=one, args=(fl,)) for fl in flavours]
    for t in ts:
        t.start()
    for t in ts:
        t.join()
    return errors


# --------------------------------------------------------------------------------------------
# scripts
# --------------------------------------------------------------------------------------------
def make_scripts(seed, threads, nops):
    """one op list per thread: concatenated C10 histories (different preferences and expressions per thread), a `loaded_files` probe now and
    then, and a nested fresh session now and then (thread creation while the others work)"""
    from . import c10
    ctx = c10.Ctx()
    pool = c10.build_pool(random.Random(core.sub_seed(seed, "pool")))
    scripts = []
    for t in range(threads):
        rng = random.Random(core.sub_seed(seed, "script", t))
        ops = [["set_rules_dir", core.RULES]]
        while len(ops) < nops:
            for op in c10.gen_history(rng, ctx, pool, use_auto=False):
                ops.append(op)
                if op[0] in ("get_spoken_text", "get_braille") and rng.random() < 0.15:
                    ops.append(["loaded_files"])
                if rng.random() < 0.02:
                    lang = rng.choice(ctx.real_langs)
                    ops.append(["fresh", [["set_rules_dir", core.RULES], ["set_preference", "Language", lang], ["set_mathml", rng.choice(pool)],
                                          ["get_spoken_text"], ["get_braille", ""]]])
                if len(ops) >= nops:
                    break
        scripts.append(ops)
    return scripts


def to_line(op):
    if op[0] in ("fresh", "batch"):
        return json.dumps({"op": op[0], "a": [{"op": o[0], "a": list(o[1:])} for o in op[1]]}, ensure_ascii=True)
    return json.dumps({"op": op[0], "a": list(op[1:])}, ensure_ascii=True)


def normalise(obj):
    """a result line without timings and without the random id prefix"""
    if isinstance(obj, dict):
        return {k: normalise(v) for k, v in obj.items() if k != "us"}
    if isinstance(obj, list):
        return [normalise(v) for v in obj]
    if isinstance(obj, str):
        return ID_RX.sub(r"ID-\1", obj)
    return obj


def read_log(path):
    out = []
    try:
        with open(path, encoding="utf-8", errors="surrogateescape") as f:
            for line in f:
                line = line.strip()
                if line:
                    try:
                        out.append(normalise(json.loads(line)))
                    except ValueError:
                        out.append({"unparsable": line[:200]})
    except OSError:
        return None
    return out


def driver_env(flavour):
    extra = {"MCDRIVER_STACK_KB": "16384"}
    if flavour == "tsan":
        extra["TSAN_OPTIONS"] = "exitcode=66 halt_on_error=0 second_deadlock_stack=1"
    return core.clean_env(extra)


def run_together(flavour, scripts, tag, timeout):
    """returns (returncode or None on timeout, stderr text, [log per script])"""
    d = os.path.join(workdir(), tag)
    shutil.rmtree(d, ignore_errors=True)
    os.makedirs(d)
    files = []
    for i, ops in enumerate(scripts):
        p = os.path.join(d, "script.%d" % i)
        with open(p, "w") as f:
            f.write("\n".join(to_line(op) for op in ops) + "\n")
        files.append(p)
    prefix = os.path.join(d, "out")
    errp = os.path.join(d, "stderr")
    with open(errp, "wb") as ef:
        try:
            rc = subprocess.run([core.driver_path(flavour), "--parallel", prefix] + files, env=driver_env(flavour),
                                stdout=subprocess.DEVNULL, stderr=ef, timeout=timeout).returncode
        except subprocess.TimeoutExpired:
            rc = None
    with open(errp, "rb") as ef:
        err = ef.read().decode("utf-8", "replace")
    logs = [read_log("%s.%d" % (prefix, i)) for i in range(len(scripts))]
    shutil.rmtree(d, ignore_errors=True)
    return rc, err, logs


def run_alone(scripts, tag, timeout, flavour="native"):
    """each script in its own process (one thread each), all processes at once; returns [log or None]"""
    d = os.path.join(workdir(), tag)
    shutil.rmtree(d, ignore_errors=True)
    os.makedirs(d)
    procs = []
    for i, ops in enumerate(scripts):
        p = os.path.join(d, "script.%d" % i)
        with open(p, "w") as f:
            f.write("\n".join(to_line(op) for op in ops) + "\n")
        procs.append(subprocess.Popen([core.driver_path(flavour), "--parallel", os.path.join(d, "alone%d" % i), p], env=driver_env(flavour),
                                      stdout=subprocess.DEVNULL, stderr=subprocess.DEVNULL))
    deadline = time.time() + timeout
    logs = []
    for i, p in enumerate(procs):
        try:
            p.wait(timeout=max(1, deadline - time.time()))
            logs.append(read_log(os.path.join(d, "alone%d.0" % i)) if p.returncode == 0 else None)
        except subprocess.TimeoutExpired:
            p.kill()
            p.wait()
            logs.append(None)
    shutil.rmtree(d, ignore_errors=True)
    return logs


def tsan_reports(err):
    """distinct (report type, function) pairs of the ThreadSanitizer summaries (no addresses, no line numbers)"""
    out = []
    for m in re.finditer(r"SUMMARY: ThreadSanitizer: ([a-z A-Z\-()]+?) (?:\S+) in (.+)", err):
        fn = HASH_RX.sub("", m.group(2).strip())
        fn = re.sub(r"0x[0-9a-f]+", "ADDR", fn)
        pair = (m.group(1).strip(), fn)
        if pair not in out:
            out.append(pair)
    if not out and "WARNING: ThreadSanitizer" in err:
        m = re.search(r"WARNING: ThreadSanitizer: ([^(\n]+)", err)
        out.append((m.group(1).strip() if m else "report", "?"))
    return out


def first_difference(a, b):
    n = min(len(a), len(b))
    for i in range(n):
        if a[i] != b[i]:
            return i
    return n if len(a) != len(b) else None


def diff_field(x, y):
    if not isinstance(x, dict) or not isinstance(y, dict):
        return "line"
    for k in ("r", "v", "e", "p"):
        if x.get(k) != y.get(k):
            return {"r": "status", "v": "value", "e": "error-text", "p": "panic"}[k]
    return "line"


def compare(scripts, logs, alone, flavour, st):
    """returns a list of (thread, op index, signature, detail)"""
    out = []
    for i, (ops, got, want) in enumerate(zip(scripts, logs, alone)):
        if want is None or got is None:
            st.count("parallel_logs_missing")
            st.inconclusive += 1
            continue
        st.count("parallel_%s_logs_compared" % flavour)
        st.evaluations += 1
        j = first_difference(got, want)
        if j is None:
            st.count("parallel_%s_logs_equal" % flavour)
            continue
        op = ops[j] if j < len(ops) else ["<end>"]
        g = got[j] if j < len(got) else {"missing": True}
        w = want[j] if j < len(want) else {"missing": True}
        sig = "parallel-log-differs:%s | %s | %s" % (flavour, op[0], diff_field(g, w))
        out.append((i, j, sig, "thread %d op %d %s: with %d other threads %s | alone %s" % (
            i, j, json.dumps(op, ensure_ascii=False)[:300], len(scripts) - 1, json.dumps(g, ensure_ascii=False)[:500], json.dumps(w, ensure_ascii=False)[:500])))
    return out


def shrink_parallel(scripts, thread, flavour, timeout):
    """smaller witness for a log difference: the failing thread cut after the differing op plus ONE other thread, if that still differs"""
    if flavour != "native":
        return scripts
    quiet = core.Stats()
    for other in range(len(scripts)):
        if other == thread:
            continue
        pair = [scripts[thread], scripts[other]]
        rc, err, logs = run_together("native", pair, "shrink", timeout)
        alone = run_alone(pair, "shrink-alone", timeout)
        if rc == 0 and compare(pair, logs, alone, "native", quiet):
            return pair
    return scripts


def parallel_shard(spec):
    st = core.Stats()
    flavour = spec["flavour"]
    deadline = time.time() + spec["time_budget"]
    for rnd in range(spec["rounds"]):
        if rnd > 0 and time.time() > deadline:
            st.count("parallel_%s_stopped_by_time_budget" % flavour)
            break
        seed = core.sub_seed(spec["seed"], "round", rnd)
        scripts = make_scripts(seed, spec["threads"], spec["ops"])
        tag = "%s-%d-%d" % (flavour, os.getpid(), rnd)
        alone = run_alone(scripts, tag + "-alone", spec["timeout"])
        t1 = time.time()
        rc, err, logs = run_together(flavour, scripts, tag, spec["timeout"])
        st.count("%s_wall_ms" % ("tsan" if flavour == "tsan" else "parallel_native"), int((time.time() - t1) * 1000))
        nops = sum(len(s) for s in scripts)
        if rc is None:
            st.count("parallel_%s_timeouts" % flavour)
            st.inconclusive += 1
            continue
        if flavour == "tsan":
            st.count("tsan_runs_completed")
            st.count("tsan_threads", len(scripts))
            st.count("tsan_operations", nops)
            reports = tsan_reports(err)
            st.count("tsan_reports", len(reports))
            for typ, fn in reports[:6]:
                st.violations.append(core.violation("tsan-report", "tsan:%s:%s" % (typ, fn), {"mode": "parallel", "flavour": "tsan", "scripts": scripts},
                                                    "ThreadSanitizer: %s in %s (exit status %s)\n%s" % (typ, fn, rc, err[:3000])))
            if rc not in (0, 66) and not reports:
                st.count("tsan_abnormal_exit")
                st.inconclusive += 1
                st.notes.append("tsan driver exit status %s: %s" % (rc, err[-500:]))
                continue
        else:
            if rc != 0:
                st.count("parallel_native_abnormal_exit")
                st.inconclusive += 1
                st.notes.append("native parallel driver exit status %s: %s" % (rc, err[-500:]))
                continue
            st.count("parallel_native_runs_completed")
            st.count("parallel_native_threads", len(scripts))
            st.count("parallel_native_operations", nops)
        diffs = compare(scripts, logs, alone, flavour, st)
        seen = set()
        for (i, j, sig, detail) in diffs:
            st.count("raw_violations_parallel_log_differs")
            if sig in seen:
                continue
            seen.add(sig)
            wit = shrink_parallel([s if k != i else s[:j + 1] for k, s in enumerate(scripts)], i, flavour, spec["timeout"]) if len(seen) <= 2 else scripts
            st.violations.append(core.violation("parallel-log-differs", sig, {"mode": "parallel", "flavour": flavour, "scripts": wit}, detail))
        if rnd == 0 and not diffs:
            st.sample({"schedule": "%d threads x ~%d operations released on a barrier (%s build); every thread's log equal to its single-threaded log" % (
                len(scripts), spec["ops"], flavour), "first_ops_of_thread_0": [" ".join(str(a)[:50] for a in op) for op in scripts[0][1:7]]}, limit=1)
    return st.to_dict()


def replay(witness):
    flavour = witness.get("flavour", "native")
    errs = build_all(sorted({"native", flavour}))
    if errs:
        raise core.Inconclusive("driver build failed: %s" % errs)
    scripts = witness["scripts"]
    st = core.Stats()
    out = []
    try:
        alone = run_alone(scripts, "replay-alone", 600)
        rc, err, logs = run_together(flavour, scripts, "replay", 1500)
        if rc is None:
            return []
        if flavour == "tsan":
            for typ, fn in tsan_reports(err)[:6]:
                out.append(core.violation("tsan-report", "tsan:%s:%s" % (typ, fn), witness, "ThreadSanitizer: %s in %s\n%s" % (typ, fn, err[:3000])))
        for (i, j, sig, detail) in compare(scripts, logs, alone, flavour, st):
            out.append(core.violation("parallel-log-differs", sig, witness, detail))
    finally:
        cleanup()
    return out
