"""Shared by C06 (braille renders every operand) and C07 (braille alphabet): what the published braille codes say about digits, which
braille codes / preferences ship in the tree, driver sessions per braille configuration, the characters each code defines.
Nothing here is taken from MathCAT's source code: the digit cells are the published ones (Nemeth Code 1972 §II, Rules of UEB §6,
Código Matemático Unificado cap. 2, Vietnamese/Swedish national codes), cross-checked ONCE against the transcriptions in
/repo/tests/braille/<Code>/*.rs (every decimal number in a test input occurs as this cell run in the expected string:
Nemeth 17/17, UEB 9/9, CMU 8/8 by role, Vietnam 19/19 by role, Swedish 17/17)."""
import os
import re

from . import configs, core, gen

UPPER = "⠚⠁⠃⠉⠙⠑⠋⠛⠓⠊"      # digits 0..9 in the upper part of the cell (letters j, a..i), used after the numeric indicator
LOWER = "⠴⠂⠆⠒⠲⠢⠖⠶⠦⠔"      # digits 0..9 dropped to the lower part of the cell (Nemeth digits; "drop numbers" of other codes)

# the separator settings the repository's braille tests use next to the language defaults (tests/braille: test_braille_prefs)
DECIMAL_COMMA = {"DecimalSeparators": ",", "BlockSeparators": ". "}
DECIMAL_POINT = {"DecimalSeparators": ".", "BlockSeparators": ", "}
SEPARATOR_PREFS = ("DecimalSeparators", "BlockSeparators")

# kind: 'cell' (output must be braille cells) or 'text' (LaTeX / ASCIIMath source text)
# langs: the language the repository's tests pair with the code (tests/common/mod.rs test_braille), plus the code's home language
# marks: decimal mark character -> cell of the DECIMAL SIGN in that code (the session writes numbers with its own mark; CMU and Vietnam
#        write dot 2 for the decimal sign whatever the print character, UEB and Swedish follow print: comma dot 2, point dots 256 / dot 3)
# dropped: the published code also writes numbers in the lower part of the cell in some positions (CMU, Swedish: the denominator of a
#          numeric fraction and the divisor after an inline slash; Vietnam with UseDropNumbers): the oracle DECODES that form too, i.e. a
#          literal counts as rendered when its run occurs in upper OR in dropped digits (never when it is absent or incomplete)
# variants: code specific preferences under which the operand oracle applies
# alphabet_only: preference sets exercised by C07 only (none at present: drop numbers are decoded by the operand oracle)
CODES = {
    "Nemeth": {"kind": "cell", "langs": ["en"], "digits": LOWER, "marks": {".": "⠨"}, "dropped": False, "variants": [{}], "alphabet_only": []},
    "UEB": {"kind": "cell", "langs": ["en"], "digits": UPPER, "marks": {".": "⠲", ",": "⠂"}, "dropped": False,
            "variants": [{}, {"UEB_START_MODE": "Grade1"}, {"UEB_UseSpacesAroundAllOperators": "true"},
                         {"UEB_START_MODE": "Grade1", "UEB_UseSpacesAroundAllOperators": "true"}, DECIMAL_COMMA], "alphabet_only": []},
    "CMU": {"kind": "cell", "langs": ["es"], "digits": UPPER, "marks": {",": "⠂", ".": "⠂"}, "dropped": True,
            "variants": [{}, DECIMAL_POINT], "alphabet_only": []},
    "Vietnam": {"kind": "cell", "langs": ["vi", "en"], "digits": UPPER, "marks": {",": "⠂"}, "dropped": True,
                "variants": [{"Vietnam_UseDropNumbers": "false"}, {"Vietnam_UseDropNumbers": "true"}], "alphabet_only": []},
    "Swedish": {"kind": "cell", "langs": ["en", "sv"], "digits": UPPER, "marks": {",": "⠂", ".": "⠄"}, "dropped": True,
                "variants": [{}, {"UseSpacesAroundAllOperators": "true"}], "alphabet_only": []},
    "LaTeX": {"kind": "text", "langs": ["en"], "variants": [{"LaTeX_UseShortName": "false"}, {"LaTeX_UseShortName": "true"},
                                                            dict(DECIMAL_COMMA, LaTeX_UseShortName="true")], "alphabet_only": []},
    "ASCIIMath": {"kind": "text", "langs": ["en"], "variants": [{}, DECIMAL_COMMA], "alphabet_only": []},
    "ASCIIMath-fi": {"kind": "text", "langs": ["en"], "variants": [{}], "alphabet_only": []},
}

# planted literals: decimals NN<mark>DD and whole numbers of three or four digits (all ten digits occur, 0 included)
LITERAL_RX = re.compile(r"\d\d[.,]\d\d|[1-9]\d{2,3}")
DECIMAL_RX = re.compile(r"\d\d[.,]\d\d")

# every code-specific preference with its default, so that a session that SWITCHES configuration sets all of them explicitly
DEFAULT_EXTRAS = {"UEB_START_MODE": "Grade2", "UEB_UseSpacesAroundAllOperators": "false", "UseSpacesAroundAllOperators": "false",
                  "Vietnam_UseDropNumbers": "false", "LaTeX_UseShortName": "false"}


def shipped_codes():
    """braille codes present in the tree for which a published digit table is recorded here (others are reported, not judged)"""
    have = configs.braille_codes()
    return [c for c in have if c in CODES], [c for c in have if c not in CODES]


def all_cfgs(operand_oracle=True):
    """every (code, language, code preference set) the workload visits.  operand_oracle=False adds the preference sets that are
    exercised for the alphabet only."""
    out = []
    known, _ = shipped_codes()
    for code in known:
        info = CODES[code]
        for lang in info["langs"]:
            if not os.path.isdir(os.path.join(core.RULES, "Languages", lang.split("-")[0])):
                continue
            for extra in info["variants"] + ([] if operand_oracle else info["alphabet_only"]):
                cfg = {"code": code, "lang": lang}
                if extra:
                    cfg["extra"] = dict(extra)
                out.append(cfg)
    return out


def prefs_for(cfg):
    p = {"TTS": "None", "Language": cfg["lang"], "BrailleCode": cfg["code"], "BrailleNavHighlight": cfg.get("highlight", "Off")}
    p.update(cfg.get("extra", {}))
    return p


def switch_ops(cfg):
    """operations that move a RUNNING session to this configuration: every code-specific preference is set (defaults included)"""
    p = {"Language": cfg["lang"], "BrailleCode": cfg["code"], "BrailleNavHighlight": cfg.get("highlight", "Off")}
    p.update(DEFAULT_EXTRAS)
    p.update({k: v for k, v in cfg.get("extra", {}).items() if k not in SEPARATOR_PREFS})
    return [("set_preference", k, v) for k, v in p.items()]


class NumberBook(gen.Textbook):
    """The shared textbook grammar with (a) whole-number literals next to the decimal ones, drawn so that all ten digits occur in every
    operand position, and (b) the purely numeric shapes for which braille codes have forms of their own: numeric fractions, inline
    'number / number' rows of exactly three children, mixed numbers, negative numerators, numeric scripts and indices."""

    CONSTRUCTS = gen.Textbook.CONSTRUCTS + ["numfrac", "slash3", "mixedint", "negslash", "numscript", "numroot", "numcell", "styled_neighbour"]
    P_WHOLE = 0.45
    P_STYLED = 0.12            # share of the planted literals (and of the identifiers) that carry a typeface
    STYLES = ["bold", "italic", "bold-italic", "double-struck", "sans-serif", "bold-sans-serif", "sans-serif-italic", "sans-serif-bold-italic",
              "monospace", "script", "bold-script", "fraktur", "bold-fraktur", "normal"]

    def literal(self):
        n = self.plain_literal()
        if self.rng.random() < self.P_STYLED:
            n.attrs["mathvariant"] = self.rng.choice(self.STYLES)
        return n

    def operand(self, depth):
        n = gen.Textbook.operand(self, depth)
        if n.kids is None and n.tag == "mi" and self.rng.random() < self.P_STYLED:
            n.attrs["mathvariant"] = self.rng.choice(self.STYLES)
        return n

    def styled_token(self):
        """a token with a typeface that is NOT a planted literal: identifier, short unplanted number, word"""
        r = self.rng
        k = r.random()
        if k < 0.35:
            n = gen.mi(r.choice(gen.VARS + gen.GREEK + list("ABRNZ")))
        elif k < 0.7:
            n = gen.mn(str(r.randint(0, 99)))
        elif k < 0.85:
            n = gen.mtext(r.choice(["and", "or", "if", "mod"]))
        else:
            n = gen.mi(r.choice(["AB", "xy", "Var", "max"]))
        n.attrs["mathvariant"] = r.choice(self.STYLES)
        return n

    def c_styled_neighbour(self, d):
        """a styled token next to plain literals: before / after, joined by an operator with or without space, or juxtaposed"""
        r = self.rng
        op = lambda: gen.mo(r.choice(gen.RELS + gen.ADDOPS + gen.MULOPS))
        kids = [self.styled_token(), op(), self.plain_literal()]
        if r.random() < 0.5:
            kids.reverse()
        if r.random() < 0.4:
            kids += [op(), self.plain_literal() if r.random() < 0.6 else self.styled_token()]
        if r.random() < 0.25:
            kids = [self.plain_literal(), op()] + kids
        return gen.mrow(*kids)

    def plain_literal(self):
        r = self.rng
        if r.random() < self.P_WHOLE:
            for _ in range(200):
                s = str(r.randint(100, 9999))
                # whole numbers are told apart by their digit run: none may be part of another one
                if any(s in u or u in s for u in self.used if isinstance(u, str)):
                    continue
                self.used.add(s)
                self.literals.append(s)
                return gen.mn(s)
            raise RuntimeError("literal space exhausted")
        for _ in range(200):
            whole = r.randint(10, 99)
            frac = r.randint(0, 99)
            if whole in self.used or frac in self.used or whole == frac:
                continue
            s = "%d%s%02d" % (whole, self.decimal, frac)
            self.used.add(whole)
            self.used.add(frac)
            self.literals.append(s)
            return gen.mn(s)
        raise RuntimeError("literal space exhausted")

    def whole(self):
        old, self.P_WHOLE = self.P_WHOLE, 1.0
        try:
            return self.literal()
        finally:
            self.P_WHOLE = old

    # the shared constructs that take their base from Textbook.base() get styled identifiers as well
    def base(self, d):
        n = gen.Textbook.base(self, d)
        if n.kids is None and n.tag == "mi" and self.rng.random() < self.P_STYLED:
            n.attrs["mathvariant"] = self.rng.choice(self.STYLES)
        return n

    def c_numfrac(self, d):
        a = {"bevelled": "true"} if self.rng.random() < 0.2 else {}
        n = gen.N("mfrac", [self.whole(), self.whole()])
        n.attrs = a
        return n

    def c_slash3(self, d):
        return gen.mrow(self.whole(), gen.mo(self.rng.choice(["/", "/", "÷", ":", "∶"])), self.whole())

    def c_negslash(self, d):
        return gen.mrow(gen.mrow(gen.mo(self.rng.choice(["-", "−"])), self.whole()), gen.mo(self.rng.choice(["/", "÷"])), self.whole())

    def c_mixedint(self, d):
        return gen.mrow(self.whole(), gen.N("mfrac", [self.whole(), self.whole()]))

    def c_numscript(self, d):
        r = self.rng
        base = gen.mi(r.choice(gen.VARS)) if r.random() < 0.7 else self.whole()
        kind = r.choice(["msub", "msup", "msubsup", "munder", "mover"])
        kids = [base, self.whole()] + ([self.whole()] if kind == "msubsup" else [])
        return gen.N(kind, kids)

    def c_numroot(self, d):
        r = self.rng
        if r.random() < 0.5:
            return gen.N("msqrt", [self.whole()])
        return gen.N("mroot", [self.operand(d + 1), self.whole()])

    def c_numcell(self, d):
        r = self.rng
        rows, cols = r.randint(1, 3), r.randint(1, 3)
        tab = gen.N("mtable", [gen.N("mtr", [gen.N("mtd", [self.literal()]) for _ in range(cols)]) for _ in range(rows)])
        o, c = r.choice([("(", ")"), ("[", "]"), ("|", "|")])
        return gen.mrow(gen.mo(o), tab, gen.mo(c))


def position_class(tree, path):
    """operand position class of the node at path: parent element and child index, for rows the operator in front of it"""
    chain = [tree]
    for i in path[:-1]:
        chain.append(chain[-1].kids[i])
    parent = chain[-1]
    idx = path[-1]
    if parent.tag in ("mrow", "math", "mtd", "msqrt", "mstyle", "mpadded", "menclose", "semantics", "mfenced"):
        if parent.tag == "mfenced":
            return "mfenced-item"
        prev = parent.kids[idx - 1] if idx > 0 else None
        gp = chain[-2].tag if len(chain) > 1 else "-"
        if prev is None:
            return "first-in-%s" % (parent.tag if parent.tag != "mrow" else "row-of-" + gp)
        if prev.kids is None and prev.tag == "mo":
            t = prev.text or ""
            return "after-op:%s" % (t if t in "/÷:∶-−+" and t else "other")
        return "after-" + prev.tag
    return "%s[%d]" % (parent.tag, idx)


def cfg_sig(cfg):
    parts = [cfg["code"]]
    home = CODES.get(cfg["code"], {}).get("langs", ["en"])[0]
    if cfg["lang"] != home:
        parts.append("lang=" + cfg["lang"])
    for k, v in sorted(cfg.get("extra", {}).items()):
        if k == "DecimalSeparators":
            parts.append("decimal=" + {",": "comma", ".": "point"}.get(v, "other"))
        elif k != "BlockSeparators":
            parts.append("%s=%s" % (k, v))
    return ",".join(parts)


class Session:
    """a driver configured for one braille configuration; restarted transparently when it dies"""

    def __init__(self, cfg):
        self.cfg = cfg
        self.d = None
        self.decimal = "."
        self.restarts = 0
        self.unicode_files = None

    def ensure(self):
        if self.d is None or not self.d.alive():
            if self.d is not None:
                self.d.close()
                self.restarts += 1
            self.d = core.Driver("native")
            self.d.init(prefs_for(self.cfg))
            r = self.d.call("get_preference", "DecimalSeparators")
            self.decimal = (r.get("v") or ".")[0] if r["r"] == "ok" else "."
            if self.unicode_files is None:
                self.unicode_files = selected_unicode_files(self.d, self.cfg["code"])
        return self.d

    def defined(self):
        """characters the SELECTED code defines: keys of the Unicode files the library selects for this session (hook loaded_files)"""
        self.ensure()
        a, b = defined_chars(self.unicode_files)
        return a, b

    def defined_set(self):
        self.ensure()
        return defined_set(self.unicode_files)

    def batch(self, ops, timeout=None):
        """list of results, or None when the driver died / timed out (restarted on next use)"""
        try:
            return self.ensure().batch(ops, timeout=timeout)
        except (core.DriverDied, core.DriverTimeout) as e:
            self.last_failure = e
            self.close()
            return None

    def close(self):
        if self.d is not None:
            self.d.close()
            self.d = None

    def __enter__(self):
        return self

    def __exit__(self, *a):
        self.close()


# ---------------------------------------------------------------------------------------------
# cells
# ---------------------------------------------------------------------------------------------
def is_cell(ch):
    return 0x2800 <= ord(ch) <= 0x28FF


def has_dots78(ch):
    return is_cell(ch) and (ord(ch) & 0xC0) != 0


def mask_highlight(s):
    """clear dots 7 and 8 of every braille cell"""
    return "".join(chr(ord(c) & ~0xC0) if is_cell(c) else c for c in s)


def literal_cells(code, lit, dropped=False):
    """cell run of a literal in a cell code (dropped=True: in lower-cell digits), or None when the published table has no cell for its
    decimal mark; for a text code the literal itself"""
    info = CODES[code]
    if info["kind"] == "text":
        return lit
    digits = LOWER if dropped else info["digits"]
    out = []
    for c in lit:
        if c.isdigit():
            out.append(digits[int(c)])
        elif c in info["marks"]:
            out.append(info["marks"][c])
        else:
            return None
    return "".join(out)


def fold_digits(s):
    """mathematical (bold, double-struck, sans-serif, monospace ...) digits -> ASCII digits, by the Unicode decimal-digit property"""
    import unicodedata
    if s.isascii():
        return s
    return "".join(str(unicodedata.digit(c)) if ord(c) >= 0x1D7CE and ord(c) <= 0x1D7FF else c for c in s)


# alphabet (typeface) commands of LaTeX / unicode-math -- only these are undone, never operator macros such as \\mathratio
_TEX_STYLE_RX = re.compile(r"\\(?:math(?:bf|it|mit|bit|bfit|sf|sfbf|sfsl|sfit|sfbfsl|sfbfit|tt|bb|scr|bfscr|cal|bcal|bfcal|frak|bfrak|bffrak|rm|up|bfup|sfup|normal)"
                           r"|boldsymbol|bm|textbf|textit)(?![a-zA-Z])\s*")


def decode_text_digits(code, s):
    """what the text codes define for a digit with a typeface, undone: ASCIIMath passes the mathematical digit through (folded to ASCII
    here), LaTeX writes one style macro per digit ('\\mathbf 1 \\mathbf 2': typeset as the bold number 12) -- the macros and the blanks
    they leave between digits are removed.  Nothing else is changed, so a digit that is missing stays missing."""
    s = fold_digits(s)
    if code == "LaTeX" and "\\" in s:
        names = {}
        # \x01 + one private character per alphabet command = "the next character has THIS typeface"
        s = _TEX_STYLE_RX.sub(lambda m: "\x01" + chr(0xE100 + names.setdefault(m.group(0).strip(), len(names))), s)
        # Only what the alphabet commands added is undone, nothing is inserted: (1) digits of ONE typeface that follow each other are joined
        # (the blanks between them come from the commands); (2) a decimal mark between digits of one typeface loses the blank in front of it
        # and the command after it; (3) the remaining markers are dropped.  Plain digits, digits of another typeface and list commas stay
        # exactly as LaTeX printed them.
        prev = None
        while prev != s:
            prev = s
            s = re.sub(r"((\x01.)[0-9]+)\s*\2([0-9])", r"\1\3", s)
        s = re.sub(r"((\x01.)[0-9]+)\s*(?:\2)?([.,])\2([0-9]+)", r"\1\3\4", s)
        s = re.sub(r"\x01.", "", s)
    return s


def count_verbatim(lit, s):
    return len(re.findall(r"(?<![0-9])" + re.escape(lit) + r"(?![0-9])", s))


def tree_literals(tree):
    return [n.text for n, _ in tree.walk() if n.tag == "mn" and LITERAL_RX.fullmatch(n.text or "")]


def set_decimal(tree, mark):
    for n, _ in tree.walk():
        if n.tag == "mn" and n.text and DECIMAL_RX.fullmatch(n.text):
            n.text = n.text[:2] + mark + n.text[3:]
    return tree


# ---------------------------------------------------------------------------------------------
# the characters a code defines (keys of its unicode.yaml / unicode-full.yaml), read from the tree at run time
# ---------------------------------------------------------------------------------------------
_KEY_RX = re.compile(r'^\s*-\s*"((?:\\.|[^"\\])*)"\s*:')
_ESC_RX = re.compile(r'\\(u[0-9a-fA-F]{4}|U[0-9a-fA-F]{8}|x[0-9a-fA-F]{2}|.)')
_SIMPLE_ESC = {"n": "\n", "t": "\t", "r": "\r", "0": "\0", "\\": "\\", '"': '"', "/": "/", " ": " ", "_": "\u00a0", "e": "\x1b", "a": "\a", "b": "\b"}


def _unescape(s):
    def rep(m):
        t = m.group(1)
        if t[0] in "uUx" and len(t) > 1:
            return chr(int(t[1:], 16))
        return _SIMPLE_ESC.get(t, t)
    return _ESC_RX.sub(rep, s)


def code_dir_files(code):
    return (os.path.join(core.RULES, "Braille", code, "unicode.yaml"), os.path.join(core.RULES, "Braille", code, "unicode-full.yaml"))


def selected_unicode_files(driver, code):
    """(short, full) Unicode files the library selects for the braille table of this session -- asked from the library (hook loaded_files)
    because the directory is not always the one named by BrailleCode (ASCIIMath-fi is served from Braille/ASCIIMath on this tree)"""
    try:
        for t in driver.call("loaded_files")["v"]:
            if t.get("table") == "Braille" and t.get("pref_unicode_short") and t.get("pref_unicode_full"):
                return (t["pref_unicode_short"], t["pref_unicode_full"])
    except Exception:
        pass
    return code_dir_files(code)


_DEFINED = {}


def defined_chars(files):
    """(chars of the short file, chars of the full file only), as ordered lists.  Keys are one character or a range 'a-z'."""
    files = tuple(files)
    if files in _DEFINED:
        return _DEFINED[files]
    res = []
    seen = set()
    for path in files:
        chars = []
        try:
            with open(path, encoding="utf-8") as f:
                for line in f:
                    m = _KEY_RX.match(line)
                    if not m:
                        continue
                    key = _unescape(m.group(1))
                    if len(key) == 1:
                        cand = [key]
                    elif len(key) == 3 and key[1] == "-" and ord(key[0]) < ord(key[2]) and ord(key[2]) - ord(key[0]) < 4096:
                        cand = [chr(c) for c in range(ord(key[0]), ord(key[2]) + 1)]
                    else:
                        continue
                    for c in cand:
                        if c not in seen:
                            seen.add(c)
                            chars.append(c)
        except OSError:
            pass
        res.append(chars)
    _DEFINED[files] = (res[0], res[1])
    return _DEFINED[files]


_DEFSET = {}


def defined_set(files):
    files = tuple(files)
    if files not in _DEFSET:
        a, b = defined_chars(files)
        _DEFSET[files] = set(a) | set(b)
    return _DEFSET[files]


def from_xml(xml):
    return gen.from_xml(xml)
