"""C10 — results depend only on the current expression and preferences.

Metamorphic relation against a fresh session.  A HISTORY (5-60 operations: preference switches over few distinct values so that
A->B->A / A->B->C->A patterns repeat, set_mathml of valid and invalid input, the getters in any order and any number of times,
navigation) runs in one session of the real library.  The monitor keeps its own model of the preference assignment P (last value
that set_preference accepted, plus NavMode read back because navigation writes it by design) and of the current expression x, and
judges
  * every set_mathml result (canonical MathML, ids stripped) and every get_spoken_text / get_overview_text / get_braille result
    against a brand-new session that only does `set P; set_mathml x; getters`  (history independence, getter idempotence and
    order independence, away-and-back equality all reduce to this comparison);
  * after every getter the `loaded_files` hook: the table the getter just used was loaded from the file that P selects according to
    an independent re-implementation of the documented fallback chain (c10_files.py).
Schedules: N scripts run on N threads released by a barrier (driver --parallel), natively and under ThreadSanitizer; each thread's
log must equal the log of the same script run alone, and TSan must stay silent.

Tolerated by design (DESIGN 6/C10 T): canonicalisation uses the language/separators current at set_mathml time, so a getter is judged
only when Language / DecimalSeparator did not change since the expression was set; NavMode is part of P; Language=Auto without
LanguageAuto leaves the language to the embedding program, so nothing is judged while that is pending."""
import json
import os
import random
import re
import time

from . import c10_files, c10_par, configs, core, gen, mml, shrink

PROP = "C10"
C12_SEPARATORS = "C12-separators-not-rederived-under-explicit-mark"
AUTO_FINDINGS = "C10-auto-"      # while a known finding with this id prefix is open, Language=Auto stays out of the random workload


def use_auto_language():
    """Language=Auto / LanguageAuto histories are generated only when no known finding about that protocol is open (DESIGN 5.5: a feature
    whose defects are recorded is kept as fixed regression witnesses); C10_USE_AUTO=1/0 overrides for experiments"""
    if os.environ.get("C10_USE_AUTO") in ("0", "1"):
        return os.environ["C10_USE_AUTO"] == "1"
    opened, _ = core.load_findings(PROP)
    return not any(f.get("id", "").startswith(AUTO_FINDINGS) for f in opened)

ID_RX = re.compile(r"\bM[0-9a-z]{7}-([0-9]+)")
SPEECH, OVERVIEW, BRAILLE = "get_spoken_text", "get_overview_text", "get_braille"
GETTER_KIND = {SPEECH: "speech", OVERVIEW: "overview", BRAILLE: "braille"}
BRAILLE_PRODUCING = (BRAILLE, "get_navigation_braille", "get_braille_position", "get_navigation_node_from_braille_position")
GETTER_TABLES = {SPEECH: ("Intent", "Speech"), OVERVIEW: ("OverView",), BRAILLE: ("Braille",), "set_mathml": ("Speech",),
                 "do_navigate_command": ("Navigation",), "do_navigate_keypress": ("Navigation",)}
CANON_PREFS = ("Language", "LanguageAuto", "DecimalSeparator", "DecimalSeparators", "BlockSeparators", "Chemistry")
# order in which the fresh session applies P (a fixed order: the outputs must not depend on the order the history used)
PREF_ORDER = ["TTS", "CheckRuleFiles", "IntentErrorRecovery", "Language", "LanguageAuto", "DecimalSeparator", "DecimalSeparators", "BlockSeparators",
              "SpeechStyle", "Verbosity", "BrailleCode"]
# DecimalSeparator=Custom: the documented way to give both separator sets by hand ("Custom:<decimal>:<block>" in a palette)
CUSTOM_SEPARATORS = ["Custom:.:, ", "Custom:.: ", "Custom:,:. ", "Custom:,: ", "Custom:.:,'"]
NAV_COMMANDS = ["MoveNext", "MovePrevious", "ZoomIn", "ZoomOut", "ZoomInAll", "ZoomOutAll", "MoveStart", "MoveEnd", "MoveLastLocation",
                "ReadCurrent", "ReadNext", "DescribeCurrent", "WhereAmI", "WhereAmIAll", "ToggleZoomLockUp", "ToggleZoomLockDown",
                "ToggleSpeakMode", "SetPlacemarker1", "MoveTo1", "Read1", "MoveCellNext", "MoveCellDown", "MoveColumnStart"]
NAV_GETTERS = [("get_navigation_mathml",), ("get_navigation_mathml_id",), ("get_navigation_braille",), ("get_braille_position",)]
INVALID = ["<math><mi>x</mi>", "<math><mfrac><mn>1</mn></mfrac></math>", "<math><mi>&nosuchentity;</mi></math>", "not xml at all", "<math><mn>1</mn></math><math/>",
           "<math><mfoo><mi>x</mi></mfoo></math>", ""]

# --------------------------------------------------------------------------------------------
# expressions: a fixed pool aimed at the cached mechanisms + random textbook expressions
# --------------------------------------------------------------------------------------------
FIXED = [
    # nested fractions (Nemeth caches the nesting level on the live tree)
    "<math><mfrac><mrow><mn>1</mn><mo>+</mo><mfrac><mn>2</mn><mi>x</mi></mfrac></mrow><mrow><mfrac><mi>a</mi><mfrac><mi>b</mi><mn>7</mn></mfrac></mfrac><mo>-</mo><mn>3</mn></mrow></mfrac></math>",
    "<math><msqrt><mfrac><mfrac><mn>3</mn><mn>4</mn></mfrac><mn>5</mn></mfrac></msqrt><mo>=</mo><mfrac><mn>1</mn><mn>2</mn></mfrac></math>",
    # numbers whose reading depends on the separators
    "<math><mn>1,234.5</mn><mo>+</mo><mn>1.234,5</mn><mo>=</mo><mn>3,14</mn><mo>&#xD7;</mo><mn>2.718</mn></math>",
    "<math><mi>x</mi><mo>=</mo><mn>1</mn><mo>,</mo><mn>234</mn><mo>,</mo><mn>567</mn><mo>+</mo><mn>0</mn><mo>.</mo><mn>25</mn></math>",
    "<math><mn>12 345,678</mn><mo>-</mo><mn>12.345.678</mn><mo>&lt;</mo><mn>1'000</mn></math>",
    "<math><mi>y</mi><mo>=</mo><mn>3</mn><mo>,</mo><mn>14</mn><mo>+</mo><mn>2</mn><mo>.</mo><mn>5</mn><mo>-</mo><mn>1</mn><mo>.</mo><mn>234</mn><mo>,</mo><mn>5</mn></math>",
    "<math><mfrac><mrow><mn>12</mn><mo>.</mo><mn>345</mn><mo>.</mo><mn>678</mn></mrow><mrow><mn>0</mn><mo>,</mo><mn>5</mn></mrow></mfrac><mo>&#x2248;</mo><mn>1</mn><mo>&#xA0;</mo><mn>000</mn><mo>,</mo><mn>25</mn></math>",
    "<math><mn>12&#xA0;345.5</mn><mo>+</mo><mn>7&#x202F;000,5</mn><mo>=</mo><mn>2</mn><mo>&#xA0;</mo><mn>500</mn><mo>.</mo><mn>75</mn><mo>-</mo><mn>3</mn><mo>&#x202F;</mo><mn>250</mn></math>",
    # function names, logs, trig (definitions.yaml of the language), ordinals (fractions, powers)
    "<math><mi>sin</mi><mo>&#x2061;</mo><mi>x</mi><mo>+</mo><msup><mi>cos</mi><mrow><mo>-</mo><mn>1</mn></mrow></msup><mi>y</mi><mo>=</mo><mi>ln</mi><mi>z</mi><mo>+</mo><mi>log</mi><mn>10</mn></math>",
    "<math><mfrac><mn>3</mn><mn>4</mn></mfrac><mo>+</mo><mn>2</mn><mfrac><mn>1</mn><mn>2</mn></mfrac><mo>=</mo><msup><mi>x</mi><mn>2</mn></msup><mo>+</mo><msup><mi>y</mi><mn>3</mn></msup><mo>+</mo><msup><mi>z</mi><mn>10</mn></msup><mo>+</mo><msup><mi>w</mi><mi>n</mi></msup></math>",
    "<math><mfrac><mn>11</mn><mn>23</mn></mfrac><mo>&#xB7;</mo><mfrac><mrow><mi>d</mi><mi>y</mi></mrow><mrow><mi>d</mi><mi>x</mi></mrow></mfrac><mo>=</mo><mroot><mn>8</mn><mn>3</mn></mroot></math>",
    # characters from the short and the full character tables
    "<math><mo>&#x2200;</mo><mi>&#x3B5;</mi><mo>&gt;</mo><mn>0</mn><mo>&#x2203;</mo><mi>&#x3B4;</mi><mo>:</mo><mi>x</mi><mo>&#x2208;</mo><mi>&#x211D;</mi><mo>&#x21D2;</mo><mi>y</mi><mo>&#x2209;</mo><mi>&#x2205;</mi></math>",
    "<math><mi>A</mi><mo>&#x2A01;</mo><mi>B</mi><mo>&#x229B;</mo><mi>&#x2135;</mi><mo>&#x27C2;</mo><mi>&#x210F;</mi><mo>&#x2261;</mo><mi>&#x1D504;</mi><mo>&#x2A7D;</mo><mi>&#x1D49C;</mi><mo>&#x2030;</mo></math>",
    "<math><mi>&#x3B1;</mi><mo>&#xB1;</mo><mi>&#x3B2;</mi><mo>&#x2264;</mo><mi>&#x3C0;</mi><mo>&#x2260;</mo><mi>&#x221E;</mi><mo>&#x2229;</mo><mi>&#x3A9;</mi><mo>&#x222A;</mo><mi>&#x2207;</mi><mo>&#x2202;</mo><mi>f</mi></math>",
    # illegal and legal intent values (error recovery touches the live tree)
    "<math><mrow intent='foo(('><mi>x</mi><mo>+</mo><mn>1</mn></mrow><mo>=</mo><msup intent='power($b,$e)'><mi arg='b'>y</mi><mn arg='e'>2</mn></msup></math>",
    "<math><mfrac intent='$n:$'><mi arg='n'>a</mi><mi>b</mi></mfrac><mo>-</mo><mi intent='::'>c</mi></math>",
    "<math><msup intent='transpose($m)'><mi arg='m'>M</mi><mi>T</mi></msup><mo>+</mo><mrow intent='binomial($n,$k)'><mo>(</mo><mfrac linethickness='0'><mi arg='n'>n</mi><mi arg='k'>k</mi></mfrac><mo>)</mo></mrow></math>",
    # property-only intents (the attribute is taken off the live tree while the content is matched) above illegal and legal values
    "<math><mi>a</mi><mo>=</mo><msqrt intent=':blank'><mi intent='g('>x</mi></msqrt><mo>+</mo><mrow intent=':literal'><mi>p</mi><mo>-</mo><mfrac intent='zorble($u)'><mn arg='u'>3</mn><mi>q</mi></mfrac></mrow><mo>+</mo><msup intent=':zib:foo-bar'><mi>t</mi><mn intent='7 8'>2</mn></msup></math>",
    # ClearSpeak preferences: absolute value, matrices, sets, parentheses, capital letters, bars, primes, implied times
    "<math><mrow><mo>|</mo><mi>x</mi><mo>-</mo><mn>2</mn><mo>|</mo></mrow><mo>+</mo><mrow><mo>(</mo><mtable><mtr><mtd><mn>1</mn></mtd><mtd><mi>B</mi></mtd></mtr><mtr><mtd><mi>c</mi></mtd><mtd><mn>4</mn></mtd></mtr></mtable><mo>)</mo></mrow></math>",
    "<math><mo>{</mo><mi>x</mi><mo>|</mo><mi>x</mi><mo>&gt;</mo><mn>0</mn><mo>}</mo><mo>&#x2282;</mo><mrow><mo>(</mo><mn>2</mn><mo>,</mo><mn>5</mn><mo>]</mo></mrow><mo>,</mo><mover><mi>z</mi><mo>&#xAF;</mo></mover><mo>,</mo><msup><mi>f</mi><mo>&#x2032;</mo></msup><mrow><mo>(</mo><mi>X</mi><mo>)</mo></mrow></math>",
    "<math><mn>2</mn><mrow><mo>(</mo><mi>a</mi><mo>+</mo><mi>b</mi><mo>)</mo></mrow><mrow><mo>(</mo><mi>c</mi><mo>-</mo><mi>d</mi><mo>)</mo></mrow><mo>=</mo><mn>3</mn><mi>x</mi><mi>y</mi><mo>&#xD7;</mo><mn>4</mn><mo>&#x22C5;</mo><mn>5</mn><mo>&#x2026;</mo></math>",
    "<math><mrow><mo>{</mo><mtable><mtr><mtd><mi>x</mi></mtd><mtd><mtext>if </mtext><mi>x</mi><mo>&#x2265;</mo><mn>0</mn></mtd></mtr><mtr><mtd><mo>-</mo><mi>x</mi></mtd><mtd><mtext>otherwise</mtext></mtd></mtr></mtable></mrow></math>",
    # big operators, under/over, text, enclosure, chemistry-like, mathvariant
    "<math><munderover><mo>&#x2211;</mo><mrow><mi>k</mi><mo>=</mo><mn>1</mn></mrow><mi>n</mi></munderover><msub><mi>a</mi><mi>k</mi></msub><mo>+</mo><msubsup><mo>&#x222B;</mo><mn>0</mn><mn>1</mn></msubsup><mi>f</mi><mo>&#x2062;</mo><mi>d</mi><mi>t</mi><mo>+</mo><munder><mi>lim</mi><mrow><mi>x</mi><mo>&#x2192;</mo><mn>0</mn></mrow></munder><mi>g</mi></math>",
    "<math><msub><mi mathvariant='normal'>H</mi><mn>2</mn></msub><mi mathvariant='normal'>O</mi><mo>+</mo><menclose notation='box'><mi mathvariant='bold'>v</mi></menclose><mo>+</mo><mtext>for all </mtext><mi mathvariant='fraktur'>B</mi><mo>!</mo></math>",
    "<math><mmultiscripts><mi>C</mi><mn>6</mn><none/><mprescripts/><mn>14</mn><none/></mmultiscripts><mo>&#x2192;</mo><mover><mrow><mi>A</mi><mi>B</mi></mrow><mo>&#x2192;</mo></mover><mo>&#x2225;</mo><mi>&#x2220;</mi><mi>C</mi></math>",
    "<math><mi>x</mi></math>",
    # tokens whose text special-case code rewrites or annotates on the live tree (roman numerals, units, times, mixed numbers, styled letters)
    "<math><mn>XIV</mn><mo>+</mo><mi>VI</mi><mo>=</mo><mtext>XX</mtext><mo>-</mo><mn>iii</mn><mo>+</mo><msub><mi>x</mi><mn>IV</mn></msub></math>",
    "<math><mn>MCMXCIV</mn><mo>&lt;</mo><mn>3</mn><mi intent=':unit'>km</mi><mo>+</mo><mn>2</mn><mi mathvariant='normal'>m</mi><mo>,</mo><mn>3</mn><mo>:</mo><mn>45</mn><mo>,</mo><mn mathvariant='bold'>XII</mn></math>",
]


# indexes into FIXED by the mechanism they aim at (used to steer the palette of a history towards the preferences it switches)
NUMBER_EXPRS = FIXED[2:8]
FRACTION_EXPRS = FIXED[0:2] + FIXED[9:11]
INTENT_EXPRS = FIXED[14:18]
CHAR_EXPRS = FIXED[11:14]


def build_pool(rng):
    """expressions of one shard: the fixed pool, expressions over the characters that discriminate the character tables (read from
    the tree), and random textbook expressions with both decimal marks"""
    pool = list(FIXED)
    chars = c10_files.discriminating_chars()
    rng2 = random.Random(1)            # the character expressions are the same for every seed (they follow the tree, not the seed)
    for i in range(0, len(chars) - 3, 4):
        cs = chars[i:i + 4]
        pool.append("<math><mi>%s</mi><mo>%s</mo><mi>%s</mi><mo>+</mo><mn>1</mn><mo>=</mo><mtext>%s</mtext></math>" % tuple(mml.esc(c) for c in (cs[0], cs[1], cs[2], cs[3])))
        if len(cs) == 4 and rng2.random() < 0.5:
            pool.append("<math><msup><mi>%s</mi><mi>%s</mi></msup><mo>%s</mo><mi>%s</mi></math>" % tuple(mml.esc(c) for c in (cs[3], cs[2], cs[1], cs[0])))
    for i in range(12):
        tb = gen.Textbook(rng, decimal=rng.choice([".", ","]), max_depth=rng.choice([2, 3]))
        pool.append(tb.expression()[0].xml())
    return pool


# --------------------------------------------------------------------------------------------
# history generator
# --------------------------------------------------------------------------------------------
class Ctx:
    def __init__(self):
        langs = configs.languages(include_test=True)
        self.real_langs = [l for l in langs if not l.startswith("zz")]
        self.odd_langs = ["xx", "es-mx", "en-zz", "zh", "zz-aa", "zz", "sv-fi-helsinki", "xx-yy"]
        self.codes = configs.braille_codes()
        self.odd_codes = ["NoSuchCode"]
        prefs = configs.prefs_yaml()
        self.region_with_explicit_mark = not any(f.get("id") == C12_SEPARATORS for f in core.load_findings("C12")[0])
        self.clearspeak = {k: ["Auto"] + v[1] for k, v in sorted(prefs.items()) if k.startswith("ClearSpeak_") and v[1]
                           and k not in ("ClearSpeak_CapitalLetters", "ClearSpeak_MultiLinePausesBetweenColumns")}


def gen_palette(rng, ctx, pool, use_auto, dims):
    pal = {}
    langs = rng.sample(ctx.real_langs, rng.choice([2, 2, 3]))
    if rng.random() < 0.3:
        langs.append(rng.choice(ctx.odd_langs))
    if ("DecimalSeparator" not in dims or ctx.region_with_explicit_mark) and rng.random() < 0.2:
        # a region that adds the apostrophe to the block separators while the decimal mark stays (while C12-separators-not-rederived-under-
        # explicit-mark is open only in histories that leave DecimalSeparator at Auto: with an explicit mark the derived separators then
        # depend on the call order)
        langs.append(rng.choice(langs[:2]).split("-")[0] + rng.choice(["-ch", "-li"]))
    if use_auto and rng.random() < 0.2:
        langs.append("Auto:" + rng.choice(langs[:2]))
    pal["Language"] = langs
    pal["SpeechStyle"] = ["ClearSpeak", "SimpleSpeak"] + (["NoSuchStyle"] if rng.random() < 0.15 else [])
    pal["Verbosity"] = rng.sample(["Terse", "Medium", "Verbose"], 2)
    codes = rng.sample(ctx.codes, rng.choice([2, 2, 3]))
    if rng.random() < 0.1:
        codes.append(rng.choice(ctx.odd_codes))
    pal["BrailleCode"] = codes
    pal["TTS"] = rng.sample(["None", "SSML", "SAPI5"], rng.choice([1, 2]))
    pal["DecimalSeparator"] = rng.sample(["Auto", ".", ","], 2)
    if rng.random() < 0.4:
        # two hand-made settings, often with the same decimal mark and different block separators
        c1 = rng.choice(CUSTOM_SEPARATORS)
        same = [c for c in CUSTOM_SEPARATORS if c != c1 and c.split(":")[1] == c1.split(":")[1]]
        pal["DecimalSeparator"] = [rng.choice(pal["DecimalSeparator"]), c1, rng.choice(same) if rng.random() < 0.7 else rng.choice(CUSTOM_SEPARATORS)]
    pal["CheckRuleFiles"] = rng.sample(["None", "Prefs", "All"], 2)
    pal["IntentErrorRecovery"] = ["IgnoreIntent", "Error"]
    name = rng.choice(sorted(ctx.clearspeak))
    pal["ClearSpeak"] = (name, ["Auto", rng.choice(ctx.clearspeak[name][1:])])
    # number-valued engine preferences: used when a pause / prosody element is SPOKEN, so a change after the rule files were compiled must show
    ename = rng.choice(["PauseFactor", "PauseFactor", "Rate", "MathRate", "Pitch", "Volume", "CapitalLetters_Pitch"])
    pal["Engine"] = (ename, {"PauseFactor": ["100", "40", "250"], "Rate": ["180", "90", "360"], "MathRate": ["100", "150", "60"], "Pitch": ["0", "20"],
                             "Volume": ["100", "50"], "CapitalLetters_Pitch": ["0", "30"]}[ename])
    if "Engine" in dims:
        pal["TTS"] = rng.sample(["None", "SSML", "SAPI5"], 2)
    exprs = rng.sample(pool, rng.choice([2, 3, 3, 4]))
    # steer the expressions towards what the switched preferences can change
    if ("BrailleCode" in dims and rng.random() < 0.5) or "Engine" in dims:
        exprs[0] = rng.choice(FRACTION_EXPRS)
    if ("DecimalSeparator" in dims or "Language" in dims) and rng.random() < 0.7:
        exprs[0 if "DecimalSeparator" in dims else -1] = rng.choice(NUMBER_EXPRS)
    if "IntentErrorRecovery" in dims:
        exprs[0] = rng.choice(INTENT_EXPRS)
    if "Language" in dims and rng.random() < 0.3:
        exprs.append(rng.choice(CHAR_EXPRS))
    pal["exprs"] = exprs
    return pal


def pref_ops(name, v):
    """operations that put preference `name` to palette value v"""
    if v.startswith("Auto:"):
        return [["set_preference", "Language", "Auto"], ["set_preference", "LanguageAuto", v[5:]]]
    if v.startswith("Custom:"):
        _, dec, block = v.split(":", 2)
        return [["set_preference", "DecimalSeparator", "Custom"], ["set_preference", "DecimalSeparators", dec], ["set_preference", "BlockSeparators", block]]
    return [["set_preference", name, v]]


def gen_away_and_back(rng, ctx, pool, use_auto):
    """the explicit P -> Q -> P history for ONE preference: every getter under A, under B and under A again on the same expression (set
    again only when the preference takes part in canonicalisation), with some noise in between"""
    dim = rng.choice(["Language", "SpeechStyle", "Verbosity", "BrailleCode", "TTS", "DecimalSeparator", "CheckRuleFiles", "IntentErrorRecovery", "ClearSpeak", "Engine"])
    pal = gen_palette(rng, ctx, pool, use_auto, [dim])
    x = pal["exprs"][0]
    if dim == "IntentErrorRecovery":
        x = rng.choice(INTENT_EXPRS[:2])
    name, values = (pal[dim] if dim in ("ClearSpeak", "Engine") else (dim, pal[dim]))
    values = [v for v in values if not v.startswith("Auto:")] if dim == "Language" else list(values)
    a, b = rng.sample(values, 2) if len(values) >= 2 else (values[0], values[0])
    hist = [["set_preference", "TTS", pal["TTS"][0]]]
    if dim != "CheckRuleFiles" and rng.random() < 0.25:
        # the switch must take effect whatever the re-reading policy is (None = the files are never looked at again)
        hist.append(["set_preference", "CheckRuleFiles", rng.choice(["None", "None", "All"])])
    if dim != "Language" and (rng.random() < 0.6 or (dim == "DecimalSeparator" and not use_auto)):
        hist.append(["set_preference", "Language", pal["Language"][0] if dim == "DecimalSeparator" else rng.choice([l for l in pal["Language"] if not l.startswith("Auto:")])])
    if dim != "BrailleCode" and rng.random() < 0.5:
        hist.append(["set_preference", "BrailleCode", rng.choice(pal["BrailleCode"])])
    all_getters = [[SPEECH], [OVERVIEW], [BRAILLE, ""]]
    for leg, v in enumerate([a, b, a] + ([b, a] if rng.random() < 0.2 else [])):
        hist.extend(pref_ops(name, v))
        if leg == 0 or dim in ("Language", "DecimalSeparator"):
            hist.append(["set_mathml", x])
        gs = [list(g) for g in all_getters]
        rng.shuffle(gs)
        hist.extend(gs)
        if rng.random() < 0.3:
            hist.append(list(rng.choice(gs)))
        if rng.random() < 0.25:
            hist.append(["do_navigate_command", rng.choice(NAV_COMMANDS)])
    return hist


def gen_history(rng, ctx, pool, use_auto=True):
    if rng.random() < 0.3:
        return gen_away_and_back(rng, ctx, pool, use_auto)
    length = rng.choice([5, 8, 12, 16, 20, 25, 30, 40, 50, 60])
    dims = []
    if rng.random() < 0.75:
        dims.append("Language")
    others = ["SpeechStyle", "Verbosity", "BrailleCode", "TTS", "DecimalSeparator", "CheckRuleFiles", "IntentErrorRecovery", "ClearSpeak", "Engine"]
    dims += rng.sample(others, rng.choice([1, 2, 2, 3]))
    pal = gen_palette(rng, ctx, pool, use_auto, dims)
    hist = []

    current = {}

    def pick(dim, values):
        # mostly a value other than the one in force (an effective switch), sometimes the same one again
        others = [v for v in values if v != current.get(dim)]
        v = rng.choice(others) if others and rng.random() < 0.8 else rng.choice(values)
        current[dim] = v
        return v

    def switch(dim, value=None):
        if dim in ("ClearSpeak", "Engine"):
            name, values = pal[dim]
            hist.append(["set_preference", name, value or pick(dim, values)])
            return
        v = value or pick(dim, pal[dim])
        current[dim] = v
        hist.extend(pref_ops(dim, v))

    def set_expr():
        if rng.random() < 0.1:
            hist.append(["set_mathml", rng.choice(INVALID)])
        elif rng.random() < 0.35:
            hist.append(["set_mathml", pal["exprs"][0]])          # the expression the palette was steered to
        else:
            hist.append(["set_mathml", rng.choice(pal["exprs"])])

    def getters():
        for _ in range(rng.choice([1, 1, 2, 3, 4])):
            g = rng.choice([SPEECH, SPEECH, BRAILLE, BRAILLE, OVERVIEW])
            hist.append([g, ""] if g == BRAILLE else [g])
        if rng.random() < 0.1:
            hist.append(list(rng.choice(NAV_GETTERS)))

    switch("TTS", pal["TTS"][0])
    if rng.random() < 0.8 or ("DecimalSeparator" in dims and not use_auto):
        # (while the Language=Auto findings are open the decimal mark is only switched under an explicitly chosen language:
        #  prefs.yaml ships Language: Auto, and DecimalSeparator , -> Auto keeps the comma there, C10-auto-decimal-separator-not-rederived)
        switch("Language", pal["Language"][0] if "DecimalSeparator" in dims and not use_auto else None)     # [0] is a shipped language: accepted
    if rng.random() < 0.5:
        switch("BrailleCode")
    set_expr()
    while len(hist) < length:
        c = rng.random()
        if c < 0.32:
            dim = rng.choice(dims)
            switch(dim)
            if dim in ("Language", "DecimalSeparator"):
                if rng.random() < 0.85:
                    set_expr()
                    if rng.random() < 0.5:
                        getters()
            elif rng.random() < 0.6:
                getters()           # the same expression under the switched preference, without setting it again
        elif c < 0.45:
            set_expr()
        elif c < 0.90:
            getters()
        else:
            for _ in range(rng.choice([1, 2, 3])):
                if rng.random() < 0.1:
                    hist.append(["do_navigate_keypress", rng.choice([37, 38, 39, 40, 13, 32]), rng.random() < 0.3, rng.random() < 0.3, False, False])
                else:
                    hist.append(["do_navigate_command", rng.choice(NAV_COMMANDS)])
    # final comparison point: every getter, twice, in a random order
    hist.append(["set_mathml", rng.choice(pal["exprs"])])
    tail = [[SPEECH], [OVERVIEW], [BRAILLE, ""], [SPEECH], [BRAILLE, ""], [OVERVIEW]]
    rng.shuffle(tail)
    hist.extend(tail)
    return hist


# --------------------------------------------------------------------------------------------
# running a history and the fresh-session reference
# --------------------------------------------------------------------------------------------
def norm(res, is_mathml=False):
    """comparable form of one result: ('ok', value) / ('err', message) / ('panic', function)"""
    if res["r"] == "ok":
        v = res.get("v")
        if isinstance(v, str):
            v = mml.strip_ids(v) if is_mathml else v
            v = ID_RX.sub(r"ID-\1", v)
        return ("ok", v)
    if res["r"] == "err":
        # the error chain quotes rule patterns and dumps the internal tree line by line; the dump is a diagnostic, not a result
        # (it shows e.g. the Nemeth nesting-level cache attribute), so lines that are XML are left out of the comparison
        # (an element quoted INSIDE a message line is part of the same diagnostic: its tag is reduced to the element name)
        lines = [re.sub(r"<\s*(/?[A-Za-z][\w:.-]*)[^<>]*>", r"<\1>", l) for l in res.get("e", "").splitlines() if not l.lstrip().startswith("<")]
        return ("err", ID_RX.sub(r"ID-\1", "\n".join(lines)))
    return ("panic", (res.get("p") or {}).get("fn", "").split(" <- ")[0])


def instrument(history):
    ops = [("set_rules_dir", core.RULES)]
    for op in history:
        ops.append(tuple(op))
        ops.append(("get_preference", "NavMode"))
        if op[0] in GETTER_TABLES:
            ops.append(("loaded_files",))
    return ops


def regroup(history, results):
    """rows (op, result, NavMode read back, hook or None)"""
    rows, i = [], 1
    for op in history:
        res, nav = results[i], results[i + 1]
        i += 2
        hook = None
        if op[0] in GETTER_TABLES:
            hook = results[i].get("v") if results[i]["r"] == "ok" else None
            i += 1
        rows.append((op, res, nav.get("v") if nav["r"] == "ok" else None, hook))
    return rows


class Runner:
    """the history driver (one session thread per history) and the reference driver (fresh threads; restarted regularly; a sample of the
    references is recomputed in a brand-new process)"""

    def __init__(self, st, flavour="native"):
        self.st = st
        self.flavour = flavour
        self.hd = None
        self.rd = None
        self.rd_uses = 0
        self.cache = {}
        self.nsess = 0
        self.naudit = 0

    def _hist_driver(self):
        if self.hd is None or not self.hd.alive():
            if self.hd is not None:
                self.hd.close()
            self.hd = core.Driver(self.flavour, timeout=120)
        return self.hd

    def run_history(self, history):
        """returns rows or None (driver died / timed out: inconclusive)"""
        d = self._hist_driver()
        self.nsess += 1
        name = "h%d" % self.nsess
        try:
            res = d.batch(instrument(history), s=name, timeout=180)
            d.call("end_session", s=name)
        except (core.DriverDied, core.DriverTimeout, core.Inconclusive) as e:
            self.last_failure = str(e)
            if self.hd is not None:
                self.hd.close()
            self.hd = None
            return None
        return regroup(history, res)

    @staticmethod
    def ref_ops(pitems, x):
        return ([("set_rules_dir", core.RULES)] + [("set_preference", k, v) for k, v in pitems]
                + [("set_mathml", x), (SPEECH,), (OVERVIEW,), (BRAILLE, "")])

    def _ref_raw(self, pitems, x, new_process=False):
        ops = self.ref_ops(pitems, x)
        try:
            if new_process:
                with core.Driver(self.flavour, timeout=120) as d:
                    r = d.batch(ops)
            else:
                if self.rd is None or not self.rd.alive() or self.rd_uses >= 40:
                    if self.rd is not None:
                        self.rd.close()
                    self.rd = core.Driver(self.flavour, timeout=120)
                    self.rd_uses = 0
                self.rd_uses += 1
                r = self.rd.fresh(ops)
        except (core.DriverDied, core.DriverTimeout, core.Inconclusive) as e:
            if self.rd is not None:
                self.rd.close()
                self.rd = None
            return {"dead": str(e)}
        n = len(pitems)
        out = {"prefs": [(pitems[i][0], pitems[i][1], norm(r[1 + i])) for i in range(n)],
               "mathml": norm(r[n + 1], True), "speech": norm(r[n + 2]), "overview": norm(r[n + 3]), "braille": norm(r[n + 4])}
        return out

    def reference(self, pitems, x):
        key = (pitems, x)
        ref = self.cache.get(key)
        if ref is None:
            ref = self._ref_raw(pitems, x)
            self.st.count("references_computed")
            if "dead" not in ref and len(self.cache) % 25 == 7:
                # the reference itself must be reproducible in a brand-new process (a process-wide cache would show here)
                again = self._ref_raw(pitems, x, new_process=True)
                self.naudit += 1
                self.st.count("references_recomputed_in_new_process")
                if "dead" not in again and again != ref:
                    ref = dict(ref)
                    ref["audit_mismatch"] = [k for k in again if again[k] != ref.get(k)]
            self.cache[key] = ref
        else:
            self.st.count("reference_cache_hits")
        return ref

    def close(self):
        for d in (self.hd, self.rd):
            if d is not None:
                d.close()
        self.hd = self.rd = None


# --------------------------------------------------------------------------------------------
# the oracle
# --------------------------------------------------------------------------------------------
def pref_items(p, navmode):
    q = dict(p)
    if navmode is not None:
        q["NavMode"] = navmode
    keys = [k for k in PREF_ORDER if k in q] + sorted(k for k in q if k not in PREF_ORDER)
    return tuple((k, q[k]) for k in keys)


def determined(p):
    """False while the embedding program still owes a value: Language=Auto without LanguageAuto, DecimalSeparator=Custom without both
    separator sets (until then the library keeps whatever was derived before, by design)"""
    if p.get("Language") == "Auto" and "LanguageAuto" not in p:
        return False
    if p.get("DecimalSeparator") == "Custom" and not ("DecimalSeparators" in p and "BlockSeparators" in p):
        return False
    if p.get("DecimalSeparator") != "Custom" and ("DecimalSeparators" in p or "BlockSeparators" in p):
        return False            # set by hand without Custom: the next derivation overwrites them (not generated; a shrunk history may do it)
    return True


def short(v, n=260):
    s = v if isinstance(v, str) else json.dumps(v, ensure_ascii=False)
    return s if len(s) <= n else s[:n] + "…"


def first_diff(a, b):
    a, b = str(a), str(b)
    i = 0
    while i < min(len(a), len(b)) and a[i] == b[i]:
        i += 1
    return "at char %d: history …%s | fresh …%s" % (i, a[max(0, i - 30):i + 60], b[max(0, i - 30):i + 60])


def judge(history, rows, runner, st=None, pats=None):
    """Walk the recorded history with the preference/expression model.  Returns the first finding
    {kind, index, detail} or None; counts what was judged in st."""
    p = {}
    cur_x = None
    dirty = False
    effective_switch = False        # a preference or expression actually changed earlier in this session
    judged = 0
    seen_targets = set()

    def count(k, n=1):
        if st is not None:
            st.count(k, n)

    for i, (op, res, navmode, hook) in enumerate(rows):
        name = op[0]
        if res["r"] == "panic" and name not in GETTER_KIND and name != "set_mathml":
            count("panics_not_judged")          # C08's subject; the session state after a panic is not this property's
            return None, judged
        ok = res["r"] == "ok"
        if name == "set_preference":
            k, v = op[1], op[2]
            count("set_preference_" + res["r"])
            if ok:
                if p.get(k) != v:
                    if k in CANON_PREFS:
                        dirty = True
                    if k in p:
                        effective_switch = True
                    if pats is not None:
                        pats.setdefault(k, []).append(v)
                if k == "Language":
                    p.pop("LanguageAuto", None)
                if k == "DecimalSeparator":
                    # the two derived preferences are computed again (or, for Custom, have to be given again)
                    p.pop("DecimalSeparators", None)
                    p.pop("BlockSeparators", None)
                p[k] = v
            continue
        if not determined(p):
            count("ops_while_language_or_separators_left_to_host")
            continue
        pitems = pref_items(p, navmode)
        if name == "set_mathml":
            x = op[1]
            ref = runner.reference(pitems, x)
            if "dead" in ref:
                count("reference_died")
                if st is not None:
                    st.inconclusive += 1
                return None, judged
            f = check_ref_itself(ref, i)
            if f:
                return f, judged
            got = norm(res, True)
            count("set_mathml_compared")
            judged += 1
            if got != ref["mathml"]:
                if got[0] == "panic" or ref["mathml"][0] == "panic":
                    return panic_finding(i, name, got, ref["mathml"], x, pitems), judged
                return {"kind": "mathml-differs", "index": i, "getter": "set_mathml",
                        "detail": "set_mathml result differs from the fresh session under %s: %s" % (dict(pitems), first_diff(got, ref["mathml"]))}, judged
            if got[0] == "panic":
                count("panics_equal_to_fresh_not_judged")
                return None, judged
            if ok:
                if cur_x is not None and cur_x != x:
                    effective_switch = True
                cur_x = x
                dirty = False
                count("expressions_set")
            else:
                count("set_mathml_rejected")
        elif name in GETTER_KIND:
            kind = GETTER_KIND[name]
            if res["r"] == "panic" and (cur_x is None or dirty):
                count("panics_not_judged")
                return None, judged
            if cur_x is None:
                count("getters_before_any_expression")
            elif dirty:
                count("getters_not_judged_expression_set_under_other_language_or_separators")
            else:
                ref = runner.reference(pitems, cur_x)
                if "dead" in ref:
                    count("reference_died")
                    if st is not None:
                        st.inconclusive += 1
                    return None, judged
                f = check_ref_itself(ref, i)
                if f:
                    return f, judged
                got = norm(res)
                count("getters_compared_" + kind)
                if effective_switch:
                    count("getters_compared_after_a_switch")
                if (kind, pitems, cur_x) in seen_targets:
                    count("getters_compared_again_for_the_same_target_in_one_session")      # idempotence / away-and-back
                seen_targets.add((kind, pitems, cur_x))
                judged += 1
                if got != ref[kind]:
                    if got[0] == "panic" or ref[kind][0] == "panic":
                        return panic_finding(i, name, got, ref[kind], cur_x, pitems), judged
                    return {"kind": kind + "-differs", "index": i, "getter": name,
                            "detail": "%s differs from the fresh session for %s under %s: %s" % (name, short(cur_x, 200), dict(pitems), first_diff(got, ref[kind]))}, judged
                if got[0] == "err":
                    count("getter_errors_equal_to_fresh")
                if got[0] == "panic":
                    count("panics_equal_to_fresh_not_judged")      # the same panic in a fresh session: C08's subject
                    return None, judged
        else:
            count("navigation_ops_" + res["r"])
        # hook invariant: the table this call just used was loaded from the file P selects
        if ok and hook is not None and name in GETTER_TABLES:
            want = c10_files.expected(p)
            tables = {e["table"]: e for e in hook}
            for t in GETTER_TABLES[name]:
                count("hook_checks")
                bad = c10_files.check_table(tables[t], want[t])
                if bad:
                    return {"kind": "hook-" + bad[0][0], "index": i, "getter": name, "table": t,
                            "detail": "after %s under %s: %s" % (name, dict(p), "; ".join(b[1] for b in bad))}, judged
    return None, judged


def panic_finding(i, name, got, want, x, pitems):
    """a call that panics in the history session and not in the fresh one (or the other way round, or elsewhere) depends on the history;
    a panic that the fresh session shows as well is C08's subject and never reaches this function"""
    who = "only-with-history" if got[0] == "panic" and want[0] != "panic" else "only-in-fresh-session" if got[0] != "panic" else "elsewhere"
    return {"kind": "panic-" + who, "index": i, "getter": name,
            "detail": "%s for %s under %s: history session %s | fresh session %s" % (name, short(x, 200), dict(pitems), short(got), short(want))}


def check_ref_itself(ref, i):
    if ref.get("audit_mismatch"):
        return {"kind": "fresh-session-not-reproducible", "index": i, "getter": ",".join(ref["audit_mismatch"]),
                "detail": "a fresh session gave different %s in a new thread of a used process and in a brand-new process" % ref["audit_mismatch"]}
    for k, v, r in ref["prefs"]:
        if r[0] != "ok":
            return {"kind": "preference-accepted-only-with-history", "index": i, "getter": k,
                    "detail": "set_preference(%s,%s) was accepted in the history but a fresh session answers %s" % (k, v, short(r))}
    return None


# --------------------------------------------------------------------------------------------
# switch patterns (evidence)
# --------------------------------------------------------------------------------------------
def count_patterns(pats, st):
    for k, seq in pats.items():
        name = "ClearSpeak_*" if k.startswith("ClearSpeak_") else k
        for j in range(2, len(seq)):
            if seq[j] == seq[j - 2] and seq[j] != seq[j - 1]:
                st.count("pattern_ABA_" + name)
            if j >= 3 and seq[j] == seq[j - 3] and len({seq[j - 3], seq[j - 2], seq[j - 1]}) == 3:
                st.count("pattern_ABCA_" + name)


def style_between_languages(history):
    last = None
    seen_style = False
    n = 0
    for op in history:
        if op[0] != "set_preference":
            continue
        if op[1] == "Language":
            if last is not None and seen_style and op[2] != last:
                n += 1
            last, seen_style = op[2], False
        elif op[1] in ("SpeechStyle", "BrailleCode", "Verbosity"):
            seen_style = True
    return n


# --------------------------------------------------------------------------------------------
# shrinking and signatures
# --------------------------------------------------------------------------------------------
def abstract_history(history):
    """op sequence with values renamed per preference in order of first appearance and expressions numbered; the braille code and the
    intent recovery mode stay literal (causes are specific to them)"""
    names, xs, out = {}, {}, []
    for op in history:
        if op[0] == "set_preference":
            k, v = op[1], op[2]
            kk = "ClearSpeak_*" if k.startswith("ClearSpeak_") else k
            if k in ("BrailleCode", "IntentErrorRecovery", "CheckRuleFiles", "TTS", "DecimalSeparator", "SpeechStyle") or v == "Auto":
                out.append("%s=%s" % (kk, v))
            else:
                m = names.setdefault(kk, {})
                out.append("%s=%s" % (kk, m.setdefault(v, "abcdefgh"[min(len(m), 7)])))
        elif op[0] == "set_mathml":
            out.append("set_mathml:%s" % xs.setdefault(op[1], "x%d" % (len(xs) + 1)))
        elif op[0].startswith("do_navigate"):
            out.append("nav")
        else:
            out.append(op[0])
    return " ".join(out)


def signature(finding, history):
    """structural: oracle sub-check (+ table), the preferences the minimal history touches (names; literal values only where the cause is
    specific to them) and the abstract form of its last two operations"""
    prefs = set()
    for op in history:
        if op[0] == "set_preference":
            k, v = op[1], op[2]
            if k.startswith("ClearSpeak_"):
                prefs.add("ClearSpeak_*")
            elif k in ("BrailleCode", "IntentErrorRecovery") or v == "Auto":
                prefs.add("%s=%s" % (k, v))
            else:
                prefs.add(k)
    suffix = abstract_history(history).split(" ")[-2:]
    return "%s | prefs: %s | … %s" % (finding["kind"] + (":" + finding["table"] if finding.get("table") else ""), ",".join(sorted(prefs)) or "-", " ".join(suffix))


def minimise(history, finding, runner, budget=60, deadline=None):
    """shortest sub-history that still shows a finding of the same kind (re-run and re-judged from scratch each time; the fresh-session
    references are shared with the shard through runner.cache)"""
    kind = finding["kind"]
    best = {"f": finding}

    def pred(h):
        if deadline is not None and time.time() > deadline:
            return False
        rows = runner.run_history(h)
        if rows is None:
            return False
        f, _ = judge(h, rows, runner)
        if f is not None and f["kind"] == kind:
            best["f"] = f
            return True
        return False

    prefix = history[:finding["index"] + 1]
    if not pred(prefix):
        prefix = history
        if not pred(prefix):
            return history, finding, False
    small = shrink.shrink_list(prefix, pred, budget=budget)
    # one more pass of single deletions (ddmin-lite may stop early on long histories)
    small = shrink.shrink_list(small, pred, budget=max(10, len(small) + 5))
    if deadline is not None and time.time() > deadline:
        deadline = time.time() + 20
    confirmed = pred(small)
    return small, best["f"], confirmed


# --------------------------------------------------------------------------------------------
# shards
# --------------------------------------------------------------------------------------------
def history_shard(spec):
    st = core.Stats()
    ctx = Ctx()
    deadline = time.time() + spec["time_budget"]
    pool = build_pool(random.Random(core.sub_seed(spec["seed"], "pool")))
    runner = Runner(st)
    seen_pre = {}
    known_open = core.load_findings(PROP)[0]
    shrinks = 0
    shrink_allowance = spec.get("shrink_allowance", 16)
    try:
        for i in range(spec["max_histories"]):
            if time.time() > deadline:
                st.count("stopped_by_time_budget")
                break
            rng = random.Random(core.sub_seed(spec["seed"], "history", i))
            history = gen_history(rng, ctx, pool, use_auto=spec.get("use_auto", True))
            rows = runner.run_history(history)
            st.count("histories_run")
            st.count("history_operations", len(history))
            if rows is None:
                st.inconclusive += 1
                st.count("history_driver_died")
                continue
            pats = {}
            finding, judged = judge(history, rows, runner, st, pats)
            st.evaluations += judged
            count_patterns(pats, st)
            st.count("pattern_style_code_or_verbosity_switch_between_language_switches", style_between_languages(history))
            for k, seq in pats.items():
                for v in seq:
                    st.add("values_" + ("ClearSpeak" if k.startswith("ClearSpeak_") else k), v if not k.startswith("ClearSpeak_") else k[11:] + "=" + v)
            if judged >= 2 and any(len(s) >= 2 for s in pats.values()):
                st.nontrivial.add(core.h16(json.dumps(history)))
            if i < 2 and finding is None:
                st.sample({"history": [" ".join(str(a)[:60] for a in op) for op in history[:14]] + (["… %d more" % (len(history) - 14)] if len(history) > 14 else []),
                           "comparisons_with_fresh_session": judged}, limit=2)
            if finding is None:
                continue
            st.count("raw_violations_" + finding["kind"])
            pre = (finding["kind"], finding.get("table"))
            prefix = history[:finding["index"] + 1]
            if pre in seen_pre:
                # a pre-cluster whose representative is an OPEN known finding must not hide a different cause: the cheap question
                # 'is this one the known finding too?' is put to the finding's own predicate (two replays)
                if seen_pre[pre] == "new":
                    continue
                v0 = core.violation(finding["kind"], signature(finding, prefix), {"mode": "history", "history": prefix}, finding["detail"][:600])
                if core.match_finding(v0, known_open) is not None:
                    st.count("raw_violations_matching_an_open_known_finding")
                    continue
            if shrinks >= 4 or shrink_allowance <= 0:
                # no time left to minimise: the cluster is still reported, with the history cut after the failing call
                st.count("violations_reported_unminimised")
                small, f2 = prefix, finding
            else:
                shrinks += 1
                t_s = time.time()
                small, f2, confirmed = minimise(history, finding, runner, deadline=t_s + shrink_allowance)
                spent = time.time() - t_s
                shrink_allowance -= spent
                deadline += spent           # shrinking has its own (bounded) allowance and does not eat the exploration budget
                if not confirmed:
                    st.count("violations_not_reproduced_on_rerun")
                    small, f2 = prefix, finding
            v = core.violation(f2["kind"], signature(f2, small), {"mode": "history", "history": small},
                               "minimal history (%d ops): %s || %s" % (len(small), json.dumps(small, ensure_ascii=False)[:1500], f2["detail"][:1200]))
            st.violations.append(v)
            seen_pre[pre] = "known" if core.match_finding(v, known_open) is not None else "new"
        st.count("distinct_targets_in_shard", len(runner.cache))
        for (pitems, x) in list(runner.cache)[:60000]:
            st.add("target_hashes", core.h16(json.dumps([pitems, x])))
    finally:
        runner.close()
    d = st.to_dict()
    # the set of target hashes is only needed for its size
    d["sets"]["target_hashes"] = sorted(d["sets"].get("target_hashes", []))
    return d


def pred_vietnam_rewrites_numbers(v, params):
    """Known finding C10-vietnam-braille-rewrites-numbers: braille.rs get_braille_vietnam_chars() rewrites the text of the <mn> elements of
    the LIVE expression (decimal point <-> comma, Roman numerals to lower case), so every later getter sees another expression.
    Holds when the (minimal) witness history has braille-producing calls (get_braille, get_navigation_braille, get_braille_position,
    get_navigation_node_from_braille_position: all of them braille the live expression) made while BrailleCode=Vietnam BEFORE the failing
    call, the failing call itself is not one of them, and the failure disappears when exactly those calls are left out."""
    w = v["witness"]
    if w.get("mode") != "history":
        return False
    h = w["history"]
    code, kept, removed = None, [], 0
    for i, op in enumerate(h):
        if op[0] == "set_preference" and op[1] == "BrailleCode":
            code = op[2]
        if op[0] in BRAILLE_PRODUCING and code == "Vietnam" and i < len(h) - 1:
            removed += 1
            continue
        kept.append(op)
    if not removed:
        return False
    runner = Runner(core.Stats())
    try:
        rows = runner.run_history(h)
        if rows is None or judge(h, rows, runner)[0] is None:
            return False
        rows = runner.run_history(kept)
        return rows is not None and judge(kept, rows, runner)[0] is None
    finally:
        runner.close()


core.PREDICATES["c10_vietnam_rewrites_numbers"] = pred_vietnam_rewrites_numbers


def shard(spec):
    if spec["kind"] == "history":
        return history_shard(spec)
    return c10_par.parallel_shard(spec)


# --------------------------------------------------------------------------------------------
# replay, run
# --------------------------------------------------------------------------------------------
def replay(witness):
    if witness.get("mode") == "parallel":
        return c10_par.replay(witness)
    history = witness["history"]
    runner = Runner(core.Stats())
    try:
        rows = runner.run_history(history)
        if rows is None:
            return []
        f, _ = judge(history, rows, runner)
        if f is None:
            return []
        return [core.violation(f["kind"], signature(f, history), witness, f["detail"][:1200])]
    finally:
        runner.close()


def rules_fingerprint():
    """size and modification time of every file below Rules/: the histories and their fresh-session references are only comparable when
    the rule files stayed the same for the whole run"""
    out = []
    for root, dirs, files in os.walk(core.RULES):
        dirs.sort()
        for f in sorted(files):
            p = os.path.join(root, f)
            try:
                st = os.stat(p)
                out.append((os.path.relpath(p, core.RULES), st.st_size, st.st_mtime_ns))
            except OSError:
                out.append((os.path.relpath(p, core.RULES), -1, -1))
    return out


def _dbg(what, t0):
    if os.environ.get("C10_DEBUG"):
        import sys
        sys.stderr.write("[c10] %s at %.1fs\n" % (what, time.time() - t0))


def run(tier, seed):
    t0 = time.time()
    use_tsan = os.environ.get("VERIF_NO_SANITIZERS") != "1"
    build_errors = c10_par.build_all(["native"] + (["tsan"] if use_tsan else []))
    if "native" in build_errors:
        raise core.Inconclusive(build_errors["native"])
    _dbg("builds done", t0)
    use_auto = use_auto_language()
    rules_before = rules_fingerprint()
    quick = tier == "quick"
    budget = int(os.environ.get("C10_BUDGET", "0")) or (48 if quick else 1300)
    specs = []
    # the parallel schedules go first so that the slow ThreadSanitizer run starts at once
    if use_tsan and "tsan" not in build_errors:
        specs.append({"kind": "parallel", "flavour": "tsan", "seed": core.sub_seed(seed, PROP, "tsan"), "rounds": 2 if quick else 3,
                      "threads": 8 if quick else 16, "ops": 60 if quick else 400, "time_budget": budget * (0.4 if quick else 0.6), "timeout": 240 if quick else 1500})
    specs.append({"kind": "parallel", "flavour": "native", "seed": core.sub_seed(seed, PROP, "par"), "rounds": 3 if quick else 30,
                  "threads": 16, "ops": 90 if quick else 240, "time_budget": budget * 0.8, "timeout": 240})
    nsh = max(2, core.NPROC - len(specs))
    for i in range(nsh):
        specs.append({"kind": "history", "seed": core.sub_seed(seed, PROP, "hist", i), "time_budget": budget, "use_auto": use_auto,
                      "max_histories": 400 if quick else 12000})
    results = core.run_shards(shard, specs)
    _dbg("shards done", t0)
    rules_after = rules_fingerprint()
    if rules_after != rules_before:
        changed = sorted({a[0] for a in set(rules_before) ^ set(rules_after)})
        c10_par.cleanup()
        raise core.Inconclusive("files below %s changed while the check was running (%s%s): sessions that loaded them before and after the change "
                                "cannot be compared; run again" % (core.RULES, ", ".join(changed[:5]), " ..." if len(changed) > 5 else ""))
    stats, errors = core.Stats.merge(results)
    for fl, e in build_errors.items():
        errors.append("driver build failed for flavour %s: %s" % (fl, e))
    known, fixed_failures, extra_v = core.replay_findings(PROP, replay)
    stats.violations.extend(extra_v)
    _dbg("known findings replayed", t0)
    targets = stats.sets.pop("target_hashes", set())
    par = {k: v for k, v in stats.counters.items() if k.startswith("parallel_") or k.startswith("tsan_")}
    extra = {"distinct_targets_P_x": len(targets), "histories_run": stats.counters.get("histories_run", 0),
             "parallel_and_sanitizer_runs": par, "sanitizers": (["tsan"] if use_tsan and "tsan" not in build_errors else []),
             "sanitizers_skipped_by_VERIF_NO_SANITIZERS": not use_tsan,
             "excluded_features": ([] if use_auto else ["Language=Auto / LanguageAuto, and DecimalSeparator switches while Language is left at the shipped default Auto "
                                                        "(open known findings C10-auto-*; their witnesses are replayed in every run)"])
             + ([] if Ctx().region_with_explicit_mark else ["an explicit DecimalSeparator together with a -ch/-li region (open known finding %s)" % C12_SEPARATORS])}
    if use_tsan and not stats.counters.get("tsan_runs_completed") and not any(v["kind"].startswith("tsan") for v in stats.violations):
        errors.append("no ThreadSanitizer run completed")
    if not stats.counters.get("parallel_native_runs_completed"):
        errors.append("no native parallel run completed")
    c10_par.cleanup()
    return core.conclude(
        PROP, tier, seed, "exploration", stats, extra,
        ["the preference assignment P is the monitor's own model: last value accepted by set_preference, plus NavMode read back (navigation writes it by design)",
         "a getter is judged only when Language/DecimalSeparator did not change since the expression was set (canonicalisation happens at set_mathml time, documented)",
         "the fresh-session reference runs in a new thread of a separate driver process that is restarted every 40 references; every 25th reference is recomputed in a brand-new process",
         "navigation results are exercised, not compared (the navigation position is history by design); panics are C08's subject and end the judging of that history",
         "ThreadSanitizer sees only the interleavings of the runs made; -Zbuild-std instruments std as well"],
        t0,
        rule="a history is non-trivial when at least one preference was switched to a different value after it had been set (so a cached rule table, character "
             "table, definition set or pattern cache had to be refreshed) and at least two results were compared with a brand-new session; distinct by the "
             "operation sequence.  evaluations = results compared with the fresh session",
        min_nontrivial=40 if quick else 400, harness_errors=errors, known_replayed=known, fixed_failures=fixed_failures)
