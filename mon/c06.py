"""C06 — braille renders every operand of the expression.
Unambiguous histories: every operand is a distinct decimal literal NN<mark>DD written with the session's decimal mark, so a lost operand
is read straight off get_braille(""): the literal's cell run in the code's PUBLISHED digit cells (c06_braille.CODES, not MathCAT's tables)
must occur contiguously; for the text codes the literal occurs verbatim."""
import os
import random
import re
import time

from . import c06_braille as B
from . import core, gen, shrink

PROP = "C06"

# Calibration on the unchanged tree (7000 planted literals per code): Nemeth, UEB (4 preference sets) and Vietnam render every literal in
# its plain published form, so no exception for "special number forms" is needed.  The dropped-digit forms of CMU/Swedish numeric fractions
# are published for INTEGER numerators/denominators only; a decimal literal written that way is not a published form (see the known
# finding C06-cmu-decimal-simple-fraction) and is judged like everything else.


def occurrences(code, lit, braille):
    """how often the literal is rendered in the braille string (None: the published table has no cell for its decimal mark)"""
    if B.CODES[code]["kind"] == "text":
        return B.count_verbatim(lit, braille)
    run = B.literal_cells(code, lit)
    if run is None:
        return None
    return B.mask_highlight(braille).count(run)


def evaluate(sess, xml):
    r = sess.batch([("set_mathml", xml), ("get_braille", "")], timeout=60)
    if r is None:
        return None
    return r[0], r[1]


def judge_tree(sess, tree):
    """Evaluate one tree under the session's configuration.
    returns (kind or None, lost literals, detail, (set_mathml result, get_braille result) or None)"""
    code = sess.cfg["code"]
    res = evaluate(sess, tree.xml())
    if res is None:
        return "crash", [], str(getattr(sess, "last_failure", "")), None
    sm, br = res
    if sm["r"] != "ok":
        return None, [], "set_mathml " + sm["r"], res          # judged by C08, not here
    if br["r"] != "ok":
        if br["r"] == "panic":
            p = br.get("p") or {}
            what = "in %s: %s" % ((p.get("fn") or "?").split(" <- ")[0], p.get("msg", ""))
        else:
            what = br.get("e") or ""
        return "no-braille", [], "get_braille -> %s: %s" % (br["r"], what), res
    # operands that survived canonicalization (a loss inside set_mathml is C01's to report, not this property's)
    canon = re.sub(r"<[^>]*>", " ", sm["v"])
    lits = []
    for lit in B.tree_literals(tree):
        if lits.count(lit) < B.count_verbatim(lit, canon):
            lits.append(lit)
    lost = []
    for lit in sorted(set(lits)):
        n = occurrences(code, lit, br["v"])
        if n is None:
            continue                                            # the published table has no cell for this mark: not judged
        if n < lits.count(lit):
            lost.append(lit)
    if lost:
        shown = ["%s=%s" % (l, B.literal_cells(code, l) or l) for l in lost]
        return "lost-operand", lost, "braille %r lacks %s" % (br["v"][:500], shown), res
    return None, [], "", res


def minimise(cfg, tree, kind):
    """shrink the expression, then try to move the configuration to the code's plain one"""
    sess = B.Session(cfg)
    try:
        sess.ensure()
        small = shrink.shrink_tree(tree, lambda t: judge_tree(sess, t)[0] == kind, budget=1200,
                                   leaf_factory=lambda: [gen.mn("17%s29" % sess.decimal), gen.mi("x")])
    finally:
        sess.close()
    trials = [("extra", k) for k in sorted(cfg.get("extra", {})) if k not in B.SEPARATOR_PREFS]
    if any(k in cfg.get("extra", {}) for k in B.SEPARATOR_PREFS):
        trials.append(("extra", B.SEPARATOR_PREFS))
    home = B.CODES[cfg["code"]]["langs"][0]
    if cfg["lang"] != home:
        trials.append(("lang", home))
    for key, val in trials:
        trial = dict(cfg)
        if key == "extra":
            ex = dict(trial.get("extra", {}))
            for k in (val if isinstance(val, tuple) else (val,)):
                ex.pop(k, None)
            if ex:
                trial["extra"] = ex
            else:
                trial.pop("extra", None)
        else:
            trial[key] = val
        s2 = B.Session(trial)
        try:
            s2.ensure()
            t2 = B.set_decimal(small.copy(), s2.decimal)
            if judge_tree(s2, t2)[0] == kind:
                cfg, small = trial, t2
        finally:
            s2.close()
    return cfg, small


def strip_wrappers(t):
    """copy of the tree without the wrappers that canonicalization removes anyway (mstyle/mpadded/one-child mrow -> the child, semantics ->
    its first child): the shrinker sometimes has to keep one (e.g. to stop two tokens from being merged), the signature should not name it"""
    if t.kids is None:
        return t.copy()
    kids = [strip_wrappers(k) for k in t.kids]
    if t.tag == "semantics" and kids:
        return kids[0]
    if t.tag in ("mstyle", "mpadded", "mrow") and len(kids) == 1:
        return kids[0]
    n = t.copy()
    n.kids = kids
    return n


def local_contexts(tree, lost):
    """where the lost literals sit in the (minimal) witness: grandparent>parent[index/arity]:previous_next sibling classes"""
    out = set()
    tree = strip_wrappers(tree)
    for node, path in tree.walk():
        if node.tag == "mn" and node.text in lost and path:
            chain = [tree]
            for i in path[:-1]:
                chain.append(chain[-1].kids[i])
            parent = chain[-1]
            gp = chain[-2].tag if len(chain) > 1 else "-"
            idx = path[-1]

            def cls(k):
                return shrink.token_class(k) if k.kids is None else k.tag
            prev = cls(parent.kids[idx - 1]) if idx > 0 else "^"
            nxt = cls(parent.kids[idx + 1]) if idx + 1 < len(parent.kids) else "$"
            attrs = "".join("[%s=%s]" % (k, parent.attrs[k]) for k in sorted(parent.attrs) if k in ("linethickness", "notation", "bevelled"))
            out.add("%s>%s%s[%d/%d]:%s_%s" % (gp, parent.tag, attrs, idx, len(parent.kids), prev, nxt))
    return sorted(out)


def blame_keys(tree, lost):
    """cheap pre-cluster key of a loss: the maximal subtrees all of whose literals are lost, named by (root tag, parent tag, index)"""
    lost = set(lost)
    keys = set()

    def visit(node, parent, idx):
        """returns (number of literals below node, number of lost ones); records maximal all-lost subtrees"""
        if node.kids is None:
            if node.tag == "mn" and B.LITERAL_RX.fullmatch(node.text or ""):
                return 1, (1 if node.text in lost else 0)
            return 0, 0
        tot = los = 0
        res = []
        for i, k in enumerate(node.kids):
            t, l = visit(k, node, i)
            res.append((t, l))
            tot += t
            los += l
        if not (tot and tot == los and parent is not None):
            # this node is not entirely lost: its entirely lost children are maximal
            for i, (t, l) in enumerate(res):
                if t and t == l:
                    k = node.kids[i]
                    note = node.attrs.get("notation", "") if node.tag == "menclose" else ""
                    keys.add("%s<%s%s[%d]" % (k.tag, node.tag, ":" + note if note else "", i))
        return tot, los
    visit(tree, None, 0)
    return tuple(sorted(keys))


def error_root(detail):
    """stable summary of an error chain: innermost rule and the root cause"""
    pats = re.findall(r'attempting replacement pattern: "([^"]*)" for "([^"]*)"', detail)
    causes = [l[len("caused by: "):] for l in detail.splitlines() if l.startswith("caused by: ")]
    root = causes[-1] if causes else detail.splitlines()[0] if detail else ""
    root = re.sub(r"<.*", "", root)
    root = re.sub(r"'[^']*'", "'…'", root)
    root = re.sub(r"\d+", "N", root)[:90].strip()
    return "%s|%s" % ("/".join(pats[-1]) if pats else "-", root)


def make_sig(kind, tree, cfg, lost, detail_full):
    if kind == "lost-operand":
        return "lost-operand | %s | %s" % (" + ".join(local_contexts(tree, lost)), B.cfg_sig(cfg))
    m = re.match(r"get_braille -> panic: in (\S+): (.*)", detail_full, re.S)
    if m:
        msg = re.sub(r"\d+", "N", re.sub(r"`[^`]*`|'[^']*'", "…", m.group(2).splitlines()[0] if m.group(2) else ""))[:80]
        return "%s | panic:%s:%s | %s" % (kind, m.group(1), msg, B.cfg_sig(cfg))
    return "%s | %s | %s" % (kind, error_root(detail_full), B.cfg_sig(cfg))


def shard(spec):
    st = core.Stats()
    rng = random.Random(spec["seed"])
    deadline = time.time() + spec["time_budget"]
    seen_pre = set()
    for cfg in spec["configs"]:
        sess = B.Session(cfg)
        name = B.cfg_sig(cfg)
        try:
            sess.ensure()
            for i in range(spec["per_config"]):
                if time.time() > deadline:
                    st.count("stopped_by_time_budget")
                    break
                tb = gen.Textbook(rng, decimal=sess.decimal, max_depth=rng.choice([2, 3, 4]))
                tree, lits = tb.expression()
                kind, lost, detail, res = judge_tree(sess, tree)
                st.evaluations += 1
                if res is not None and res[0]["r"] == "ok" and res[1]["r"] == "ok":
                    st.nontrivial.add(core.h16(tree.shape() + name))
                    st.count("literals_checked", len(lits))
                    st.count("literals_checked_" + cfg["code"], len(lits))
                elif res is not None and res[0]["r"] != "ok":
                    st.count("set_mathml_" + res[0]["r"])
                st.add("configs", name + "/" + cfg["lang"])
                if i == 0 and res is not None and res[1]["r"] == "ok":
                    st.sample({"config": name, "mathml": tree.xml()[:600], "literals": lits, "braille": res[1]["v"][:300]}, limit=3)
                if kind is None:
                    continue
                if kind == "crash":
                    st.inconclusive += 1
                    continue
                pre = (kind, cfg["code"], blame_keys(tree, lost) if lost else error_root(detail))
                st.count("raw_violations_" + kind)
                if pre in seen_pre:
                    continue
                seen_pre.add(pre)
                mcfg, small = minimise(cfg, tree, kind)
                s3 = B.Session(mcfg)
                try:
                    k3, lost3, detail3, _ = judge_tree(s3, small)
                finally:
                    s3.close()
                if k3 != kind:
                    k3, lost3, detail3, mcfg, small = kind, lost, detail, cfg, tree
                sig = make_sig(kind, small, mcfg, lost3, detail3)
                st.violations.append(core.violation(kind, sig, {"cfg": mcfg, "mathml": small.xml()},
                                                    "minimal witness " + small.xml() + " | " + detail3[:700]))
            # coverage of braille rules reached in this configuration
            try:
                hits = sess.ensure().call("rule_hits")["v"]
                for k in hits:
                    t = k.split("|")
                    if t[0] == "Braille":
                        st.add("rules_fired", "%s|%s|%s" % (t[1].split("/Rules/")[-1], t[2], t[3]))
            except Exception:
                pass
        finally:
            sess.close()
    return st.to_dict()


def pred_row_rule_arity(v, params):
    """Known findings C06-swedish-nested-linear-fraction-arity / C06-cmu-numeric-slash-arity: a rule for a three-child row 'a / b' matches
    rows with more children and writes only children 1 and 3.
    params: code; ops = operator characters of the rule; neighbour = 'mfrac' (first or third child is an mfrac) or 'mn' (first and third child
    are numbers); first_lost = index of the first child whose literals may be lost (Swedish 3: children 4..; CMU 2: the third child is also
    written in the decimal dropped form of C06-cmu-decimal-simple-fraction).
    Holds when the witness has such a row with more than three children and every lost literal sits at or after first_lost."""
    w = v["witness"]
    if w["cfg"]["code"] != params["code"]:
        return False
    tree = B.from_xml(w["mathml"])
    with B.Session(w["cfg"]) as sess:
        kind, lost, _, _ = judge_tree(sess, tree)
    if kind != "lost-operand":
        return False
    lost = set(lost)

    def is_num(n):
        return n.tag == "mn" or (n.tag == "mrow" and n.kids and len(n.kids) == 2 and n.kids[0].tag == "mo" and n.kids[1].tag == "mn")
    for node, _ in strip_wrappers(tree).walk():
        k = node.kids
        if node.tag in ("mrow", "math") and k and len(k) > 3 and k[1].tag == "mo" and (k[1].text or "") in params["ops"]:
            if params["neighbour"] == "mfrac":
                ok = k[0].tag == "mfrac" or k[2].tag == "mfrac"
            else:
                ok = is_num(k[0]) and k[2].tag == "mn"
            if ok:
                below = set(n.text for c in k[params["first_lost"]:] for n, _ in c.walk() if n.tag == "mn")
                if lost <= below:
                    return True
    return False


core.PREDICATES["c06_row_rule_arity"] = pred_row_rule_arity


def replay(witness):
    cfg = witness["cfg"]
    sess = B.Session(cfg)
    try:
        tree = B.from_xml(witness["mathml"])
        kind, lost, detail, res = judge_tree(sess, tree)
        if kind in (None, "crash"):
            return []
        return [core.violation(kind, make_sig(kind, tree, cfg, lost, detail), witness, detail[:700])]
    finally:
        sess.close()


def run(tier, seed):
    t0 = time.time()
    core.build_driver("native")
    rng = random.Random(core.sub_seed(seed, PROP))
    cfgs = B.all_cfgs(operand_oracle=True)
    known, unknown = B.shipped_codes()
    # every configuration is split into several work items so that all cores are used and every configuration is visited
    nsh = core.NPROC
    per_config = int(os.environ.get("C06_PER_CONFIG", "0")) or (2400 if tier == "quick" else 90000)
    pieces = 4 if tier == "quick" else 16
    items = [dict(c) for c in cfgs for _ in range(pieces)]
    rng.shuffle(items)
    budget = 70 if tier == "quick" else 1500
    specs = [{"seed": core.sub_seed(seed, PROP, i), "configs": items[i::nsh], "per_config": max(1, per_config // pieces), "time_budget": budget}
             for i in range(nsh)]
    results = core.run_shards(shard, specs)
    stats, errors = core.Stats.merge(results)
    known_r, fixed_failures, extra_v = core.replay_findings(PROP, replay)
    stats.violations.extend(extra_v)
    return core.conclude(
        PROP, tier, seed, "exploration", stats,
        {"configurations_total": len(cfgs), "codes_judged": known, "codes_shipped_without_published_table_here": unknown},
        ["a planted literal is a 2-digit.2-digit decimal written with the session's own decimal mark (read back from the DecimalSeparators preference)",
         "digit and decimal-sign cells are the published ones of each code (Nemeth lower digits + dots 46; UEB/CMU/Vietnam/Swedish upper digits + the "
         "code's decimal sign), cross-checked once against tests/braille; CMU and Swedish may also write a literal in lower-cell digits (numeric fractions)",
         "operands already missing from the MathML returned by set_mathml are C01's; set_mathml failures are C08's",
         "preferences that legitimately change digit shapes (Vietnam_UseDropNumbers=true) are exercised by C07 only"],
        t0,
        rule="random textbook-grammar expressions (%d construct kinds, depth<=4) with a distinct decimal literal at every operand position, for every shipped braille "
             "code with the language its tests pair with it and each code-specific preference set; oracle: the literal's published cell run (text codes: the literal "
             "itself) occurs in get_braille(\"\") as often as in the expression; non-trivial = set_mathml and get_braille succeeded and the braille was judged; "
             "distinct by (expression shape, configuration)" % len(gen.Textbook.CONSTRUCTS),
        min_nontrivial=300, harness_errors=errors, known_replayed=known_r, fixed_failures=fixed_failures)
