"""C06 — braille renders every operand of the expression.
Unambiguous histories: every operand is a distinct decimal literal NN<mark>DD written with the session's decimal mark, so a lost operand
is read straight off get_braille(""): the literal's cell run in the code's PUBLISHED digit cells (c06_braille.CODES, not MathCAT's tables)
must occur contiguously; for the text codes the literal occurs verbatim.
Literals are decimals and whole numbers over all ten digits (c06_braille.NumberBook); where a code publishes a second digit form (dropped
digits of CMU / Swedish / Vietnam) the oracle decodes that form as well.  Two phases: one session per configuration, and sessions that
switch between the configurations in varied orders (the braille tables are per-session caches that are re-read on a switch)."""
import os
import random
import re
import time

from . import c06_braille as B
from . import core, gen, shrink

PROP = "C06"

# Calibration on the unchanged tree (7000 planted literals per code): Nemeth, UEB (4 preference sets) and Vietnam render every literal in
# its plain published form, so no exception for "special number forms" is needed.  The dropped-digit forms of CMU/Swedish numeric fractions
# are published for INTEGER numerators/denominators only; a decimal literal written that way is not a published form (see the known
# finding C06-cmu-decimal-simple-fraction) and is judged like everything else.


def occurrences(code, lit, braille):
    """how often the literal is rendered in the braille string (None: the published table has no cell for its decimal mark)"""
    info = B.CODES[code]
    if info["kind"] == "text":
        return B.count_verbatim(lit, B.decode_text_digits(code, braille))
    run = B.literal_cells(code, lit)
    if run is None:
        return None
    s = B.mask_highlight(braille)
    n = s.count(run)
    if info["dropped"]:
        low = B.literal_cells(code, lit, dropped=True)
        if low != run:
            n += s.count(low)
    return n


def evaluate(sess, xml):
    r = sess.batch([("set_mathml", xml), ("get_braille", "")], timeout=60)
    if r is None:
        return None
    return r[0], r[1]


def judge_tree(sess, tree):
    """Evaluate one tree under the session's configuration.
    returns (kind or None, lost literals, detail, (set_mathml result, get_braille result) or None)"""
    code = sess.cfg["code"]
    res = evaluate(sess, tree.xml())
    if res is None:
        return "crash", [], str(getattr(sess, "last_failure", "")), None
    sm, br = res
    if sm["r"] != "ok":
        return None, [], "set_mathml " + sm["r"], res          # judged by C08, not here
    if br["r"] != "ok":
        if br["r"] == "panic":
            p = br.get("p") or {}
            what = "in %s: %s" % ((p.get("fn") or "?").split(" <- ")[0], p.get("msg", ""))
        else:
            what = br.get("e") or ""
        return "no-braille", [], "get_braille -> %s: %s" % (br["r"], what), res
    lost, detail = lost_in(code, tree, sm["v"], br["v"])
    if lost:
        return "lost-operand", lost, detail, res
    return None, [], "", res


def lost_in(code, tree, canonical, braille):
    """literals of the tree that survived canonicalization (a loss inside set_mathml is C01's to report) and are missing in the braille"""
    canon = B.fold_digits(re.sub(r"<[^>]*>", " ", canonical))       # a typeface turns digits into mathematical digits: the same number
    lits = []
    for lit in B.tree_literals(tree):
        if lits.count(lit) < B.count_verbatim(lit, canon):
            lits.append(lit)
    lost = []
    for lit in sorted(set(lits)):
        n = occurrences(code, lit, braille)
        if n is None:
            continue                                            # the published table has no cell for this mark: not judged
        if n < lits.count(lit):
            lost.append(lit)
    if lost:
        shown = ["%s=%s%s" % (l, B.literal_cells(code, l) or l, "|" + B.literal_cells(code, l, True) if B.CODES[code].get("dropped") else "") for l in lost]
        return lost, "braille %r lacks %s" % (braille[:500], shown)
    return [], ""


def carry_ops(cfg):
    """operations that change only the braille code (and its own preferences) of a running session: the language, and with it the stored
    canonical expression, stay as they are"""
    return [op for op in B.switch_ops(cfg) if op[1] != "Language"]


def carried_over(prev_cfg, cfg, tree):
    """[set_mathml under prev_cfg's code, get_braille, switch the code only, get_braille again WITHOUT a new set_mathml] in a brand-new
    session, and the same code reached directly: returns (lost after the switch, lost when reached directly, detail)"""
    with B.Session(prev_cfg) as a:
        a.ensure()
        r = a.batch([("set_mathml", tree.xml()), ("get_braille", "")] + carry_ops(cfg) + [("get_braille", "")], timeout=60)
    if r is None or r[0]["r"] != "ok" or r[-1]["r"] != "ok":
        return None
    lost, detail = lost_in(cfg["code"], tree, r[0]["v"], r[-1]["v"])
    direct_cfg = dict(cfg, lang=prev_cfg["lang"])
    with B.Session(direct_cfg) as b:
        b.ensure()
        r2 = b.batch([("set_mathml", tree.xml()), ("get_braille", "")], timeout=60)
    if r2 is None or r2[0]["r"] != "ok" or r2[1]["r"] != "ok":
        return None
    lost2, _ = lost_in(cfg["code"], tree, r2[0]["v"], r2[1]["v"])
    return lost, lost2, detail


def minimise(cfg, tree, kind, lost=None):
    """shrink the expression, then try to move the configuration to the code's plain one.  While shrinking, the literals that are lost
    must be among those that were lost in the original (otherwise the shrinker drifts to some other, often artificial, loss)."""
    orig = set(lost or [])

    def same(sess, t):
        k, l, _, _ = judge_tree(sess, t)
        return k == kind and (not orig or set(l) <= orig)
    sess = B.Session(cfg)
    try:
        sess.ensure()
        small = shrink.shrink_tree(tree, lambda t: same(sess, t), budget=1200,
                                   leaf_factory=lambda: [gen.mn("17%s29" % sess.decimal), gen.mi("x")])
    finally:
        sess.close()
    trials = [("extra", k) for k in sorted(cfg.get("extra", {})) if k not in B.SEPARATOR_PREFS]
    if any(k in cfg.get("extra", {}) for k in B.SEPARATOR_PREFS):
        trials.append(("extra", B.SEPARATOR_PREFS))
    home = B.CODES[cfg["code"]]["langs"][0]
    if cfg["lang"] != home:
        trials.append(("lang", home))
    for key, val in trials:
        trial = dict(cfg)
        if key == "extra":
            ex = dict(trial.get("extra", {}))
            for k in (val if isinstance(val, tuple) else (val,)):
                ex.pop(k, None)
            if ex:
                trial["extra"] = ex
            else:
                trial.pop("extra", None)
        else:
            trial[key] = val
        s2 = B.Session(trial)
        try:
            s2.ensure()
            t2 = B.set_decimal(small.copy(), s2.decimal)
            if judge_tree(s2, t2)[0] == kind:
                cfg, small = trial, t2
                orig = set()
        finally:
            s2.close()
    return cfg, small


def strip_wrappers(t):
    """copy of the tree without the wrappers that canonicalization removes anyway (mstyle/mpadded/one-child mrow -> the child, semantics ->
    its first child): the shrinker sometimes has to keep one (e.g. to stop two tokens from being merged), the signature should not name it"""
    if t.kids is None:
        return t.copy()
    kids = [strip_wrappers(k) for k in t.kids]
    if t.tag == "semantics" and kids:
        return kids[0]
    if t.tag in ("mstyle", "mpadded", "mrow") and len(kids) == 1:
        return kids[0]
    n = t.copy()
    n.kids = kids
    return n


def local_contexts(tree, lost):
    """where the lost literals sit in the (minimal) witness: grandparent>parent[index/arity]:previous_next sibling classes"""
    out = set()
    tree = strip_wrappers(tree)
    for node, path in tree.walk():
        if node.tag == "mn" and node.text in lost and path:
            chain = [tree]
            for i in path[:-1]:
                chain.append(chain[-1].kids[i])
            parent = chain[-1]
            gp = chain[-2].tag if len(chain) > 1 else "-"
            idx = path[-1]

            def cls(k):
                return shrink.token_class(k) if k.kids is None else k.tag
            prev = cls(parent.kids[idx - 1]) if idx > 0 else "^"
            nxt = cls(parent.kids[idx + 1]) if idx + 1 < len(parent.kids) else "$"
            attrs = "".join("[%s=%s]" % (k, parent.attrs[k]) for k in sorted(parent.attrs) if k in ("linethickness", "notation", "bevelled"))
            styled = "{%s,%s}" % (node.attrs["mathvariant"], "whole" if node.text.isdigit() else "decimal") if node.attrs.get("mathvariant") else ""
            out.add("%s>%s%s[%d/%d]:%s_%s%s" % (gp, parent.tag, attrs, idx, len(parent.kids), prev, nxt, styled))
    return sorted(out)


def blame_keys(tree, lost):
    """cheap pre-cluster key of a loss: the maximal subtrees all of whose literals are lost, named by (root tag, parent tag, index)"""
    lost = set(lost)
    keys = set()

    def visit(node, parent, idx):
        """returns (number of literals below node, number of lost ones); records maximal all-lost subtrees"""
        if node.kids is None:
            if node.tag == "mn" and B.LITERAL_RX.fullmatch(node.text or ""):
                return 1, (1 if node.text in lost else 0)
            return 0, 0
        tot = los = 0
        res = []
        for i, k in enumerate(node.kids):
            t, l = visit(k, node, i)
            res.append((t, l))
            tot += t
            los += l
        if not (tot and tot == los and parent is not None):
            # this node is not entirely lost: its entirely lost children are maximal
            for i, (t, l) in enumerate(res):
                if t and t == l:
                    k = node.kids[i]
                    note = node.attrs.get("notation", "") if node.tag == "menclose" else ""
                    keys.add("%s<%s%s[%d]" % (k.tag, node.tag, ":" + note if note else "", i))
        return tot, los
    visit(tree, None, 0)
    return tuple(sorted(keys))


def precluster(tree, lost):
    """cheap key before shrinking.  Expressions with typefaces get a coarse key (which literal kinds / typefaces are lost): the typeface
    machinery works on the whole braille string, so the position of the literal says little; a loss that has nothing to do with typefaces
    shows in the (majority of) expressions without any as well and is keyed by position there."""
    lostset = set(lost)
    styled_lost = sorted(set("%s,%s" % (n.attrs["mathvariant"], "whole" if n.text.isdigit() else "decimal")
                             for n, _ in tree.walk() if n.tag == "mn" and n.text in lostset and n.attrs.get("mathvariant")))
    if styled_lost:
        return ("styled-literal",) + tuple(styled_lost[:2])
    if any(n.kids is None and n.attrs.get("mathvariant") for n, _ in tree.walk()):
        return ("plain-literal-in-styled-expression",)
    return blame_keys(tree, lost)


def pred_under_element(v, params):
    """every lost literal of the witness sits below an element params['tag'] whose attribute params['attr'] contains params['contains']"""
    w = v["witness"]
    if w["cfg"]["code"] != params["code"] or w.get("history"):
        return False
    tree = B.from_xml(w["mathml"])
    with B.Session(w["cfg"]) as sess:
        kind, lost, _, _ = judge_tree(sess, tree)
    if kind != "lost-operand":
        return False
    below = set()
    for node, _ in tree.walk():
        if node.tag == params["tag"] and params["contains"] in node.attrs.get(params["attr"], ""):
            below.update(n.text for n, _ in node.walk() if n.tag == "mn")
    return set(lost) <= below


core.PREDICATES["c06_under_element"] = pred_under_element


def error_root(detail):
    """stable summary of an error chain: innermost rule and the root cause"""
    pats = re.findall(r'attempting replacement pattern: "([^"]*)" for "([^"]*)"', detail)
    causes = [l[len("caused by: "):] for l in detail.splitlines() if l.startswith("caused by: ")]
    root = causes[-1] if causes else detail.splitlines()[0] if detail else ""
    root = re.sub(r"<.*", "", root)
    root = re.sub(r"'[^']*'", "'…'", root)
    root = re.sub(r"\d+", "N", root)[:90].strip()
    return "%s|%s" % ("/".join(pats[-1]) if pats else "-", root)


def make_sig(kind, tree, cfg, lost, detail_full):
    if kind == "lost-operand":
        return "lost-operand | %s | %s" % (" + ".join(local_contexts(tree, lost)), B.cfg_sig(cfg))
    m = re.match(r"get_braille -> panic: in (\S+): (.*)", detail_full, re.S)
    if m:
        msg = re.sub(r"\d+", "N", re.sub(r"`[^`]*`|'[^']*'", "…", m.group(2).splitlines()[0] if m.group(2) else ""))[:80]
        return "%s | panic:%s:%s | %s" % (kind, m.group(1), msg, B.cfg_sig(cfg))
    return "%s | %s | %s" % (kind, error_root(detail_full), B.cfg_sig(cfg))


def make_expression(rng, decimal):
    tb = B.NumberBook(rng, decimal=decimal, max_depth=rng.choice([2, 3, 4]),
                      features=B.NumberBook.focused_pool(rng) if rng.random() < 0.15 else None)
    return tb.expression()


def observe(st, cfg, name, tree, lits, res, i, tag=""):
    """evidence: what was judged, and which digits were planted in which operand position class"""
    if res is not None and res[0]["r"] == "ok" and res[1]["r"] == "ok":
        st.nontrivial.add(core.h16(tree.shape() + name + tag))
        st.count("literals_checked", len(lits))
        st.count("literals_checked_" + cfg["code"], len(lits))
        st.count("whole_number_literals", sum(1 for l in lits if l.isdigit()))
        for node, path in tree.walk():
            if node.tag == "mn" and path and B.LITERAL_RX.fullmatch(node.text or ""):
                cls = B.position_class(tree, path)
                for d in set(node.text):
                    if d.isdigit():
                        st.add("digitpos", "%s|%s|%s" % (cfg["code"], cls, d))
    elif res is not None and res[0]["r"] != "ok":
        st.count("set_mathml_" + res[0]["r"])
    st.add("configs", name + "/" + cfg["lang"])
    if i == 0 and res is not None and res[1]["r"] == "ok":
        st.sample({"config": name + tag, "mathml": tree.xml()[:600], "literals": lits, "braille": res[1]["v"][:300]}, limit=4)


def report_plain(st, seen_pre, cfg, tree, kind, lost, detail):
    """a violation that shows in a session of its own: pre-cluster, shrink, sign"""
    pre = (kind, cfg["code"], precluster(tree, lost) if lost else error_root(detail))
    st.count("raw_violations_" + kind)
    if pre in seen_pre:
        return
    seen_pre.add(pre)
    mcfg, small = minimise(cfg, tree, kind, lost)
    s3 = B.Session(mcfg)
    try:
        k3, lost3, detail3, _ = judge_tree(s3, small)
    finally:
        s3.close()
    if k3 != kind:
        k3, lost3, detail3, mcfg, small = kind, lost, detail, cfg, tree
    sig = make_sig(kind, small, mcfg, lost3, detail3)
    st.violations.append(core.violation(kind, sig, {"cfg": mcfg, "mathml": small.xml()},
                                        "minimal witness " + small.xml() + " | " + detail3[:700]))


def collect_rule_hits(st, sess):
    try:
        hits = sess.ensure().call("rule_hits")["v"]
        for k in hits:
            t = k.split("|")
            if t[0] == "Braille":
                st.add("rules_fired", "%s|%s|%s" % (t[1].split("/Rules/")[-1], t[2], t[3]))
    except Exception:
        pass


# ---------------------------------------------------------------------------------------------
# sessions that switch configuration
# ---------------------------------------------------------------------------------------------
WARM_UP = "<math><mrow><mn>12</mn><mo>+</mo><mfrac><mi>x</mi><mn>3</mn></mfrac></mrow></math>"


def switch_to(sess, cfg):
    """move the running session to cfg (all code preferences set explicitly); False when that failed"""
    r = sess.batch(B.switch_ops(cfg) + [("get_preference", "DecimalSeparators")], timeout=60)
    if r is None or any(x["r"] != "ok" for x in r):
        return False
    sess.cfg = cfg
    sess.decimal = (r[-1].get("v") or ".")[0]
    return True


def judge_with_history(history, cfg, tree):
    """fresh session; every configuration of the history is selected and used once (rules and tables get loaded), then cfg is selected and
    the tree is judged"""
    first = history[0] if history else cfg
    sess = B.Session({"code": first["code"], "lang": first["lang"]})
    try:
        sess.ensure()
        for h in history:
            if not switch_to(sess, h):
                return "crash", [], "cannot select %s" % B.cfg_sig(h), None
            if sess.batch([("set_mathml", WARM_UP), ("get_braille", "")], timeout=60) is None:
                return "crash", [], "driver died in warm-up", None
        if not switch_to(sess, cfg):
            return "crash", [], "cannot select %s" % B.cfg_sig(cfg), None
        return judge_tree(sess, tree)
    finally:
        sess.close()


def history_sig(history):
    return ">".join(B.cfg_sig(h) for h in history) or "-"


def report_history(st, seen_pre, history, cfg, tree, kind, lost, detail):
    """a violation that does NOT show in a session of its own: the history of configurations is part of the witness"""
    st.count("raw_violations_after_switch_" + kind)
    pre = (kind, cfg["code"], "after", history[-1]["code"] if history else "-")
    if pre in seen_pre:
        return
    seen_pre.add(pre)
    k0 = judge_with_history(history, cfg, tree)[0]
    if k0 != kind:
        # the warm-up expressions do not rebuild the state: keep the violation, un-minimised, under a signature that says so
        sig = "%s | after-switch, not reproduced from the configuration history alone | %s" % (kind, B.cfg_sig(cfg))
        st.violations.append(core.violation(kind, sig, {"cfg": cfg, "mathml": tree.xml(), "history": history},
                                            "after %s: %s | %s" % (history_sig(history), tree.xml()[:600], detail[:500])))
        return
    hist = shrink.shrink_list(history, lambda h: judge_with_history(h, cfg, tree)[0] == kind, budget=30)
    orig = set(lost or [])

    def same(t):
        k, l, _, _ = judge_with_history(hist, cfg, t)
        return k == kind and (not orig or set(l) <= orig)
    small = shrink.shrink_tree(tree, same, budget=140,
                               leaf_factory=lambda: [gen.mn("1907"), gen.mi("x")])
    for i in range(len(hist)):                                   # code preferences of the history that do not matter are dropped
        plain = {"code": hist[i]["code"], "lang": hist[i]["lang"]}
        if plain != hist[i]:
            cand = hist[:i] + [plain] + hist[i + 1:]
            if judge_with_history(cand, cfg, small)[0] == kind:
                hist = cand
    if len(hist) == 1:                                            # one cause, one witness: the first code (in a fixed order) that also does it
        for code in sorted(B.CODES):
            if code == hist[0]["code"]:
                break
            cand = [{"code": code, "lang": B.CODES[code]["langs"][0]}]
            if code != cfg["code"] and judge_with_history(cand, cfg, small)[0] == kind:
                hist = cand
                break
    if cfg.get("extra"):                                          # and the plain preference set of the final code, when that is enough
        plain_cfg = {"code": cfg["code"], "lang": cfg["lang"]}
        if judge_with_history(hist, plain_cfg, small)[0] == kind:
            cfg = plain_cfg
    k3, lost3, detail3, _ = judge_with_history(hist, cfg, small)
    if k3 != kind:
        hist, small, lost3, detail3 = history, tree, lost, detail
    sig = make_sig(kind, small, cfg, lost3, detail3) + " | after=" + history_sig(hist)
    st.violations.append(core.violation(kind, sig, {"cfg": cfg, "mathml": small.xml(), "history": hist},
                                        "session used %s, then %s: minimal witness %s | %s" % (history_sig(hist), B.cfg_sig(cfg), small.xml(), detail3[:600])))


def report_carry(st, prev_cfg, cfg, tree):
    """a loss seen after a code switch without set_mathml: confirmed in brand-new sessions, blamed on the switch only when the same code
    reached directly renders the operands, then shrunk"""
    def fails(t):
        c = carried_over(prev_cfg, cfg, t)
        return c is not None and bool(c[0]) and not c[1]
    if not fails(tree):
        st.count("carried_over_losses_not_confirmed_or_also_lost_directly")
        return
    small = shrink.shrink_tree(tree, fails, budget=60)
    c = carried_over(prev_cfg, cfg, small)
    sig = "lost-operand | carried over %s > %s without set_mathml | %s" % (prev_cfg["code"], cfg["code"], shrink.abstract_shape(small))
    st.violations.append(core.violation("lost-operand-carried-over", sig, {"carry": {"prev": prev_cfg, "cfg": cfg}, "cfg": cfg, "mathml": small.xml()},
                                        "the expression was set and brailled as %s, the code was switched to %s and get_braille asked again without set_mathml: %s" % (
                                            prev_cfg["code"], cfg["code"], (c[2] if c else "")[:600])))


def run_tour(st, rng, tour, per_step, deadline, seen_pre):
    sess = B.Session(tour[0])
    history = []
    last = None
    try:
        sess.ensure()
        for step, cfg in enumerate(tour):
            if time.time() > deadline:
                st.count("stopped_by_time_budget")
                break
            if step and last is not None and B.CODES.get(cfg["code"]) is not None:
                # the expression of the previous step is still set: the new code must render ITS operands too (no new set_mathml)
                ltree, lcanon = last
                rr = sess.batch(carry_ops(cfg) + [("get_braille", "")], timeout=60)
                if rr is not None and rr[-1]["r"] == "ok":
                    st.evaluations += 1
                    st.count("evaluations_carried_over_a_code_switch")
                    st.nontrivial.add(core.h16("carry|%s|%s|%s" % (history[-1]["code"], cfg["code"], ltree.shape())))
                    lost, detail = lost_in(cfg["code"], ltree, lcanon, rr[-1]["v"])
                    if lost:
                        pre = ("carry", history[-1]["code"], cfg["code"])
                        if pre in seen_pre:
                            st.count("carried_over_losses_not_minimised")
                        else:
                            seen_pre.add(pre)
                            report_carry(st, history[-1], cfg, ltree)
            if step and not switch_to(sess, cfg):
                st.inconclusive += 1
                st.count("switch_failed")
                break
            last = None
            name = B.cfg_sig(cfg)
            if history:
                st.add("switches", "%s>%s" % (history[-1]["code"], cfg["code"]))
            for i in range(per_step):
                tree, lits = make_expression(rng, sess.decimal)
                kind, lost, detail, res = judge_tree(sess, tree)
                if res is None:
                    st.inconclusive += 1
                    return                                   # the session (and its history) is gone
                st.evaluations += 1
                st.count("evaluations_after_switch" if history else "evaluations_first_configuration")
                observe(st, cfg, name, tree, lits, res, i if history else 1, tag=" after " + history[-1]["code"] if history else "")
                if kind is None and res is not None and res[0]["r"] == "ok":
                    last = (tree, res[0]["v"])
                if kind is None or kind == "crash":
                    continue
                alone = B.Session(cfg)
                try:
                    alone.ensure()
                    t1 = B.set_decimal(tree.copy(), alone.decimal)
                    k1, lost1, detail1, _ = judge_tree(alone, t1)
                finally:
                    alone.close()
                if k1 == kind:
                    report_plain(st, seen_pre, cfg, t1, kind, lost1, detail1)
                else:
                    report_history(st, seen_pre, list(history), cfg, tree, kind, lost, detail)
            history.append(cfg)
        collect_rule_hits(st, sess)
    finally:
        sess.close()


def shard(spec):
    st = core.Stats()
    rng = random.Random(spec["seed"])
    deadline = time.time() + spec["time_budget"]
    seen_pre = set()
    for item in spec["items"]:
        if item["part"] == "tour":
            run_tour(st, rng, item["tour"], item["per_step"], deadline, seen_pre)
            continue
        cfg = item["cfg"]
        sess = B.Session(cfg)
        name = B.cfg_sig(cfg)
        try:
            sess.ensure()
            for i in range(item["n"]):
                if time.time() > deadline:
                    st.count("stopped_by_time_budget")
                    break
                tree, lits = make_expression(rng, sess.decimal)
                kind, lost, detail, res = judge_tree(sess, tree)
                st.evaluations += 1
                observe(st, cfg, name, tree, lits, res, i)
                if kind is None:
                    continue
                if kind == "crash":
                    st.inconclusive += 1
                    continue
                report_plain(st, seen_pre, cfg, tree, kind, lost, detail)
            collect_rule_hits(st, sess)
        finally:
            sess.close()
    return st.to_dict()


def make_tours(rng, cfgs, rounds, steps_per_tour):
    """tours through the configurations such that every ordered pair of CODES occurs as a direct switch in every round"""
    plain = [c for c in cfgs if not any(k in c.get("extra", {}) for k in B.SEPARATOR_PREFS)]
    by_code = {}
    for c in plain:
        by_code.setdefault(c["code"], []).append(c)
    codes = sorted(by_code)
    seq = []
    for _ in range(rounds):
        pairs = [(a, b) for a in codes for b in codes if a != b]
        rng.shuffle(pairs)
        for a, b in pairs:
            if not seq or seq[-1]["code"] != a:
                seq.append(rng.choice(by_code[a]))
            seq.append(rng.choice(by_code[b]))
    return [seq[i:i + steps_per_tour + 1] for i in range(0, len(seq), steps_per_tour)]      # tours overlap by one step: no pair is lost


def pred_row_rule_arity(v, params):
    """Known findings C06-swedish-nested-linear-fraction-arity / C06-cmu-numeric-slash-arity: a rule for a three-child row 'a / b' matches
    rows with more children and writes only children 1 and 3.
    params: code; ops = operator characters of the rule; neighbour = 'mfrac' (first or third child is an mfrac) or 'mn' (first and third child
    are numbers); first_lost = index of the first child whose literals may be lost (Swedish 3: children 4..; CMU 2: the third child is also
    written in the decimal dropped form of C06-cmu-decimal-simple-fraction).
    Holds when the witness has such a row with more than three children and every lost literal sits at or after first_lost."""
    w = v["witness"]
    if w["cfg"]["code"] != params["code"]:
        return False
    tree = B.from_xml(w["mathml"])
    with B.Session(w["cfg"]) as sess:
        kind, lost, _, _ = judge_tree(sess, tree)
    if kind != "lost-operand":
        return False
    lost = set(lost)

    def is_num(n):
        return n.tag == "mn" or (n.tag == "mrow" and n.kids and len(n.kids) == 2 and n.kids[0].tag == "mo" and n.kids[1].tag == "mn")
    for node, _ in strip_wrappers(tree).walk():
        k = node.kids
        if node.tag in ("mrow", "math") and k and len(k) > 3 and k[1].tag == "mo" and (k[1].text or "") in params["ops"]:
            if params["neighbour"] == "mfrac":
                ok = k[0].tag == "mfrac" or k[2].tag == "mfrac"
            else:
                ok = is_num(k[0]) and k[2].tag == "mn"
            if ok:
                below = set(n.text for c in k[params["first_lost"]:] for n, _ in c.walk() if n.tag == "mn")
                if lost <= below:
                    return True
    return False


core.PREDICATES["c06_row_rule_arity"] = pred_row_rule_arity


def pred_typeface_word_end(v, params):
    """Known finding C06-typeface-word-end-not-forgotten: typeface_to_word_mode keeps the 'typeface word has ended' note when the word ends at
    white space and writes the terminator after the first digit of a later number.  Holds when every lost literal is plain (no mathvariant of
    its own), the witness has a token with a typeface (in braille order it may come before or after: index of a root), and the same
    expression without any mathvariant loses nothing."""
    w = v["witness"]
    if w.get("history"):
        return False
    tree = B.from_xml(w["mathml"])
    with B.Session(w["cfg"]) as sess:
        kind, lost, _, _ = judge_tree(sess, tree)
        if kind != "lost-operand":
            return False
        styled = [n for n, _ in tree.walk() if n.kids is None and n.attrs.get("mathvariant")]
        if not styled or any(n.tag == "mn" and n.text in lost for n in styled):
            return False
        plain = tree.copy()
        for node, _ in plain.walk():
            node.attrs.pop("mathvariant", None)
        return judge_tree(sess, plain)[0] is None


core.PREDICATES["c06_typeface_word_end"] = pred_typeface_word_end


def pred_cmu_styled_number(v, params):
    """Known finding C06-cmu-styled-number-per-digit: CMU brailles a number that has a typeface digit by digit.  Holds when, in the
    CANONICAL MathML of the witness, every lost literal is (part of) an mn that carries a typeface: its own mathvariant / mathematical digits,
    or -- because set_mathml folded 'styled number , plain number' into one mn with the first number's typeface -- that of its neighbour."""
    import xml.etree.ElementTree as ET
    w = v["witness"]
    if w["cfg"]["code"] != "CMU" or w.get("history"):
        return False
    tree = B.from_xml(w["mathml"])
    with B.Session(w["cfg"]) as sess:
        kind, lost, _, res = judge_tree(sess, tree)
    if kind != "lost-operand" or res is None:
        return False
    try:
        root = ET.fromstring(res[0]["v"])
    except ET.ParseError:
        return False
    styled_text = []
    for e in root.iter():
        if e.tag.split("}")[-1] == "mn":
            t = e.text or ""
            if e.get("mathvariant") not in (None, "normal", "monospace") or not t.isascii():
                styled_text.append(B.fold_digits(t))
    return all(any(B.count_verbatim(l, t) for t in styled_text) for l in lost)


core.PREDICATES["c06_cmu_styled_number"] = pred_cmu_styled_number


def replay(witness):
    cfg = witness["cfg"]
    tree = B.from_xml(witness["mathml"])
    history = witness.get("history")
    if witness.get("carry"):
        c = carried_over(witness["carry"]["prev"], witness["carry"]["cfg"], tree)
        if c is None or not c[0] or c[1]:
            return []
        sig = "lost-operand | carried over %s > %s without set_mathml | %s" % (witness["carry"]["prev"]["code"], cfg["code"], shrink.abstract_shape(tree))
        return [core.violation("lost-operand-carried-over", sig, witness, c[2][:700])]
    if history:
        kind, lost, detail, res = judge_with_history(history, cfg, tree)
        if kind in (None, "crash"):
            return []
        return [core.violation(kind, make_sig(kind, tree, cfg, lost, detail) + " | after=" + history_sig(history), witness, detail[:700])]
    sess = B.Session(cfg)
    try:
        kind, lost, detail, res = judge_tree(sess, tree)
        if kind in (None, "crash"):
            return []
        return [core.violation(kind, make_sig(kind, tree, cfg, lost, detail), witness, detail[:700])]
    finally:
        sess.close()


def digit_coverage(stats):
    """summary of the planted digits per (code, operand position class); the raw set is dropped from the evidence"""
    raw = stats.sets.pop("digitpos", set())
    table = {}
    for e in raw:
        code, cls, d = e.split("|")
        table.setdefault((code, cls), set()).add(d)
    full = sum(1 for v in table.values() if len(v) == 10)
    lacking = sorted("%s %s lacks %s" % (k[0], k[1], "".join(sorted(set("0123456789") - v))) for k, v in table.items() if len(v) < 10)
    classes = sorted(set(k[1] for k in table))
    return {"position_classes": classes, "code_x_position_class_pairs": len(table), "pairs_with_all_ten_digits": full,
            "pairs_lacking_a_digit": lacking[:40]}


def run(tier, seed):
    t0 = time.time()
    core.build_driver("native")
    rng = random.Random(core.sub_seed(seed, PROP))
    cfgs = B.all_cfgs(operand_oracle=True)
    known, unknown = B.shipped_codes()
    quick = tier == "quick"
    nsh = core.NPROC
    per_config = int(os.environ.get("C06_PER_CONFIG", "0")) or (2400 if quick else 90000)
    pieces = 4 if quick else 16
    items = [{"part": "single", "cfg": dict(c), "n": max(1, per_config // pieces)} for c in cfgs for _ in range(pieces)]
    # sessions that switch between configurations: every ordered pair of codes is a direct switch at least `rounds` times
    tours = make_tours(rng, cfgs, rounds=2 if quick else 12, steps_per_tour=8)
    items += [{"part": "tour", "tour": t, "per_step": 16 if quick else 160} for t in tours]
    rng.shuffle(items)
    budget = 70 if quick else 1500
    specs = [{"seed": core.sub_seed(seed, PROP, i), "items": items[i::nsh], "time_budget": budget} for i in range(nsh)]
    results = core.run_shards(shard, specs)
    stats, errors = core.Stats.merge(results)
    cover = digit_coverage(stats)
    known_r, fixed_failures, extra_v = core.replay_findings(PROP, replay)
    stats.violations.extend(extra_v)
    ncodes = len(set(c["code"] for c in cfgs))
    return core.conclude(
        PROP, tier, seed, "exploration", stats,
        {"configurations_total": len(cfgs), "codes_judged": known, "codes_shipped_without_published_table_here": unknown,
         "switching_tours": len(tours), "ordered_code_pairs_possible": ncodes * (ncodes - 1), "planted_digit_coverage": cover},
        ["a planted literal is a 2-digit.2-digit decimal written with the session's own decimal mark (read back from the DecimalSeparators preference) "
         "or a whole number of 3-4 digits; all ten digits are drawn",
         "digit and decimal-sign cells are the published ones of each code (Nemeth lower digits + dots 46; UEB/CMU/Vietnam/Swedish upper digits + the "
         "code's decimal sign), cross-checked once against tests/braille; for CMU, Swedish and Vietnam a literal written in dropped (lower-cell) digits "
         "is decoded as well (numeric fractions, divisors, drop numbers)",
         "operands already missing from the MathML returned by set_mathml are C01's; set_mathml failures are C08's",
         "in a switching session every code-specific preference is set explicitly at each switch; separator-preference variants are left to the "
         "one-configuration sessions"],
        t0,
        rule="random textbook-grammar expressions (%d construct kinds incl. numeric fractions, 3-child 'number / number' rows, mixed numbers, numeric scripts, "
             "depth<=4) with a distinct decimal or whole-number literal at every operand position, (1) one session per shipped braille code x language x "
             "code-specific preference set and (2) sessions that switch through the configurations so that every ordered pair of codes is a direct switch; "
             "oracle: the literal's published cell run (upper or, where the code has them, dropped digits; text codes: the literal itself) occurs in "
             "get_braille(\"\") as often as in the expression; non-trivial = set_mathml and get_braille succeeded and the braille was judged; distinct by "
             "(expression shape, configuration, previous code)" % len(B.NumberBook.CONSTRUCTS),
        min_nontrivial=300, harness_errors=errors, known_replayed=known_r, fixed_failures=fixed_failures)
