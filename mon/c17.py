"""C17 — equivalent XML spellings of an expression give identical results.

Oracle 1 (metamorphic): for an expression E and a respelling E' that differs from E only in XML surface form (namespace prefix /
default namespace, white space between elements and inside tags, comments and processing instructions between elements, MathJax
bookkeeping class attributes, attribute quoting, raw character vs decimal / hex / named reference) the set_mathml result (ids
stripped), get_spoken_text (TTS=None) and get_braille (Nemeth, UEB) are equal.  Which named reference stands for which characters
is taken from Python's html.entities.html5, never from MathCAT's table.
Oracle 2 (exhaustive): every name of src/entities.in, written as <mtext>&name;</mtext> (and inside text and in an attribute
value), gives what the numeric references of its HTML5 expansion give; unknown names give Err."""
import os
import random
import re
import time
import xml.etree.ElementTree as ET

from . import core, gen, mml, shrink
from . import c17_surface as S

PROP = "C17"
BASE_PREFS = {"TTS": "None", "Language": "en", "SpeechStyle": "ClearSpeak", "Verbosity": "Medium"}
CODES = (("n", "Nemeth"), ("u", "UEB"))
MAX_MINIMISATIONS_PER_SHARD = 300
NONTRIVIAL_CAP_PER_SHARD = 60000       # hashes kept per shard (memory); the counter respellings_compared_on_all_observables is not capped


# ------------------------------------------------------------------------------------------------
# driver session: one process, two MathCAT sessions (threads) that differ in BrailleCode
# ------------------------------------------------------------------------------------------------
class Sess:
    def __init__(self):
        self.d = None
        self.restarts = 0

    def ensure(self):
        if self.d is None or not self.d.alive():
            if self.d is not None:
                self.d.close()
                self.restarts += 1
            self.d = core.Driver("native")
            for s, code in CODES:
                p = dict(BASE_PREFS)
                p["BrailleCode"] = code
                self.d.init(p, s=s)
        return self.d

    def close(self):
        if self.d is not None:
            self.d.close()
            self.d = None

    def set_only(self, xmls):
        """set_mathml results (session n) or None when the driver died"""
        try:
            return self.ensure().batch([("set_mathml", x) for x in xmls], s="n")
        except (core.DriverDied, core.DriverTimeout):
            self.close()
            return None

    def observe(self, xmls):
        """list of observations (one per spelling) or None when the driver died / timed out"""
        try:
            d = self.ensure()
            ops = []
            for x in xmls:
                ops += [("set_mathml", x), ("get_spoken_text",), ("get_braille", "")]
            rn = d.batch(ops, s="n")
            ops = []
            for x in xmls:
                ops += [("set_mathml", x), ("get_braille", "")]
            ru = d.batch(ops, s="u")
        except (core.DriverDied, core.DriverTimeout):
            self.close()
            return None
        out = []
        for i in range(len(xmls)):
            sm, sp, bn = rn[3 * i], rn[3 * i + 1], rn[3 * i + 2]
            sm2, bu = ru[2 * i], ru[2 * i + 1]
            out.append({"st": sm["r"], "errcls": err_class(sm), "mathml": mml.strip_ids(sm["v"]) if sm["r"] == "ok" else None,
                        "speech": getter(sp), "nemeth": getter(bn),
                        "st_u": sm2["r"], "mathml_u": mml.strip_ids(sm2["v"]) if sm2["r"] == "ok" else None, "ueb": getter(bu)})
        return out


def getter(res):
    return [res["r"], res["v"] if res["r"] == "ok" else None]


def err_class(res):
    """stable class of a failed set_mathml: no positions, no echoed input"""
    if res["r"] == "ok":
        return ""
    if res["r"] == "panic":
        p = res.get("p") or {}
        fn = (p.get("fn") or "?").split(" <- ")[0]
        return "%s:%s" % (fn, re.sub(r"\d+", "N", (p.get("msg") or ""))[:60])
    e = res.get("e") or ""
    m = re.search(r"Error is: (.*)", e)
    line = m.group(1) if m else (e.strip().splitlines() or [""])[0]
    line = re.sub(r"'[^']*'", "'…'", line)
    line = re.sub(r"<.*", "<…", line)
    line = re.sub(r"\d+", "N", line)
    return line.strip()[:80]


def compare(b, v):
    """None when the two observations agree, else a short effect label (first differing observable)"""
    if b["st"] != v["st"]:
        return "status:%s>%s[%s]" % (b["st"], v["st"], v["errcls"] or b["errcls"])
    if b["st"] != "ok":
        return None
    if b["mathml"] != v["mathml"]:
        return "mathml"
    if b["speech"][0] != v["speech"][0]:
        return "speech-status"
    if b["speech"] != v["speech"]:
        return "speech"
    if b["nemeth"][0] != v["nemeth"][0]:
        return "braille-Nemeth-status"
    if b["nemeth"] != v["nemeth"]:
        return "braille-Nemeth"
    if b["st_u"] != v["st_u"]:
        return "status-under-UEB"
    if b["mathml_u"] != v["mathml_u"]:
        return "mathml-under-UEB"
    if b["ueb"][0] != v["ueb"][0]:
        return "braille-UEB-status"
    if b["ueb"] != v["ueb"]:
        return "braille-UEB"
    return None


def effect_of(sess, tree):
    """effect label of the marked tree against its own base spelling ('' = agree, None = could not be evaluated)"""
    base, var = S.spell(tree, marks=False), S.spell(tree)
    if base == var:
        return ""
    o = sess.observe([base, var])
    if o is None:
        return None
    return compare(o[0], o[1]) or ""


# ------------------------------------------------------------------------------------------------
# minimisation and signatures
# ------------------------------------------------------------------------------------------------
def signature(tree, effect):
    """minimal atom kinds | first differing observable | what had to stay in the expression"""
    return "%s | %s | %s" % ("+".join(sorted(set(S.kinds_of(tree)))) or "-", effect, " ; ".join(S.residue(tree)) or "-")


def minimise(sess, tree, effect):
    """smallest atom set and smallest tree (tokens normalised to <mi>x</mi> wherever possible) that still show the same effect"""
    pairs = S.collect(tree)
    if len(pairs) > 1:
        pairs = shrink.shrink_list(pairs, lambda ps: effect_of(sess, S.with_atoms(tree, ps)) == effect, budget=120)
    small = S.with_atoms(tree, pairs)
    small = shrink.shrink_tree(small, lambda t: t.tag == "math" and effect_of(sess, t) == effect, budget=400,
                               leaf_factory=lambda: [gen.mi("x")])
    pairs = S.collect(small)
    if len(pairs) > 1:
        pairs = shrink.shrink_list(pairs, lambda ps: effect_of(sess, S.with_atoms(small, ps)) == effect, budget=40)
        small = S.with_atoms(small, pairs)
    # normal form that keeps the atoms attached: a token / an attribute stays in the witness only when the failure needs it
    for _ in range(60):
        changed = False
        for node, path in small.walk():
            if not path:
                continue
            cands = []
            if node.kids is None and not (node.tag == "mi" and node.text == "x"):
                c = gen.mi("x")
                c.attrs = dict(S.real_attrs(node))
                S.set_marks(c, [a for a in S.get_marks(node) if not (a[0] == "char" and a[1] is None) and a[0] != "tokws"])
                cands.append(c)
                inner = [a for a in S.get_marks(node) if a[0] == "tokws"]
                if inner and (node.text or "") != "a b":
                    # an inner white-space run needs two words around it: canonical two-word token of the same kind
                    c = gen.N(node.tag, text="a b")
                    c.attrs = dict(S.real_attrs(node))
                    S.set_marks(c, [a for a in S.get_marks(node) if a[0] not in ("char", "tokws")] + [["tokws", 1, 1, inner[0][3], inner[0][4], " "]])
                    cands.append(c)
            for k, _v in S.real_attrs(node):
                c = node.copy()
                del c.attrs[k]
                cands.append(c)
            for c in cands:
                t2 = shrink._replace_at(small, path, c)
                if effect_of(sess, t2) == effect:
                    small, changed = t2, True
                    break
            if changed:
                break
        if not changed:
            break
    if effect_of(sess, small) != effect:
        small = tree
    return small


def witness_of(source, tree):
    return {"t": "respell", "source": source, "mathml": S.spell(tree, marks=False), "atoms": S.collect(tree), "spelling": S.spell(tree)}


def from_xml(xml):
    """gen.N tree of a base spelling (elements without element children keep their text)"""
    def conv(e):
        tag = e.tag.split("}")[-1]
        kids = list(e)
        if kids or (tag not in mml.TOKENS and not (e.text or "")):
            n = gen.N(tag, [conv(k) for k in kids])
        else:
            n = gen.N(tag, text=e.text or "")
        n.attrs = dict(e.attrib)
        return n
    return conv(ET.fromstring(xml))


# ------------------------------------------------------------------------------------------------
# oracle 2: the entity table, exhaustively
# ------------------------------------------------------------------------------------------------
ENTITY_CONTEXTS = ("mtext", "inner", "spaced", "attr")


def entity_doc(ctx, payload):
    if ctx == "mtext":
        return "<math><mtext>%s</mtext></math>" % payload
    if ctx == "inner":
        return "<math><mtext>x%sy</mtext></math>" % payload
    if ctx == "spaced":
        return "<math><mtext>a %s b</mtext></math>" % payload
    return "<math><mi data-c17='%s'>x</mi></math>" % payload


def numeric(s):
    return "".join("&#x%X;" % ord(c) for c in s)


def name_class(name):
    return "name-with-digit" if re.search(r"\d", name) else name


def judge_entity(sess, name, ctx, st=None):
    """returns (verdict, violation or None); verdict in agree / allowance / violation / inconclusive / no-reference"""
    exp = S.H5.get(name)
    if exp is None:
        return "no-reference", None
    docs = [entity_doc(ctx, "&%s;" % name), entity_doc(ctx, numeric(exp))]
    allow = name in S.LEADING_SPACE_NAMES
    if allow:
        docs.append(entity_doc(ctx, numeric(" " + exp)))
    r = sess.set_only(docs)
    if r is None:
        return "inconclusive", None
    named, ref = r[0], r[1]
    if ref["r"] != "ok":
        return "inconclusive", None
    if st is not None and named["r"] == "ok":
        # direct observation where the character survives canonicalisation untouched (evidence only)
        try:
            root = mml.parse(named["v"])
            got = root.find(".//mi").get("data-c17") if ctx == "attr" else mml.flat_text(root)
            want = {"attr": exp, "inner": "x" + exp + "y", "spaced": "a " + exp + " b", "mtext": exp}[ctx]
            st.count("entity_direct_equal" if got == want else "entity_changed_by_canonicalisation_same_as_numeric")
        except Exception:
            pass
    if named["r"] == "ok" and mml.strip_ids(named["v"]) == mml.strip_ids(ref["v"]):
        if exp.strip(S.XML_WS) == "" and ctx != "attr":
            # &Tab; / &NewLine; inside token text are MathML white space: one blank between words, nothing at the ends
            blank = sess.set_only([entity_doc(ctx, " " if ctx == "inner" else "")])
            if blank is None or blank[0]["r"] != "ok":
                return "inconclusive", None
            if mml.strip_ids(named["v"]) != mml.strip_ids(blank[0]["v"]):
                sig = "entity-table | %s | white-space-in-token:mathml" % name
                return "violation", core.violation("entity-table", sig, {"t": "entity", "name": name, "ctx": ctx},
                                                   "&%s; in token text (%s) gave %r, a blank / nothing gives %r" % (name, docs[0], flat_raw(named["v"]), flat_raw(blank[0]["v"])))
        return "agree", None
    if allow and named["r"] == "ok" and r[2]["r"] == "ok" and mml.strip_ids(named["v"]) == mml.strip_ids(r[2]["v"]):
        return "allowance", None
    if named["r"] == "ok":
        effect = "mathml"
        detail = "&%s; gave %r, its HTML5 expansion %s gave %r" % (name, flat(named["v"]), " ".join("U+%04X" % ord(c) for c in exp), flat(ref["v"]))
    else:
        effect = "status:ok>%s[%s]" % (named["r"], err_class(named))
        detail = "&%s; (HTML5: %s) -> %s: %s" % (name, " ".join("U+%04X" % ord(c) for c in exp), named["r"], err_class(named))
    sig = "entity-table | %s | %s" % (name_class(name), effect)
    return "violation", core.violation("entity-table", sig, {"t": "entity", "name": name, "ctx": ctx}, "%s in %s" % (detail, docs[0]))


def flat_raw(xml):
    try:
        return "".join(mml.parse(xml).itertext())
    except Exception:
        return xml[:200]


def flat(xml):
    try:
        root = mml.parse(xml)
        return "".join(root.itertext()).strip() + "".join("[%s]" % e.get("data-c17") for e in root.iter() if e.get("data-c17") is not None)
    except Exception:
        return xml[:200]


def judge_unknown(sess, name, ctx):
    doc = entity_doc(ctx, "&%s;" % name)
    r = sess.set_only([doc])
    if r is None:
        return "inconclusive", None
    if r[0]["r"] == "err":
        return "agree", None
    what = "ok" if r[0]["r"] == "ok" else "panic[%s]" % err_class(r[0])
    sig = "unknown-entity | %s | %s" % (ctx, what)
    detail = "unknown entity name in %s was not reported as an error: %s -> %s" % (doc, r[0]["r"], flat(r[0]["v"]) if r[0]["r"] == "ok" else err_class(r[0]))
    return "violation", core.violation("unknown-entity", sig, {"t": "unknown", "name": name, "ctx": ctx}, detail)


def unknown_names(rng, count):
    """names that neither HTML5 nor the tree's table knows: edits of known names and random letter strings"""
    known = set(S.H5) | set(S.table_names())
    pool = sorted(S.H5)
    out = ["nosuchentity", "nosuch1", "Nosuch", "x", "ALPHA", "alpha1", "lambdaa", "amp1", "ltt", "QUOTE"]
    letters = "abcdefghijklmnopqrstuvwxyzABCDEFGHIJKLMNOPQRSTUVWXYZ"
    tries = 0
    while len(out) < count and tries < count * 50:
        tries += 1
        n = rng.choice(pool)
        how = rng.randrange(6)
        if how == 0:
            c = n[:-1]
        elif how == 1:
            c = n + rng.choice(letters + "0123456789")
        elif how == 2:
            c = n.swapcase()
        elif how == 3:
            i = rng.randrange(len(n))
            c = n[:i] + rng.choice(letters) + n[i + 1:]
        elif how == 4:
            c = n[1:]
        else:
            c = "".join(rng.choice(letters) for _ in range(rng.randint(1, 9)))
        if c and c not in known and c not in out and re.fullmatch(r"[A-Za-z][A-Za-z0-9]*", c):
            out.append(c)
    return [n for n in out if n not in known]


# ------------------------------------------------------------------------------------------------
# shard
# ------------------------------------------------------------------------------------------------
def kind_family(kind):
    """atom kind without entity names / parent tags (evidence sets stay small)"""
    k = re.sub(r"named\[[^\]]*\]", "named", kind)
    return re.sub(r"@(?!text|attr)[\w-]+$", "", k)


def coarse(kind):
    """atom kind without the position of a MathJax class among its neighbours (changes while a witness shrinks)"""
    return re.sub(r",(alone|first|middle|last)\]", "]", kind)


def run_group(sess, st, rng, source, tree, families, seen_pre, family_stats=True):
    variants = []
    for fam in families:
        v = S.make_variant(tree, fam, rng)
        variants.append((fam, v, S.spell(v)))
    base = S.spell(tree, marks=False)
    todo = [(f, v, x) for f, v, x in variants if x != base]
    st.count("variants_identical_to_base_skipped", len(variants) - len(todo))
    if not todo:
        return
    obs = sess.observe([base] + [x for _, _, x in todo])
    if obs is None:
        st.inconclusive += 1
        st.count("driver_died_or_timed_out")
        return
    b = obs[0]
    if b["st"] != "ok":
        st.count("base_set_mathml_" + b["st"])
    for (fam, v, x), o in zip(todo, obs[1:]):
        st.evaluations += 1
        effect = compare(b, o)
        st.count("compared_" + fam)
        if b["st"] == "ok" and o["st"] == "ok":
            st.count("respellings_compared_on_all_observables")
            if len(st.nontrivial) < NONTRIVIAL_CAP_PER_SHARD:
                st.nontrivial.add(core.h16(x))
        for k in S.kinds_of(v):
            st.add("atom_kinds", kind_family(k))
            m = re.match(r"char:named\[([^\]]*)\]", k)
            if m:
                st.add("entity_names_used_in_respellings", m.group(1))
        if source.startswith("tricky:"):
            st.add("tricky_cases", source)
        if fam == "mixed" and effect is None:
            st.sample({"base": base[:500], "respelling": x[:900], "mathml_equal": True, "speech": b["speech"][1], "nemeth": b["nemeth"][1], "ueb": b["ueb"][1]}, limit=2)
        if effect is None:
            continue
        st.count("raw_violations")
        kinds = frozenset(coarse(k) for k in S.kinds_of(v))
        items = set(S.residue(v))
        done = seen_pre.setdefault(effect, [])
        hit = None
        for vio in done:
            if frozenset(coarse(k) for k in vio["kinds"]) <= kinds and set(vio["residue"]) <= items:
                hit = vio
                break
        if hit is not None:
            hit["count"] += 1
            st.count("violations_explained_by_an_already_minimised_witness")
            continue
        if seen_pre.get("total", 0) >= MAX_MINIMISATIONS_PER_SHARD:
            st.count("violations_not_minimised_cap_reached")
            continue
        seen_pre["total"] = seen_pre.get("total", 0) + 1
        small = minimise(sess, v, effect)
        dup = [x for x in st.violations if x["sig"] == signature(small, effect)]
        if dup:
            dup[0]["count"] += 1
            continue
        vio = core.violation(
            "respelling", signature(small, effect), witness_of(source, small),
            "base %s | respelling %s | first difference: %s" % (S.spell(small, marks=False)[:500], S.spell(small)[:700], effect))
        vio["kinds"] = sorted(set(S.kinds_of(small)))
        vio["residue"] = S.residue(small)
        vio["count"] = 1
        done.append(vio)
        st.violations.append(vio)


def shard(spec):
    st = core.Stats()
    rng = random.Random(spec["seed"])
    deadline = time.time() + spec["time_budget"]
    sess = Sess()
    seen_sig = {}
    try:
        sess.ensure()
        # oracle 2: this shard's slice of the entity table
        for name in spec["entity_names"]:
            for ctx in ENTITY_CONTEXTS:
                if ctx == "attr" and name in ("Tab", "NewLine"):
                    st.count("entity_attr_context_skipped_xml_whitespace")      # attribute-value normalisation treats raw and referenced white space differently
                    continue
                verdict, v = judge_entity(sess, name, ctx, st)
                st.evaluations += 1
                st.count("entity_" + verdict)
                if verdict in ("agree", "allowance", "violation"):
                    st.nontrivial.add(core.h16("entity|%s|%s" % (name, ctx)))
                    st.add("entity_names_judged", name)
                if verdict == "allowance":
                    st.add("entity_allowance_used", name)
                if verdict == "agree" and ctx == "inner":
                    st.sample({"entity_table_case": entity_doc(ctx, "&%s;" % name), "same_result_as": entity_doc(ctx, numeric(S.H5[name])),
                               "html5_expansion": " ".join("U+%04X" % ord(c) for c in S.H5[name])}, limit=1)
                if v is not None:
                    if v["sig"] in seen_sig:
                        seen_sig[v["sig"]]["count"] += 1
                    else:
                        v["count"] = 1
                        seen_sig[v["sig"]] = v
                        st.violations.append(v)
        for name in spec["unknown_names"]:
            for ctx in ("mtext", "attr"):
                verdict, v = judge_unknown(sess, name, ctx)
                st.evaluations += 1
                st.count("unknown_entity_" + verdict)
                if verdict != "inconclusive":
                    st.nontrivial.add(core.h16("unknown|%s|%s" % (name, ctx)))
                if v is not None:
                    if v["sig"] in seen_sig:
                        seen_sig[v["sig"]]["count"] += 1
                    else:
                        v["count"] = 1
                        seen_sig[v["sig"]] = v
                        st.violations.append(v)
        # oracle 1: respellings
        seen_pre = {}
        tricky = S.tricky()
        for idx in spec["tricky"]:
            name, tree = tricky[idx]
            for rnd in range(spec["tricky_rounds"]):
                if time.time() > deadline:
                    st.count("stopped_by_time_budget")
                    break
                fams = list(S.FAMILIES) + [rng.choice(S.ADV_FAMILIES)]
                if rnd % 2:
                    fams += ["char", "char-all", "quote", "mixed"]
                run_group(sess, st, rng, "tricky:" + name, tree, fams, seen_pre)
        for g in range(spec["groups"]):
            if time.time() > deadline:
                st.count("stopped_by_time_budget")
                break
            tb = gen.Textbook(rng, max_depth=rng.choice([1, 2, 3, 4]))
            tree, _ = tb.expression()
            fams = list(S.FAMILIES)
            if rng.random() < 0.3:
                fams.append(rng.choice(S.ADV_FAMILIES))
            run_group(sess, st, rng, "gen", tree, fams, seen_pre)
            st.count("generated_expressions")
            if g % 6 == 5 and tree.kids:
                # the same expression handed over WITHOUT its <math> wrapper (MathCAT accepts a bare fragment and adds the wrapper): the
                # respellings, including comments / PIs in front of and behind the outermost element, must still agree with each other
                bare = tree.kids[0] if len(tree.kids) == 1 else gen.N("mrow", list(tree.kids))
                bare = S.strip_marks(bare)
                run_group(sess, st, rng, "bare", bare, list(S.FAMILIES) + ["outer"], seen_pre)
                st.count("bare_fragment_expressions")
        st.count("driver_restarts", sess.restarts)
    finally:
        sess.close()
    return st.to_dict()


# ------------------------------------------------------------------------------------------------
# replay, run
# ------------------------------------------------------------------------------------------------
def replay(w):
    sess = Sess()
    try:
        if w.get("t") == "entity":
            verdict, v = judge_entity(sess, w["name"], w["ctx"])
            return [v] if v is not None else []
        if w.get("t") == "unknown":
            verdict, v = judge_unknown(sess, w["name"], w["ctx"])
            return [v] if v is not None else []
        tree = S.with_atoms(from_xml(w["mathml"]), w["atoms"])
        effect = effect_of(sess, tree)
        if not effect:
            return []
        return [core.violation("respelling", signature(tree, effect), w,
                               "base %s | respelling %s | first difference: %s" % (S.spell(tree, marks=False)[:500], S.spell(tree)[:700], effect))]
    finally:
        sess.close()


def collapse_table_failures(violations, threshold=12):
    """a systematic failure of the entity substitution hits hundreds of names in the same way: one cluster, not one per name"""
    by_effect = {}
    for v in violations:
        if v["kind"] == "entity-table":
            by_effect.setdefault(v["sig"].split(" | ")[2], []).append(v)
    out = [v for v in violations if v["kind"] != "entity-table"]
    for effect, vs in sorted(by_effect.items()):
        names = sorted(set(v["sig"].split(" | ")[1] for v in vs))
        if len(names) <= threshold:
            out.extend(vs)
            continue
        first = dict(vs[0])
        first["sig"] = "entity-table | many-names | %s" % effect
        first["count"] = sum(v.get("count", 1) for v in vs)
        first["detail"] = "%d names fail in the same way (%s ...); first: %s" % (len(names), ", ".join(names[:15]), first["detail"])
        out.append(first)
    return out


def run(tier, seed):
    t0 = time.time()
    core.build_driver("native")
    names = S.table_names()
    rng = random.Random(core.sub_seed(seed, PROP, "plan"))
    unknown = unknown_names(rng, 150 if tier == "quick" else 1500)
    nsh = core.NPROC
    ntricky = len(S.tricky())
    total_groups = int(os.environ.get("C17_GROUPS", "0")) or (15000 if tier == "quick" else 400000)
    budget = int(os.environ.get("C17_BUDGET", "0")) or (55 if tier == "quick" else 1500)
    specs = []
    for i in range(nsh):
        specs.append({"seed": core.sub_seed(seed, PROP, i), "entity_names": names[i::nsh], "unknown_names": unknown[i::nsh],
                      "tricky": list(range(ntricky))[i::nsh], "tricky_rounds": 8 if tier == "quick" else 60,
                      "groups": total_groups // nsh, "time_budget": budget})
    results = core.run_shards(shard, specs)
    stats, errors = core.Stats.merge(results)
    known, fixed_failures, extra_v = core.replay_findings(PROP, replay)
    stats.violations.extend(extra_v)
    stats.violations = collapse_table_failures(stats.violations)
    judged = len(stats.sets.get("entity_names_judged", ()))
    if judged < len(names):
        errors.append("entity table not judged completely: %d of %d names" % (judged, len(names)))
    extra = {"exhaustive_parts": {"entity_table": judged == len(names), "respellings": False},
             "entity_table": {"names_in_src_entities_in": len(names), "names_judged": judged, "contexts": list(ENTITY_CONTEXTS),
                              "reference": "html.entities.html5 (Python %s)" % ".".join(map(str, __import__("sys").version_info[:3])),
                              "allowance": "the W3C-2007 spelling SPACE + combining mark is accepted for " + ", ".join(S.LEADING_SPACE_NAMES),
                              "unknown_names_tried": len(unknown)},
             "observables": ["set_mathml result with id / data-id-added removed", "get_spoken_text (TTS=None, en, ClearSpeak)",
                             "get_braille Nemeth", "get_braille UEB"],
             "tricky_cases_total": ntricky}
    stats.sets.pop("entity_names_judged", None)
    return core.conclude(
        PROP, tier, seed, "exploration", stats, extra,
        ["html.entities.html5 defines which characters a named reference stands for; the XML 1.0 / Namespaces recommendations define which "
         "surface changes leave a document unchanged (white space in element content and inside tags, comments, PIs, quote style, character references, prefixes)",
         "MathML 3 section 2.1.7: inside token elements (mi mn mo mtext ms) white space is trimmed at both ends and every inner run of space/tab/LF/CR, typed or "
         "written as a reference, is one blank; white space in attribute values is never varied; nothing is inserted into empty elements other than mrow",
         "MathJax bookkeeping = a class attribute whose value starts with MJX- or data-mjx-, added to elements that have no class attribute",
         "ids are removed from the returned MathML before comparing (random prefix)"],
        t0,
        rule="metamorphic comparison base spelling vs respelling (11 families of surface atoms + 3 adversarial families) over the hand-written tricky "
             "expressions and random textbook-grammar expressions, plus the exhaustive entity table (every name x 3 contexts) and unknown names; "
             "non-trivial = a respelling textually different from its base for which set_mathml succeeded on both and all four observables were compared "
             "(distinct by spelling; at most 60000 hashes are kept per shard, the counter respellings_compared_on_all_observables is the full number), "
             "or an entity-table entry that was judged (distinct by name x context)",
        min_nontrivial=3000 if tier == "quick" else 30000, harness_errors=errors, known_replayed=known, fixed_failures=fixed_failures)
