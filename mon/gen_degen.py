"""'degenerate' workload: well-formed presentation MathML that is valid but odd — empty tokens, empty rows and `none` in every
script position, one-child rows, wrapper elements, mfenced in every attribute shape, embedded HTML / mglyph in tokens, author ids.
Used by C01, C02, C09 (and, for hostile variants, C08)."""
from . import opdict
from .gen import N, mi, mn, mo, mtext, mrow, math

LETTERS = list("abcdefghijklmnopqrstuvwxyzABCDEFGHIJKLMNOPQRSTUVWXYZ")
GREEK = list("αβγδεθλμπσφωΓΔΘΛΠΣΦΩ")
WORDS = ["sin", "cos", "tan", "log", "ln", "lim", "max", "min", "exp", "det", "arc", "arcsin", "abc", "dx", "Na", "Cl", "H", "O", "NaCl", "Fe",
         "if", "mod", "II", "iv", "XIV", "cm", "kg", "AB", "ABC", "sinh", "gcd", "e", "i", "π"]
NUMBERS = ["0", "1", "2", "3", "7", "10", "12", "42", "100", "314", "3.14", "0.5", ".5", "5.", "1,000", "12,345.67", "1 000", "1.000,5",
           "-3", "−7", "2x", "1/2", "0x1F", "١٢", "1e5", "½"]
OPS_COMMON = ["+", "-", "−", "=", "<", ">", "(", ")", "[", "]", "{", "}", "|", "‖", ",", ";", ".", ":", "!", "′", "'", "″",
              "_", "^", "~", "¯", "→", "⁡", "⁢", "⁣", "⁤", "--", "...", "::", "||", ":=", "∘", "º", "°",
              "*", "/", "×", "·", "⋅", "∑", "∫", "%", "$", "…", "⋯", "∞", "±", "∈", "≤",
              "⟨", "⟩", "⌈", "⌉", "&", "<=", "˙", "¨", "˜", "̂", "̄", "⃗", "⏞", "⏟", "ⅆ", "d", "∂"]
TEXTS = ["and", "or", "if", "where", "for all", " ", "", " ", "...", "--", "---", "if x", "  padded  ", "a", "x y", "the", "such that",
         " ", "  ", "1st", "text with, comma", "&", "<", "'", "\"", "--x", "arc", "sin"]
VARIANTS = ["normal", "bold", "italic", "bold-italic", "double-struck", "script", "fraktur", "sans-serif", "monospace"]
NOTATIONS = ["box", "circle", "roundedbox", "top", "bottom", "left", "right", "updiagonalstrike", "longdiv", "actuarial", "radical", "horizontalstrike", "madruwb", ""]

TWO = ["mfrac", "mroot", "msub", "msup", "munder", "mover"]
THREE = ["msubsup", "munderover"]
ONE_INFERRED = ["msqrt", "menclose", "mstyle", "mpadded", "mphantom", "merror", "mtd"]

EMPTY_KINDS = ["mrow0", "none", "mi0", "mn0", "mo0", "mtext0", "mtext_sp", "mtext_nbsp", "mspace", "mphantom", "mstyle0", "mpadded0", "mrow_mrow0",
               "mrow_sp", "mstyle_sp", "mo_sp", "mphantom0", "semantics_empty", "strut", "strut0", "mspace0", "mspace_neg", "mtext_zw", "mtext_zw2", "mi_zw"]

_DICT_OPS = None


def dict_ops():
    global _DICT_OPS
    if _DICT_OPS is None:
        _DICT_OPS = sorted(opdict.load().keys())
    return _DICT_OPS


def empty_like(kind):
    """a child that renders nothing (or only blank space)"""
    return {
        "mrow0": lambda: mrow(),
        "none": lambda: N("none"),
        "mi0": lambda: mi(""),
        "mn0": lambda: mn(""),
        "mo0": lambda: mo(""),
        "mtext0": lambda: mtext(""),
        "mtext_sp": lambda: mtext(" "),
        "mtext_nbsp": lambda: mtext(" "),
        "mspace": lambda: N("mspace", width="1em"),
        "mphantom": lambda: N("mphantom", [mi("q")]),
        "mphantom0": lambda: N("mphantom"),
        "mstyle0": lambda: N("mstyle"),
        "mpadded0": lambda: N("mpadded", width="0"),
        "mrow_mrow0": lambda: mrow(mrow()),
        "mrow_sp": lambda: mrow(mtext(" ")),
        "mstyle_sp": lambda: N("mstyle", [N("mspace", width="0.2em")]),
        "mo_sp": lambda: mo(" "),
        "semantics_empty": lambda: N("semantics", [mrow(), N("annotation", [], encoding="TeX")]),
        # struts (TeX \\strut, \\rule{0pt}{..}): no width, only height/depth; bare and negative spaces
        "strut": lambda: N("mspace", height="1em", depth="0.5em"),
        "strut0": lambda: N("mspace", width="0", height="2ex"),
        "mspace0": lambda: N("mspace"),
        "mspace_neg": lambda: N("mspace", width="-0.2em"),
        # tokens made of zero-width characters only (word joiner, zero-width space / no-break space: what editors and converters leave behind)
        "mtext_zw": lambda: mtext("\u200b"),
        "mtext_zw2": lambda: mtext("\u2060\ufeff"),
        "mi_zw": lambda: mi("\u200b"),
    }[kind]()


class Degenerate:
    def __init__(self, rng, max_depth=4, id_policy="none", p_empty=0.12, html=True, size_cap=70):
        self.rng = rng
        self.max_depth = max_depth
        self.id_policy = id_policy          # none | some | all | duplicate   (a trailing '+' = some ids carry special characters)
        self.special_ids = id_policy.endswith("+")
        self.id_policy = id_policy.rstrip("+")
        self.p_empty = p_empty
        self.html = html
        self.size_cap = size_cap
        self.count = 0
        self.next_id = 0

    # -- tokens -------------------------------------------------------------------------------
    def token(self):
        r = self.rng
        self.count += 1
        k = r.random()
        if k < 0.30:
            t = mi(r.choice(LETTERS) if r.random() < 0.6 else r.choice(GREEK + WORDS))
        elif k < 0.50:
            t = mn(r.choice(NUMBERS) if r.random() < 0.7 else str(r.randint(0, 99999)))
        elif k < 0.80:
            t = mo(r.choice(OPS_COMMON) if r.random() < 0.75 else r.choice(dict_ops()))
        elif k < 0.92:
            t = mtext(r.choice(TEXTS))
        elif k < 0.94:
            t = N("ms", text=r.choice(["abc", "a b", "", "x"]))
        elif k < 0.975:
            t = self.mixed_token()
        else:
            t = self.html_token() if self.html else mi("h")
        if r.random() < 0.08 and t.raw is None:
            t.attrs["mathvariant"] = r.choice(VARIANTS)
        if r.random() < 0.04:
            t.attrs[r.choice(["mathcolor", "class", "data-foo", "stretchy", "form", "lspace"])] = r.choice(["red", "a&b", "x<y", "true", "prefix", "it's \"q\""])
        if r.random() < 0.03:
            # class names as MathJax and other renderers write them (the library strips some of them from the string before parsing)
            t.attrs["class"] = r.choice(["MJX-TeXAtom-ORD", "var", "mjx-char MJX-TeXAtom-ORD", "var MJX-variable", "MathJax", "mjx-n", "x MJX-y z"])
        return t

    PIECES = list("abfxyzAB12") + ["′", "'", "″", ".", "..", "-", "−", "|", "_", ":", ",", "!", "=", "+", " ", " ", "…", "°", "*", "^", "~", "π", "dx", "sin", "--"]

    def mixed_token(self):
        """token whose text mixes letters/digits with the characters that the clean-up treats specially (primes, dots, dashes, bars, ...)"""
        r = self.rng
        text = "".join(r.choice(self.PIECES) for _ in range(r.randint(2, 4)))
        return N(r.choice(["mi", "mi", "mo", "mtext", "mn"]), text=text)

    def special_run(self, depth):
        """a row in which one special operator occurs several times, separated by operands, blanks or nothing (merging of dots, primes,
        bars, underscores and number separators looks at runs of siblings)"""
        r = self.rng
        op = r.choice([".", ".", ",", "′", "'", "|", "_", "-", ":", "…", " ", "!", "*", "°"])
        kids = []
        for _ in range(r.randint(3, 7)):
            k = r.random()
            if k < 0.45:
                kids.append(mo(op))
            elif k < 0.8:
                kids.append(self.token() if r.random() < 0.5 else r.choice([mi("x"), mn("1"), mn("23"), mi("y"), mn("456")]))
            elif k < 0.9:
                kids.append(N("mspace", width="0.2em") if r.random() < 0.5 else mtext(" "))
            else:
                kids.append(self.node(depth + 1))
        self.count += len(kids)
        return kids

    SPELLED = ["sin", "cos", "tan", "cot", "sec", "csc", "log", "ln", "lg", "lim", "exp", "max", "min", "det", "gcd", "mod", "arcsin", "sinh",
               "cosh", "tanh", "arg", "dim", "ker", "sup", "inf", "and", "abc", "dx", "if", "Pr", "Re"]

    def spelled_run(self, depth):
        """a word (function name or not) written one letter per <mi>, as some converters do, with a few more single letters, a number or
        a fenced argument in front of and behind it: the clean-up glues letter runs into names and must not lose the neighbours"""
        r = self.rng
        kids = []
        if r.random() < 0.4:
            kids.append(r.choice([mn("2"), mi("a"), mn("13"), mo("+"), mo("-")]))
        for ch in r.choice(self.SPELLED):
            kids.append(mi(ch))
        k = r.random()
        if k < 0.6:
            for _ in range(r.randint(1, 3)):
                kids.append(mi(r.choice("xyztabnk")))
        elif k < 0.75:
            kids.append(mn(r.choice(["2", "10", "3.5"])))
            kids.append(mi(r.choice("xyz")))
        elif k < 0.9:
            kids += [mo("("), mi(r.choice("xyz")), mo(")")]
        if r.random() < 0.5:
            kids += [mo(r.choice(["+", "=", "-"])), r.choice([mn("1"), mi("c"), mn("47")])]
        self.count += len(kids)
        return kids

    def state_run(self, depth):
        """a chemical formula followed by a state symbol written as separate tokens -- ( a q ), ( g ), ( s ) -- complete, cut short at
        every point, or with something else in the middle (the clean-up looks ahead over the next tokens of the row)"""
        r = self.rng
        el = lambda: mi(r.choice(["Na", "Cl", "H", "O", "C", "Fe", "K"]), **({"mathvariant": "normal"} if r.random() < 0.5 else {}))
        kids = []
        for _ in range(r.randint(0, 2)):
            kids.append(el() if r.random() < 0.6 else N("msub", [el(), mn(str(r.randint(2, 4)))]))
        state = r.choice([["(", "a", "q", ")"], ["(", "g", ")"], ["(", "s", ")"], ["(", "l", ")"], ["(", "a", "q", ")"]])
        cut = r.choice([len(state), len(state), len(state) - 1, len(state) - 2, 1])
        for t in state[:max(1, cut)]:
            kids.append(mo(t) if t in "()" else mi(t))
        if r.random() < 0.4:
            kids += [mo(r.choice(["+", "→", "⇌"])), el()]
            if r.random() < 0.5:
                kids += [mo("("), mi("a"), mi("q")] + ([mo(")")] if r.random() < 0.5 else [])
        self.count += len(kids)
        return kids

    def phantom_base_script(self, depth):
        """a script whose base is built the way TeX packages build an 'empty' base (mhchem: nested rows around a zero-width mpadded that
        starts with a phantom letter) -- here with 0-2 visible tokens after the phantom, which are content and must stay"""
        r = self.rng
        inner = [N("mphantom", [mi("A")])] + [self.token() for _ in range(r.choice([0, 1, 1, 2]))]
        pad = N("mpadded", inner, width=r.choice(["0", "0", "0em", "+0em"]))
        base = mrow(mrow(pad)) if r.random() < 0.7 else mrow(pad)
        tag = r.choice(["msub", "msup", "msubsup"])
        kids = [base] + [self.child(depth + 1, True) for _ in range(2 if tag == "msubsup" else 1)]
        self.count += 4 + len(inner)
        return mrow(mi(r.choice(["H", "x", "Na"])), N(tag, kids)) if r.random() < 0.5 else N(tag, kids)

    def fenced_then_script(self, depth):
        """a fenced group written as sibling tokens, directly followed by a script with an empty base (TeX '(x+1){}^2', '[a,b]{}_0'), last in
        its row or followed by a 2-D element: the script takes the whole group as its base"""
        r = self.rng
        o, c = r.choice([("(", ")"), ("[", "]"), ("{", "}"), ("|", "|"), ("⟨", "⟩")])
        inner = [self.token() if r.random() < 0.5 else r.choice([mi("x"), mn("1"), mi("a")])]
        for _ in range(r.randint(0, 2)):
            inner += [mo(r.choice(["+", ",", "-", "="])), r.choice([mi("y"), mn("2"), mi("b")])]
        tag = r.choice(["msup", "msub", "msubsup"])
        base = empty_like(r.choice(["mrow0", "mi0", "mtext0", "mphantom", "mspace", "none", "mrow_mrow0"]))
        scripts = [r.choice([mn("2"), mi("n"), mn("0")]) for _ in range(2 if tag == "msubsup" else 1)]
        kids = [mo(o)] + inner + [mo(c), N(tag, [base] + scripts)]
        if r.random() < 0.3:
            kids = [r.choice([mi("y"), mi("f")]), mo("=")] + kids
        k = r.random()
        if k < 0.3:
            kids.append(N(r.choice(["mfrac", "msqrt"]), [mi("u"), mn("3")][:2]))
        elif k < 0.45:
            kids += [mo("+"), mn("1")]
        self.count += len(kids)
        return kids

    def html_token(self):
        r = self.rng
        kind = r.choice(["span", "glyph", "nested", "br"])
        tag = r.choice(["mi", "mtext", "mn", "mo"])
        t = N(tag, text="")
        if kind == "span":
            t.raw, t.text = "<span xmlns='http://www.w3.org/1999/xhtml'>ab</span>", "ab"
        elif kind == "glyph":
            t.raw, t.text = "<mglyph alt='gl' src='x.png'/>", "gl"
        elif kind == "nested":
            t.raw, t.text = "p<b xmlns='http://www.w3.org/1999/xhtml'>q<i>r</i></b>s", "pqrs"
        else:
            t.raw, t.text = "u<br xmlns='http://www.w3.org/1999/xhtml'/>v", "uv"
        return t

    # -- trees --------------------------------------------------------------------------------
    def child(self, depth, script_pos=False):
        r = self.rng
        p = self.p_empty * (2.0 if script_pos else 1.0)
        if r.random() < p:
            self.count += 1
            return empty_like(r.choice(EMPTY_KINDS))
        return self.node(depth)

    def node(self, depth):
        r = self.rng
        if depth >= self.max_depth or self.count > self.size_cap or r.random() < 0.35:
            return self.token()
        self.count += 1
        k = r.random()
        d = depth + 1
        if k < 0.05:
            x = r.random()
            if x < 0.12:
                return self.phantom_base_script(d)
            if x < 0.22:
                return mrow(*self.state_run(d))
            return mrow(*(self.special_run(d) if x < 0.6 else self.fenced_then_script(d) if x < 0.8 else self.spelled_run(d)))
        if k < 0.25:
            n = r.choice([0, 1, 1, 2, 3, 3, 4, 5])
            e = mrow(*[self.child(d) for _ in range(n)])
            if r.random() < 0.06:
                # attributes of the intent machinery on a row: 'arg' alone gives the row no right to stay when it has one child, 'intent' does
                e.attrs[r.choice(["arg", "arg", "intent"])] = r.choice(["a", "n", "base"])
            return e
        if k < 0.45:
            tag = r.choice(TWO)
            return N(tag, [self.child(d, tag != "mfrac"), self.child(d, True)])
        if k < 0.55:
            tag = r.choice(THREE)
            return N(tag, [self.child(d, True), self.child(d, True), self.child(d, True)])
        if k < 0.67:
            tag = r.choice(ONE_INFERRED[:6])
            n = r.choice([0, 1, 1, 1, 2, 3])
            e = N(tag, [self.child(d) for _ in range(n)])
            if tag == "menclose":
                e.attrs["notation"] = r.choice(NOTATIONS)
            if tag == "mstyle" and r.random() < 0.5:
                e.attrs[r.choice(["displaystyle", "mathvariant", "mathsize", "scriptlevel"])] = r.choice(["true", "bold", "2em", "+1"])
            if tag == "mpadded" and r.random() < 0.5:
                e.attrs["width"] = r.choice(["0", "+1em", "0em", "2em"])
            return e
        if k < 0.75:
            return self.multiscripts(d)
        if k < 0.83:
            return self.table(d)
        if k < 0.93:
            return self.fenced(d)
        return self.semantics(d)

    def multiscripts(self, d):
        r = self.rng
        kids = [self.child(d, True)]
        for _ in range(r.randint(0, 2)):
            kids += [self.script(d), self.script(d)]
        if r.random() < 0.5:
            kids.append(N("mprescripts"))
            for _ in range(r.randint(0, 2)):
                kids += [self.script(d), self.script(d)]
        return N("mmultiscripts", kids)

    def script(self, d):
        r = self.rng
        if r.random() < 0.3:
            return N("none") if r.random() < 0.6 else empty_like(r.choice(EMPTY_KINDS))
        return self.node(d + 1)

    def table(self, d):
        r = self.rng
        rows = []
        for _ in range(r.choice([0, 1, 2, 2, 3])):
            cells = [N("mtd", [self.child(d + 1) for _ in range(r.choice([0, 1, 1, 1, 2]))]) for _ in range(r.choice([0, 1, 2, 2, 3]))]
            rows.append(N(r.choice(["mtr", "mtr", "mtr", "mlabeledtr"]), cells))
        t = N("mtable", rows)
        if r.random() < 0.5:
            o, c = r.choice([("(", ")"), ("[", "]"), ("{", ""), ("|", "|"), ("‖", "‖")])
            kids = [mo(o), t] + ([mo(c)] if c else [])
            return mrow(*kids)
        return t

    def fenced(self, d):
        r = self.rng
        e = N("mfenced", [self.child(d) for _ in range(r.choice([0, 1, 1, 2, 2, 3, 4]))])
        if r.random() < 0.6:
            e.attrs["open"] = r.choice(["(", "[", "{", "|", "", "<", "⟨", "‖", "⌈"])
        if r.random() < 0.6:
            e.attrs["close"] = r.choice([")", "]", "}", "|", "", ">", "⟩", "‖", "⌉"])
        if r.random() < 0.5:
            e.attrs["separators"] = r.choice([",", ";", ";,", "|", "", ",;.", "+"])
        return e

    def semantics(self, d):
        r = self.rng
        kids = [self.child(d)]
        for _ in range(r.randint(0, 2)):
            if r.random() < 0.6:
                a = N("annotation", text="x^2 \\alpha", encoding=r.choice(["application/x-tex", "TeX", "text/plain"]))
            else:
                a = N("annotation-xml", [N("apply", [N("ci", text="x")])], encoding=r.choice(["MathML-Content", "application/openmath+xml"]))
            kids.append(a)
        return N("semantics", kids)

    # -- ids ----------------------------------------------------------------------------------
    def assign_ids(self, root):
        r = self.rng
        if self.id_policy == "none":
            return
        nodes = [n for n, _ in root.walk() if n.tag not in ("annotation", "annotation-xml", "apply", "ci")]
        for n in nodes:
            if self.id_policy == "all" or (self.id_policy in ("some", "duplicate") and r.random() < 0.4):
                self.next_id += 1
                n.attrs["id"] = "a%d" % self.next_id
                if self.special_ids and r.random() < 0.3:
                    # ids are arbitrary attribute values: characters that must be escaped in XML / SSML, blanks, non-ASCII
                    n.attrs["id"] = r.choice(["x'%d", 'q"%d', "l<%d", "g>%d", "a&%d", "s p%d", "é%d", "a.b-%d", "#%d", "x'\"<&>%d"]) % self.next_id
        if self.id_policy == "duplicate":
            with_id = [n for n in nodes if "id" in n.attrs]
            if len(with_id) >= 2:
                a, b = r.sample(with_id, 2)
                b.attrs["id"] = a.attrs["id"]

    def expression(self):
        r = self.rng
        self.count = 0
        self.next_id = 0
        n = r.choice([1, 1, 1, 2, 3, 4])
        k0 = r.random()
        root = math(*(self.special_run(0) if k0 < 0.04 else self.fenced_then_script(0) if k0 < 0.06 else [self.node(0) for _ in range(n)]))
        if r.random() < 0.1:
            root.attrs["display"] = "block"
        self.assign_ids(root)
        return root


def systematic(rng):
    """every fixed-arity / inferred-row parent with every empty-like child kind in every position, alone and with neighbours"""
    out = []
    fill = [lambda: mi("x"), lambda: mn("2"), lambda: mi("y")]
    for tag, arity in [(t, 2) for t in TWO] + [(t, 3) for t in THREE]:
        for pos in range(arity):
            for kind in EMPTY_KINDS:
                kids = [fill[i]() for i in range(arity)]
                kids[pos] = empty_like(kind)
                e = N(tag, kids)
                out.append(math(e))
                out.append(math(mrow(mi("a"), mo("+"), e.copy(), mo("="), mn("7"))))
                out.append(math(mrow(e.copy(), mi("z"))))
    for tag in ONE_INFERRED[:6] + ["mrow"]:
        for kind in EMPTY_KINDS:
            for kids in ([empty_like(kind)], [mi("x"), empty_like(kind)], [empty_like(kind), mi("x")], [mi("x"), empty_like(kind), mn("2")]):
                e = N(tag, kids)
                out.append(math(e))
                out.append(math(mrow(mi("a"), mo("+"), e.copy(), mo("="), mn("7"))))
                out.append(math(N("mfrac", [e.copy(), mn("5")])))
                out.append(math(N("msup", [mi("b"), e.copy()])))
    for kind in EMPTY_KINDS:
        for shape in range(6):
            e = empty_like(kind)
            if shape == 0:
                m = N("mmultiscripts", [mi("x"), e, mn("2")])
            elif shape == 1:
                m = N("mmultiscripts", [mi("x"), mn("1"), e])
            elif shape == 2:
                m = N("mmultiscripts", [e, mn("1"), mn("2")])
            elif shape == 3:
                m = N("mmultiscripts", [mi("x"), N("mprescripts"), e, mn("2")])
            elif shape == 4:
                m = N("mmultiscripts", [mi("x"), mn("1"), mn("2"), N("mprescripts"), mn("3"), e])
            else:
                m = N("mtable", [N("mtr", [N("mtd", [e]), N("mtd", [mi("x")])])])
            out.append(math(m))
            out.append(math(mrow(mi("a"), m.copy(), mo("+"), mn("7"))))
    rng.shuffle(out)
    return out
