"""C14 — broken rule files give errors, not crashes, and recovery is complete.

Fault enumeration on a private copy of Rules/: every file the configuration reaches (found at run time from a clean run's
`loaded_files` hook, plus prefs.yaml) x fault kind x order of fault / call / repair, plus wrong rules directories.
The oracle uses no MathCAT code: it knows (a) which damaged files cannot be read by any YAML consumer (unterminated quoted scalar,
wrong top-level type, no document, ...), (b) the outputs of the same probe calls in a clean session of the same binary (pre-fault
outputs), (c) the table sizes a clean session reports through the hook."""
import json
import os
import random
import re
import shutil
import time
import unicodedata

from . import core, mml

PROP = "C14"
MTIME0 = 1_400_000_000          # every file of a private copy starts with this mtime; every later write gets a strictly larger one

# ------------------------------------------------------------------------------------------------------------------
# configurations and probe set
# ------------------------------------------------------------------------------------------------------------------
CONFIGS = {
    "quick": [{"lang": "en", "style": "ClearSpeak", "braille": "Nemeth"}],
    "thorough": [{"lang": "en", "style": "ClearSpeak", "braille": "Nemeth"},
                 {"lang": "sv", "style": "ClearSpeak", "braille": "Swedish"},
                 {"lang": "en-gb", "style": "SimpleSpeak", "braille": "UEB"}],
}

FIXED_PROBES = [
    # fraction, root, function name (definitions), Greek letter
    "<math><mfrac><mn>1</mn><mn>3</mn></mfrac><mo>+</mo><msqrt><mi>x</mi></msqrt><mo>=</mo><mi>sin</mi><mo>&#x2061;</mo><mi>&#x3B1;</mi></math>",
    # determinant (linear algebra), power with ordinal
    "<math><mrow><mo>|</mo><mtable><mtr><mtd><mi>a</mi></mtd><mtd><mi>b</mi></mtd></mtr><mtr><mtd><mi>c</mi></mtd><mtd><mi>d</mi></mtd></mtr></mtable>"
    "<mo>|</mo></mrow><mo>=</mo><msup><mi>x</mi><mn>3</mn></msup><mo>-</mo><mn>25</mn></math>",
    # derivative + integral (calculus), line segment (geometry), fenced argument
    "<math><mfrac><mrow><mi>d</mi><mi>y</mi></mrow><mrow><mi>d</mi><mi>x</mi></mrow></mfrac><mo>+</mo><mover><mrow><mi>A</mi><mi>B</mi></mrow><mo>&#xAF;</mo></mover>"
    "<mo>+</mo><msubsup><mo>&#x222B;</mo><mn>0</mn><mn>1</mn></msubsup><mi>f</mi><mo>(</mo><mi>x</mi><mo>)</mo><mi>d</mi><mi>x</mi></math>",
]

# probes that depend on the definition files (function names without an explicit function application, large operators, number words,
# unit names, comparison operators and currency signs used by the braille codes); kept when the clean session answers all calls
OPTIONAL_PROBES = [
    "<math><mi>sin</mi><mi>y</mi><mo>+</mo><mi>log</mi><mi>x</mi><mo>+</mo><mi>arcsin</mi><mi>z</mi></math>",
    "<math><munderover><mo>&#x2211;</mo><mrow><mi>i</mi><mo>=</mo><mn>1</mn></mrow><mi>n</mi></munderover><msup><mi>i</mi><mn>23</mn></msup>"
    "<mo>&#x2264;</mo><mfrac><mn>5</mn><mn>32</mn></mfrac></math>",
    "<math><mn>3</mn><mo>&#x2062;</mo><mi intent=':unit'>km</mi><mo>+</mo><mn>2</mn><mo>&#x2062;</mo><mi intent=':unit'>ft</mi><mo>=</mo><mo>$</mo><mn>5</mn></math>",
]

PER_EXPR = [("get_spoken_text",), ("get_overview_text",), ("get_braille", ""), ("do_navigate_command", "ZoomIn"),
            ("do_navigate_command", "MoveNext"), ("get_navigation_braille",), ("get_navigation_mathml",)]


def init_ops(cfg, rules_dir, check="All"):
    ops = [("set_rules_dir", rules_dir), ("set_preference", "TTS", "None")]
    if check is not None:
        ops.append(("set_preference", "CheckRuleFiles", check))
    ops += [("set_preference", "Language", cfg["lang"]), ("set_preference", "SpeechStyle", cfg["style"]),
            ("set_preference", "BrailleCode", cfg["braille"])]
    return ops


def probe_ops(exprs):
    ops = []
    for e in exprs:
        ops.append(("set_mathml", e))
        ops.extend(PER_EXPR)
    return ops


def norm_out(op, res):
    """comparable form of one result: ('ok', value with generated ids stripped) | ('err',) | ('panic',)"""
    if res["r"] != "ok":
        return [res["r"]]
    v = res.get("v")
    if op[0] == "set_mathml":
        v = mml.strip_ids(v)
    elif op[0] == "get_navigation_mathml":
        v = [mml.strip_ids(v[0]), v[1]]
    return ["ok", v]


def cfg_name(cfg):
    return "%s/%s/%s" % (cfg["lang"], cfg["style"], cfg["braille"])


# ------------------------------------------------------------------------------------------------------------------
# private copies of Rules/
# ------------------------------------------------------------------------------------------------------------------
class Env:
    """Two private copies of the pristine Rules tree: A (gets damaged, one file at a time) and B (never touched; the target of
    re-pointing).  All mtimes are set explicitly and every later write gets a strictly larger mtime."""

    def __init__(self, root):
        self.root = os.path.realpath(root)
        if os.path.isdir(self.root):
            shutil.rmtree(self.root)
        os.makedirs(self.root)
        self.a = os.path.join(self.root, "Rules")
        self.b = os.path.join(self.root, "RulesB", "Rules")
        self.tick = MTIME0
        for dst in (self.a, self.b):
            shutil.copytree(core.RULES, dst)
            for dp, dn, fn in os.walk(dst):
                for f in fn:
                    os.utime(os.path.join(dp, f), (MTIME0, MTIME0))
        # wrong rules directories
        self.bad = os.path.join(self.root, "bad")
        os.makedirs(os.path.join(self.bad, "emptydir"))
        with open(os.path.join(self.bad, "file"), "w") as f:
            f.write("this is a file, not a directory\n")
        os.makedirs(os.path.join(self.bad, "prefs-only"))
        shutil.copy(os.path.join(core.RULES, "prefs.yaml"), os.path.join(self.bad, "prefs-only", "prefs.yaml"))
        os.makedirs(os.path.join(self.bad, "no-languages"))
        shutil.copy(os.path.join(core.RULES, "prefs.yaml"), os.path.join(self.bad, "no-languages", "prefs.yaml"))
        shutil.copytree(os.path.join(core.RULES, "Braille"), os.path.join(self.bad, "no-languages", "Braille"))
        self.xdg = os.path.join(self.root, "xdg")
        os.makedirs(os.path.join(self.xdg, "MathCAT"))

    def bad_dir(self, kind):
        if kind == "emptystring":
            return ""
        if kind == "nonexistent":
            return os.path.join(self.bad, "does", "not", "exist")
        return os.path.join(self.bad, kind)

    def path(self, rel):
        if rel.startswith("@user/"):
            return os.path.join(self.xdg, "MathCAT", rel[len("@user/"):])
        return os.path.join(self.a, rel)

    def pristine(self, rel):
        if rel.startswith("@user/"):
            return None
        with open(os.path.join(core.RULES, rel), encoding="utf-8") as f:
            return f.read()

    def _stamp(self, p):
        self.tick += 10
        os.utime(p, (self.tick, self.tick))

    def write(self, rel, content):
        """content None = delete the file"""
        p = self.path(rel)
        if content is None:
            if os.path.exists(p):
                os.remove(p)
            return
        with open(p, "w", encoding="utf-8") as f:
            f.write(content)
        self._stamp(p)

    def restore(self, rel):
        self.write(rel, self.pristine(rel))

    def remove(self):
        shutil.rmtree(self.root, ignore_errors=True)


# ------------------------------------------------------------------------------------------------------------------
# text-level faults (no YAML parser in the standard library: the faults are built so that their class is known by construction)
# ------------------------------------------------------------------------------------------------------------------
def top_items(text):
    """(style, indent, [offset of each top-level item]) — style 'list' (items start with '-') or 'map' (keys)"""
    lines = text.splitlines(keepends=True)
    style, indent, offs = None, 0, []
    pos = 0
    for ln in lines:
        s = ln.strip()
        if style is None:
            if s and not s.startswith("#") and s != "---":
                indent = len(ln) - len(ln.lstrip(" "))
                style = "list" if s.startswith("-") else "map"
        if style is not None and s and not s.startswith("#"):
            ind = len(ln) - len(ln.lstrip(" "))
            if ind == indent:
                if style == "list" and (s == "-" or s.startswith("- ")):
                    offs.append(pos)
                elif style == "map" and re.match(r"[A-Za-z_\"'][^#]*:", s):
                    offs.append(pos)
        pos += len(ln)
    return style or "list", indent, offs


def _pick(cands, param):
    return cands[min(len(cands) - 1, int(param * len(cands)))]


def _line_candidates(text, rx):
    """[(line start offset, match)] of lines matching rx (comment lines excluded)"""
    out, pos = [], 0
    for ln in text.splitlines(keepends=True):
        if not ln.lstrip().startswith("#"):
            m = rx.match(ln)
            if m:
                out.append((pos, m))
        pos += len(ln)
    return out


RX_MATCH = re.compile(r'^(\s*(?:-\s+)?(?:match|if|else_if):\s*)"([^"\n]*)"(\s*(?:#.*)?)$', re.S)
RX_REPL_KEY = re.compile(r'^([^#"\']*?(?:\[|-\s)\s*)(t|ct|ot|x|T)(:\s*"[^\n]*)$', re.S)
RX_NAME = re.compile(r'^(\s*)(-\s+)?name:\s*\S[^\n]*$', re.S)
RX_DEF_NUM = re.compile(r'^(\s*)-\s+(Numbers\w+)\s*:')
RX_DEF_SET = re.compile(r'^(\s*)-\s+(\w+)\s*:\s*\{')
RX_PREF = re.compile(r'^(\s+)(Language|SpeechStyle|Verbosity|BrailleCode|DecimalSeparator)(:\s*)([^#\n]*?)(\s*(?:#.*)?)$', re.S)

FAULT_KINDS = ["deleted", "empty", "trunc-boundary", "trunc-mid", "type-swapped", "type-scalar", "bad-xpath", "bad-xpath-text", "unknown-key",
               "extra-key", "appended-item", "item-scalar", "def-scalar-numbers", "def-scalar-set", "pref-int", "pref-list"]
# a character no shipped Unicode file defines (checked at discovery); the 'appended-item' fault defines it, the repair must undefine it again
SENTINELS = ["\u2BD1", "\u2BD2", "\U0001F701", "\u2E3B"]
# faults that no consumer of the file can read as what it is supposed to be: the library has to report them
MUST_ERROR = {"empty", "trunc-mid", "type-swapped", "type-scalar", "bad-xpath", "bad-xpath-text", "unknown-key", "item-scalar",
              "def-scalar-numbers", "def-scalar-set"}


def make_fault(text, kind, param, role, sentinel=None):
    """returns the damaged content ('' = empty file), the marker DELETE, or None when the kind does not apply to this file"""
    is_defs = "defs" in role
    is_prefs = role.startswith("prefs")
    style, indent, items = top_items(text)
    ends = items[1:] + [len(text)]
    if kind == "deleted":
        return DELETE
    if kind == "empty":
        return ""
    if kind == "trunc-boundary":
        if len(items) < 2:
            return None
        k = 1 + min(len(items) - 2, int(param * (len(items) - 1)))
        return text[:items[k]]
    if kind == "trunc-mid":
        if not items:
            return None
        k0 = min(len(items) - 1, int(param * len(items)))
        for k in list(range(k0, len(items))) + list(range(0, k0)):
            pos = items[k]
            for ln in text[items[k]:ends[k]].splitlines(keepends=True):
                q = ln.find('"')
                if q >= 0 and "#" not in ln[:q] and "'" not in ln[:q] and not ln.lstrip().startswith("#"):
                    nxt = ln[q + 1:q + 2]
                    if nxt and nxt not in '"\\\n':
                        return text[:pos + q + 2]          # ends inside an open double-quoted scalar
                pos += len(ln)
        return None
    if kind == "type-swapped":
        return "---\n- zzitem\n- 3\n" if style == "map" else "---\nzzkey: zzvalue\nzzother: 3\n"
    if kind == "type-scalar":
        return "---\nzzscalar\n"
    if kind in ("bad-xpath", "bad-xpath-text"):
        if is_defs or is_prefs:
            return None
        c = _line_candidates(text, RX_MATCH)
        if not c:
            return None
        pos, m = _pick(c, param)
        ln = m.group(0)
        # the second form is what an edit of a rule for a symbol leaves behind: a stray parenthesis right after a comparison with a
        # non-ASCII character (the error message quotes the expression around the place where parsing stopped)
        broken = '"*[["' if kind == "bad-xpath" else ["\".='\u221e')\"", "\"$Verbosity='Terse' or .='\u2032')\"", "\"*[1][.='\u03b1\u03b2']]\""][int(param * 1000) % 3]
        return text[:pos] + m.group(1) + broken + m.group(3) + text[pos + len(ln):]
    if kind == "unknown-key":
        if is_defs or is_prefs:
            return None
        c = _line_candidates(text, RX_REPL_KEY)
        if not c:
            return None
        pos, m = _pick(c, param)
        ln = m.group(0)
        return text[:pos] + m.group(1) + "zzunknown" + m.group(3) + text[pos + len(ln):]
    if kind == "extra-key":
        if is_defs or is_prefs:
            return None
        c = _line_candidates(text, RX_NAME)
        if not c:
            return None
        pos, m = _pick(c, param)
        ln = m.group(0)
        ind = len(m.group(1)) + (len(m.group(2)) if m.group(2) else 0)
        return text[:pos + len(ln)] + " " * ind + "zzextra: 1\n" + text[pos + len(ln):]
    if kind == "appended-item":
        # trailing extra item that loads: a rule with a name of its own / a definition of the sentinel character
        if is_defs or is_prefs or style != "list":
            return None
        pad = " " * indent
        body = text if text.endswith("\n") else text + "\n"
        if "unicode" in role:
            if not sentinel:
                return None
            return body + '%s- "%s": [t: "%s"]\n' % (pad, sentinel, "\u283f\u283f" if role.startswith("braille") else "zzappended")
        return body + '%s- name: zz-c14-appended\n%s  tag: mfrac\n%s  match: "."\n%s  replace: [t: "zzappended"]\n' % (pad, pad, pad, pad)
    if kind == "item-scalar":
        if style != "list" or not items:
            return None
        k = min(len(items) - 1, int(param * len(items)))
        return text[:items[k]] + " " * indent + "- 42\n" + text[ends[k]:]
    if kind in ("def-scalar-numbers", "def-scalar-set"):
        if not is_defs:
            return None
        rx = RX_DEF_NUM if kind == "def-scalar-numbers" else RX_DEF_SET
        c = []
        for k, off in enumerate(items):
            m = rx.match(text[off:ends[k]].split("\n", 1)[0])
            if m and (kind == "def-scalar-numbers" or not m.group(2).startswith("Numbers")):
                c.append((k, m))
        if not c:
            return None
        k, m = _pick(c, param)
        return text[:items[k]] + "%s- %s: \"zzscalar\"\n" % (m.group(1), m.group(2)) + text[ends[k]:]
    if kind in ("pref-int", "pref-list"):
        if not is_prefs:
            return None
        c = _line_candidates(text, RX_PREF)
        if not c:
            return None
        pos, m = _pick(c, param)
        ln = m.group(0)
        val = "7" if kind == "pref-int" else "[1, 2]"
        return text[:pos] + m.group(1) + m.group(2) + m.group(3) + val + m.group(5) + text[pos + len(ln):]
    raise ValueError(kind)


DELETE = "\0delete"


def kind_class(kind):
    return kind


# ------------------------------------------------------------------------------------------------------------------
# the hook: what is loaded
# ------------------------------------------------------------------------------------------------------------------
def rel_to(path, rules_dir):
    if path.startswith(rules_dir + os.sep):
        return path[len(rules_dir) + 1:]
    return path


def hook_summary(tables, rules_dir):
    """per table: sizes and file lists relative to the rules directory (duplicates removed, order kept)"""
    out = {}
    for t in tables:
        def rels(key):
            seen = []
            for p in t.get(key, []):
                r = rel_to(p, rules_dir)
                if r not in seen:
                    seen.append(r)
            return seen
        out[t["table"]] = {
            "n_tags": t["n_tags"], "n_patterns": t["n_patterns"],
            "unicode_short_len": t["unicode_short_len"], "unicode_full_len": t["unicode_full_len"],
            "rule_files": rels("rule_files"), "unicode_short_files": rels("unicode_short_files"),
            "unicode_full_files": rels("unicode_full_files"), "definitions_files": rels("definitions_files"),
            "pref_rule_file": rel_to(t["pref_rule_file"], rules_dir), "pref_unicode_short": rel_to(t["pref_unicode_short"], rules_dir),
            "pref_unicode_full": rel_to(t["pref_unicode_full"], rules_dir), "pref_definitions": rel_to(t["pref_definitions"], rules_dir),
        }
    return out


def hook_files(summary):
    """{relative file: [roles]} from a hook summary"""
    roles = {}
    for tname, t in summary.items():
        side = "braille" if tname == "Braille" else "speech"
        for i, f in enumerate(t["rule_files"]):
            roles.setdefault(f, []).append(tname.lower() + ("-rules" if i == 0 else "-include"))
        for i, f in enumerate(t["unicode_short_files"]):
            roles.setdefault(f, []).append(side + "-unicode" + ("" if i == 0 else "-include"))
        for i, f in enumerate(t["unicode_full_files"]):
            roles.setdefault(f, []).append(side + "-unicode-full" + ("" if i == 0 else "-include"))
        for i, f in enumerate(t["definitions_files"]):
            roles.setdefault(f, []).append(side + "-defs" + ("" if i == 0 else "-include"))
    return {f: sorted(set(r), key=r.index) for f, r in roles.items()}


RX_INCLUDE = re.compile(r"""^\s*-\s*include\s*:\s*(?:"([^"\n]+)"|'([^'\n]+)'|([^\s#'"][^#\n]*?))\s*(?:#.*)?$""")


def include_closure(rules_dir, head_rel):
    """the head file and every file it reaches through '- include:' items, read from the YAML text of the pristine tree
    (independent of the library's own list of tracked files, which is part of what is being checked)"""
    out, todo = [], [head_rel]
    while todo:
        rel = todo.pop(0)
        if rel in out:
            continue
        path = os.path.join(rules_dir, rel)
        if not os.path.isfile(path):
            continue
        out.append(rel)
        try:
            with open(path, encoding="utf-8") as f:
                for ln in f:
                    m = RX_INCLUDE.match(ln)
                    if m:
                        inc = next(g for g in m.groups() if g is not None).strip()
                        tgt = os.path.normpath(os.path.join(os.path.dirname(path), inc))
                        r = rel_to(tgt, rules_dir)
                        if r != tgt:                    # stays inside the rules directory
                            todo.append(r)
        except (OSError, UnicodeDecodeError):
            pass
    return out


def reached_files(summary, rules_dir):
    """{relative file: [roles]}: union of what the hook lists as loaded and what the files selected by the preferences include
    according to their text; second value: files that are included but that the library does not list as tracked"""
    roles = hook_files(summary)
    untracked = []
    for tname, t in summary.items():
        side = "braille" if tname == "Braille" else "speech"
        heads = [(t["pref_rule_file"], tname.lower() + "-rules", tname.lower() + "-include", "rule_files"),
                 (t["pref_unicode_short"], side + "-unicode", side + "-unicode-include", "unicode_short_files"),
                 (t["pref_unicode_full"], side + "-unicode-full", side + "-unicode-full-include", "unicode_full_files"),
                 (t["pref_definitions"], side + "-defs", side + "-defs-include", "definitions_files")]
        for head, head_role, inc_role, key in heads:
            for i, f in enumerate(include_closure(rules_dir, head)):
                role = head_role if i == 0 else inc_role
                if role not in roles.setdefault(f, []):
                    roles[f].append(role)
                if t[key] and f not in t[key] and "%s (%s)" % (f, role) not in untracked:
                    untracked.append("%s (%s)" % (f, role))
    return roles, untracked


def consistent(summary):
    """hook invariant for a session whose calls all succeeded: every non-empty table was loaded from the file the preferences select"""
    bad = []
    for tname, t in summary.items():
        if t["n_patterns"] and (not t["rule_files"] or t["rule_files"][0] != t["pref_rule_file"]):
            bad.append("%s rules from %s, preferences select %s" % (tname, t["rule_files"][:1], t["pref_rule_file"]))
        if t["unicode_short_len"] and t["unicode_short_files"] and t["unicode_short_files"][0] != t["pref_unicode_short"]:
            bad.append("%s unicode from %s, preferences select %s" % (tname, t["unicode_short_files"][:1], t["pref_unicode_short"]))
        if t["unicode_full_len"] and t["unicode_full_files"] and t["unicode_full_files"][0] != t["pref_unicode_full"]:
            bad.append("%s full unicode from %s, preferences select %s" % (tname, t["unicode_full_files"][:1], t["pref_unicode_full"]))
        if t["definitions_files"] and t["definitions_files"][0] != t["pref_definitions"]:
            bad.append("%s definitions from %s, preferences select %s" % (tname, t["definitions_files"][:1], t["pref_definitions"]))
    return bad


# ------------------------------------------------------------------------------------------------------------------
# running phases
# ------------------------------------------------------------------------------------------------------------------
class Crash(Exception):
    def __init__(self, what, op, detail):
        Exception.__init__(self, what)
        self.what, self.op, self.detail = what, op, detail


def run_phase(d, ops, with_hook=True):
    """one call per op (so that a dying driver names the open call); returns (results, hook tables or None)"""
    results = []
    for op in ops:
        try:
            results.append(d.call(*op))
        except core.DriverDied as e:
            raise Crash("abort:" + core.describe_exit(e.returncode), op, e.stderr_tail[-1500:])
    hook = None
    if with_hook:
        try:
            r = d.call("loaded_files")
            hook = r.get("v") if r["r"] == "ok" else None
        except core.DriverDied as e:
            raise Crash("abort:" + core.describe_exit(e.returncode), ("loaded_files",), e.stderr_tail[-1500:])
    return results, hook


def panic_sig(res):
    p = res.get("p") or {}
    fn = (p.get("fn") or "?").split(" <- ")[0]
    fn = re.sub(r"::\{\{closure\}\}", "", fn)
    msg = re.sub(r"'[^']*'|\"[^\"]*\"|`[^`]*`", "…", p.get("msg", ""))
    msg = re.sub(r"/[^\s:]+", "<path>", msg)
    msg = re.sub(r"\d+", "N", msg)[:70].strip()
    return "panic:%s:%s" % (fn, msg)


def names_file(err, rel):
    """how the error chain names the file: 'path' (full or rules-relative path), 'basename', or None"""
    base = rel.split("/")[-1]
    tail = rel[len("@user/"):] if rel.startswith("@user/") else rel
    if tail in err or tail.replace("/", "\\") in err:
        return "path"
    if base in err:
        return "basename"
    return None


def first_bad(results):
    for i, r in enumerate(results):
        if r["r"] != "ok":
            return i
    return None


# ------------------------------------------------------------------------------------------------------------------
# discovery: files reached by the configuration, first call that loads each, probe characters, pre-fault outputs
# ------------------------------------------------------------------------------------------------------------------
RX_UCHAR = re.compile(r'^\s*-\s*"(.)"\s*:')


def unicode_candidates(path):
    out = []
    try:
        with open(path, encoding="utf-8") as f:
            for ln in f:
                m = RX_UCHAR.match(ln)
                if m:
                    ch = m.group(1)
                    if unicodedata.category(ch) in ("Sm", "So", "Lu", "Ll", "Lo", "Sc", "Nd", "No") and ord(ch) > 0x7F:
                        out.append(ch)
    except OSError:
        pass
    return out


def discover(cfg, rules_dir):
    """clean runs on a pristine private copy.  Returns the JSON-able baseline of the configuration."""
    ops0 = init_ops(cfg, rules_dir) + probe_ops(FIXED_PROBES)
    with core.Driver("native") as d:
        res, hook = run_phase(d, ops0)
        bad = first_bad(res)
        if bad is not None:
            raise core.Inconclusive("clean run fails for %s at %s: %s" % (cfg_name(cfg), ops0[bad][:1], json.dumps(res[bad])[:300]))
        summ = hook_summary(hook, rules_dir)
        optional = []
        for e in OPTIONAL_PROBES:
            pops = probe_ops([e])
            r = d.batch(pops)
            if all(x["r"] == "ok" for x in r):
                optional.append(e)
        # probe characters: early / middle / late entries of each Unicode file (a truncated table must change a probe output)
        chars = []
        sentinel = None
        utext = ""
        for tname in ("Speech", "Braille"):
            for key in ("unicode_short_files", "unicode_full_files"):
                for rel in summ[tname][key]:
                    try:
                        with open(os.path.join(rules_dir, rel), encoding="utf-8") as f:
                            utext += f.read()
                    except OSError:
                        pass
        for ch in SENTINELS:
            if ch in utext or ("%x" % ord(ch)) in utext.lower():
                continue
            r = d.batch([("set_mathml", "<math><mi>%s</mi><mo>+</mo><mn>1</mn></math>" % ch), ("get_spoken_text",), ("get_braille", ""),
                         ("do_navigate_command", "ZoomIn")])
            if all(x["r"] == "ok" for x in r) and ch in r[0]["v"]:
                sentinel = ch
                chars.append(ch)
                break
        for tname in ("Speech", "Braille"):
            for key in ("unicode_short_files", "unicode_full_files"):
                for rel in summ[tname][key][:1]:
                    cands = unicode_candidates(os.path.join(rules_dir, rel))
                    for frac in (0.12, 0.5, 0.93):
                        if not cands:
                            break
                        i0 = int(frac * len(cands))
                        for ch in cands[i0:i0 + 12]:
                            if ch in chars:
                                continue
                            r = d.batch([("set_mathml", "<math><mi>%s</mi><mo>+</mo><mn>1</mn></math>" % mml.esc(ch)), ("get_spoken_text",),
                                         ("get_braille", ""), ("do_navigate_command", "ZoomIn")])
                            if all(x["r"] == "ok" for x in r) and ch in r[0]["v"]:
                                chars.append(ch)
                                break
    exprs = list(FIXED_PROBES) + optional
    for i in range(0, len(chars), 4):
        exprs.append("<math>" + "<mo>,</mo>".join("<mi>%s</mi>" % mml.esc(c) for c in chars[i:i + 4]) + "</math>")
    ops = init_ops(cfg, rules_dir) + probe_ops(exprs)
    runs = []
    first_call = {}
    for attempt in range(2):
        with core.Driver("native") as d:
            outs = []
            for i, op in enumerate(ops):
                r = d.call(*op)
                outs.append(norm_out(op, r))
                if attempt == 0:
                    h = d.call("loaded_files")["v"]
                    for f in hook_files(hook_summary(h, rules_dir)):
                        first_call.setdefault(f, i)
            hook = d.call("loaded_files")["v"]
            runs.append((outs, hook_summary(hook, rules_dir)))
    if runs[0] != runs[1]:
        raise core.Inconclusive("clean runs of %s are not reproducible" % cfg_name(cfg))
    outs, summ = runs[0]
    badi = [i for i, o in enumerate(outs) if o[0] != "ok"]
    if badi:
        raise core.Inconclusive("clean run fails for %s at op %s" % (cfg_name(cfg), ops[badi[0]]))
    # fault targets: what the hook lists as loaded PLUS the textual include closure of the files the preferences select
    files, untracked = reached_files(summ, rules_dir)
    for tname, t in summ.items():
        side = "braille" if tname == "Braille" else "speech"
        for head in (t["pref_rule_file"], t["pref_unicode_short"], t["pref_unicode_full"], t["pref_definitions"]):
            for f in include_closure(rules_dir, head):
                if f not in first_call and head in first_call:
                    first_call[f] = first_call[head]          # an included file is read by the call that reads its head file
    files["prefs.yaml"] = ["prefs"]
    first_call["prefs.yaml"] = 0
    return {"cfg": cfg, "exprs": exprs, "outs": outs, "hook": summ, "files": files, "first_call": first_call,
            "n_init": len(init_ops(cfg, rules_dir)), "probe_chars": chars, "sentinel": sentinel,
            "included_but_not_tracked": untracked}


# ------------------------------------------------------------------------------------------------------------------
# one scenario
# ------------------------------------------------------------------------------------------------------------------
ORDERS = ["fresh", "loaded", "fresh-repoint", "loaded-repoint", "fresh-reinit",
          "detour-back", "detour-back-all", "detour-repair", "detour-repair-all"]
#   fresh           fault | init(All) probe | repair | probe            (re-initialises when the faulted initialisation itself failed)
#   loaded          init(All) probe | fault | probe | repair | probe
#   fresh-repoint   fault | init(default CheckRuleFiles) probe | set_rules_dir(other, pristine directory) + preferences, probe
#   loaded-repoint  init(All) probe | fault | probe | set_rules_dir(other, pristine directory) + preferences, probe
#   fresh-reinit    fault | init(default CheckRuleFiles) probe | repair | set_rules_dir(same directory) + preferences, probe
#                   (unreadable file: CheckRuleFiles stays at its default; damaged but loadable file: CheckRuleFiles=All is set now)
#   detour-back     init(intact directory B) probe | set_rules_dir(copy A that holds the fault) + preferences, probe |
#                   set_rules_dir(B) + preferences, probe        -- a (re)load that failed half way must not be taken for B's table
#   detour-repair   init(B) probe | set_rules_dir(damaged A) + preferences, probe | repair A | set_rules_dir(A) + preferences, probe
#   ...-all         the same with CheckRuleFiles=All instead of the default


class Judge:
    def __init__(self, sc, role):
        self.sc, self.role = sc, role
        self.violations = []
        self.effect = False          # the fault was observable (error, different output, different files in the hook)
        self.notes = []
        self.first_error = None

    def add(self, sub, detail, sig=None):
        sc = self.sc
        if sig is None:
            sig = "%s:%s:%s:%s" % (sub, self.role, kind_class(sc.get("kind") or sc.get("dirkind")), sc["order"])
        self.violations.append(core.violation(sub, sig, sc, detail))

    def no_panic(self, ops, results, phase):
        ok = True
        for op, r in zip(ops, results):
            if r["r"] == "panic":
                ok = False
                p = r.get("p") or {}
                self.add("panic", "%s phase: %s%s panicked: %s at %s in %s" % (
                    phase, op[0], json.dumps(list(op[1:]))[:80], p.get("msg", "")[:300], p.get("loc"), p.get("fn")), sig=panic_sig(r))
                break        # one poisoned session is reported once
        return ok


def compare_recovery(j, base, ops, results, hook, rules_dir, phase):
    """after repair / re-pointing: every probe output equals the pre-fault output and the tables are what a clean session has"""
    if not j.no_panic(ops, results, phase):
        return
    n_init = len(ops) - (len(base["outs"]) - base["n_init"])
    probe_res = results[n_init:]
    probe_ops_ = ops[n_init:]
    want = base["outs"][base["n_init"]:]
    for i, r in enumerate(results[:n_init]):
        if r["r"] != "ok":
            j.add("recovery-error", "%s: %s%s -> Err %s" % (phase, ops[i][0], json.dumps(list(ops[i][1:]))[:120], r.get("e", "")[:500]))
            return
    for op, r, w in zip(probe_ops_, probe_res, want):
        got = norm_out(op, r)
        if got[0] != "ok":
            j.add("recovery-error", "%s: %s%s still fails: %s" % (phase, op[0], json.dumps(list(op[1:]))[:160], r.get("e", "")[:600]))
            return
        if got != w:
            j.add("recovery-differs", "%s: %s%s returns %s; before the fault it returned %s" % (
                phase, op[0], json.dumps(list(op[1:]), ensure_ascii=False)[:200], json.dumps(got[1], ensure_ascii=False)[:300],
                json.dumps(w[1], ensure_ascii=False)[:300]))
            return
    if hook is not None:
        summ = hook_summary(hook, rules_dir)
        inc = consistent(summ)
        if inc:
            j.add("recovery-state", "%s: %s" % (phase, "; ".join(inc)[:600]))
            return
        for tname, t in summ.items():
            b = base["hook"][tname]
            diffs = [k for k in t if t[k] != b[k]]
            if diffs:
                j.add("recovery-state", "%s: table %s differs from a clean session in %s: %s, clean %s" % (
                    phase, tname, diffs, json.dumps({k: t[k] for k in diffs})[:300], json.dumps({k: b[k] for k in diffs})[:300]))
                return


def judge_fault_phase(j, base, ops, results, must, rel, order, phase="fault"):
    """no panic; unreadable / ill-typed file: the first call that must load it returns Err naming the file"""
    if not j.no_panic(ops, results, phase):
        return
    i0 = first_bad(results)
    if i0 is None:
        if must:
            j.add("undetected", "%s phase: every call succeeded although %s cannot be read as a %s file" % (phase, rel, j.role))
        return
    j.effect = True
    err = results[i0].get("e", "")
    how = names_file(err, rel)
    j.first_error = {"call": ops[i0][0], "error": re.sub(r"\s+", " ", err)[:260]}
    j.notes.append("named-by-" + (how or "nothing"))
    # a file deleted before the paths were resolved may fall back to a more general file; errors further down cannot know about it
    if must or (j.sc.get("kind") == "deleted" and order.startswith("loaded") and not j.role.startswith("prefs")):
        if how is None:
            j.add("file-not-named", "%s phase: first failing call %s%s returns an error that does not name %s: %s" % (
                phase, ops[i0][0], json.dumps(list(ops[i0][1:]))[:100], rel, err[:700]))
            return
    if must and order.startswith("fresh"):
        fc = base["first_call"].get(rel)
        if fc is not None and i0 > fc:
            j.add("late-error", "%s phase: in a clean session %s is first loaded by call #%d (%s); with the damaged file that call succeeded and "
                  "the first error came at call #%d (%s)" % (phase, rel, fc, ops[fc][0], i0, ops[i0][0]))


def effect_seen(j, base, ops, results, hook, rules_dir):
    """did the fault have any observable effect (evidence only)"""
    n_init = base["n_init"]
    for op, r, w in zip(ops[n_init:], results[n_init:], base["outs"][n_init:]):
        if norm_out(op, r) != w:
            j.effect = True
            return
    if hook is not None:
        summ = hook_summary(hook, rules_dir)
        for tname, t in summ.items():
            if t != base["hook"][tname]:
                j.effect = True
                return


def run_scenario(env, base, sc, st=None):
    """returns the Judge of the scenario (violations, notes)"""
    cfg = base["cfg"]
    if sc.get("dirkind"):
        return run_dir_scenario(env, base, sc)
    rel, kind, order = sc["file"], sc["kind"], sc["order"]
    role = base["files"].get(rel, ["unknown"])[0] if not rel.startswith("@user/") else "prefs-user"
    j = Judge(sc, role)
    pristine = env.pristine(rel)
    content = make_fault(pristine if pristine is not None else "---\nSpeech:\n  Verbosity: Medium\n", kind, sc["param"], role, base.get("sentinel"))
    if content is None:
        j.notes.append("not-applicable")
        return j
    must = kind in MUST_ERROR and not role.startswith("prefs")
    probes = probe_ops(base["exprs"])
    extra_env = {"XDG_CONFIG_HOME": env.xdg} if rel.startswith("@user/") else None

    def damage():
        env.write(rel, None if content is DELETE else content)

    def repair():
        if rel.startswith("@user/"):
            env.write(rel, None)
        else:
            env.restore(rel)

    d = core.Driver("native", env=extra_env)
    try:
        try:
            if order.startswith("detour-"):
                check = "All" if order.endswith("-all") else None
                ops = init_ops(cfg, env.b, check=check) + probes
                res, hook = run_phase(d, ops)
                want = base["outs"][:2] + base["outs"][(3 if check is None else 2):]
                if [norm_out(o, r) for o, r in zip(ops, res)] != want:
                    j.notes.append("harness:pre-fault run differs from the baseline")
                    return j
                damage()
                ops = init_ops(cfg, env.a, check=check) + probes
                res, hook = run_phase(d, ops)
                judge_fault_phase(j, base, ops, res, must, rel, order)
                pad = [None] * (base["n_init"] - len(init_ops(cfg, env.a, check=check)))
                effect_seen(j, base, pad + ops, pad + res, hook, env.a)
                if order.startswith("detour-back"):
                    ops = init_ops(cfg, env.b, check=check) + probes
                    res, hook = run_phase(d, ops)
                    compare_recovery(j, base, ops, res, hook, env.b, "after set_rules_dir back to the intact directory that was loaded before" +
                                     (" (CheckRuleFiles=All)" if check else ""))
                else:
                    # as in fresh-reinit: a damaged file that could be loaded is only re-read when file checking is enabled
                    repair()
                    check2 = check if must else "All"
                    ops = init_ops(cfg, env.a, check=check2) + probes
                    res, hook = run_phase(d, ops)
                    compare_recovery(j, base, ops, res, hook, env.a, "after repair and set_rules_dir on the repaired directory" +
                                     (" (CheckRuleFiles=All)" if check2 else ""))
            elif order in ("loaded", "loaded-repoint"):
                ops = init_ops(cfg, env.a) + probes
                res, hook = run_phase(d, ops)
                outs = [norm_out(o, r) for o, r in zip(ops, res)]
                if outs != base["outs"] or hook_summary(hook, env.a) != base["hook"]:
                    j.notes.append("harness:pre-fault run differs from the baseline")
                    return j
                damage()
                res, hook = run_phase(d, probes)
                judge_fault_phase(j, base, probes, res, must and kind != "deleted", rel, order)
                effect_seen(j, base, [None] * base["n_init"] + probes, [None] * base["n_init"] + res, hook, env.a)
                if order == "loaded":
                    repair()
                    res, hook = run_phase(d, probes)
                    compare_recovery(j, base, probes, res, hook, env.a, "after repair (CheckRuleFiles=All)")
                else:
                    ops = init_ops(cfg, env.b) + probes
                    res, hook = run_phase(d, ops)
                    compare_recovery(j, base, ops, res, hook, env.b, "after re-pointing set_rules_dir to a pristine directory")
            else:
                damage()
                ops = init_ops(cfg, env.a, check="All" if order == "fresh" else None) + probes
                res, hook = run_phase(d, ops)
                judge_fault_phase(j, base, ops, res, must, rel, order)
                effect_seen(j, base, ops, res, hook, env.a)
                init_failed = any(r["r"] != "ok" for r in res[:base["n_init"]])
                if order == "fresh":
                    repair()
                    if init_failed or kind == "deleted":
                        ops = init_ops(cfg, env.a) + probes
                        res, hook = run_phase(d, ops)
                        compare_recovery(j, base, ops, res, hook, env.a, "after repair and re-initialisation (CheckRuleFiles=All)")
                    else:
                        res, hook = run_phase(d, probes)
                        compare_recovery(j, base, probes, res, hook, env.a, "after repair (CheckRuleFiles=All)")
                elif order == "fresh-repoint":
                    ops = init_ops(cfg, env.b, check=None) + probes
                    res, hook = run_phase(d, ops)
                    compare_recovery(j, base, ops, res, hook, env.b, "after re-pointing set_rules_dir to a pristine directory")
                else:
                    # a read that failed must never be remembered as a valid table, file checking or not; a damaged file that could be
                    # loaded (fewer rules) is only re-read when file checking is enabled (documented meaning of CheckRuleFiles)
                    repair()
                    check = None if must else "All"
                    ops = init_ops(cfg, env.a, check=check) + probes
                    res, hook = run_phase(d, ops)
                    compare_recovery(j, base, ops, res, hook, env.a, "after repair and set_rules_dir on the same directory" +
                                     ("" if must else " with CheckRuleFiles=All"))
        except Crash as c:
            j.effect = True
            j.add("abort", "driver process died (%s) during %s%s\n%s" % (c.what, c.op[0], json.dumps(list(c.op[1:]))[:200], c.detail),
                  sig="%s:%s:%s" % (c.what, c.op[0], role))
        except core.DriverTimeout as t:
            j.notes.append("inconclusive:timeout in %s" % (t.open_op.get("op"),))
    finally:
        d.close()
        try:
            repair()
        except OSError:
            pass
    return j


DIR_KINDS = ["nonexistent", "emptydir", "file", "emptystring", "prefs-only", "no-languages"]


def run_dir_scenario(env, base, sc):
    cfg = base["cfg"]
    j = Judge(sc, "rules-dir")
    bad = env.bad_dir(sc["dirkind"])
    probes = probe_ops(base["exprs"])
    d = core.Driver("native")
    try:
        try:
            if sc["order"] == "loaded":
                ops = init_ops(cfg, env.a) + probes
                res, hook = run_phase(d, ops)
                if [norm_out(o, r) for o, r in zip(ops, res)] != base["outs"]:
                    j.notes.append("harness:pre-fault run differs from the baseline")
                    return j
            ops = init_ops(cfg, bad) + probes
            res, hook = run_phase(d, ops)
            j.effect = True
            if j.no_panic(ops, res, "wrong rules directory"):
                r0 = res[0]
                if r0["r"] == "ok":
                    j.add("undetected", "set_rules_dir(%r) succeeded" % bad)
                elif bad and bad not in r0.get("e", ""):
                    j.add("file-not-named", "set_rules_dir(%r) returns an error that does not name the directory: %s" % (bad, r0.get("e", "")[:600]))
                else:
                    j.notes.append("named-by-path")
            ops = init_ops(cfg, env.a) + probes
            res, hook = run_phase(d, ops)
            compare_recovery(j, base, ops, res, hook, env.a, "after set_rules_dir to the right directory")
        except Crash as c:
            j.add("abort", "driver process died (%s) during %s%s\n%s" % (c.what, c.op[0], json.dumps(list(c.op[1:]))[:200], c.detail),
                  sig="%s:%s:rules-dir" % (c.what, c.op[0]))
        except core.DriverTimeout as t:
            j.notes.append("inconclusive:timeout in %s" % (t.open_op.get("op"),))
    finally:
        d.close()
    return j


# ------------------------------------------------------------------------------------------------------------------
# sharded run
# ------------------------------------------------------------------------------------------------------------------
def shard(spec):
    st = core.Stats()
    env = Env(spec["dir"])
    deadline = time.time() + spec["time_budget"]
    seen = {}
    try:
        for sc in spec["scenarios"]:
            if time.time() > deadline:
                st.count("scenarios_skipped_by_time_budget")
                continue
            base = spec["bases"][cfg_name(sc["cfg"])]
            j = run_scenario_checked(env, base, sc)
            if "driver-death-not-reproduced" in j.notes:
                st.count("driver_death_not_reproduced")
            if "not-applicable" in j.notes:
                st.count("kind_not_applicable_to_file")
                continue
            if any(n.startswith("harness:") for n in j.notes):
                st.inconclusive += 1
                st.notes.append("%s: %s" % (describe(sc), [n for n in j.notes if n.startswith("harness:")][0]))
                continue
            if any(n.startswith("inconclusive:") for n in j.notes):
                st.inconclusive += 1
                continue
            st.evaluations += 1
            key = describe(sc)
            st.count("scenarios")
            st.count("order_" + sc["order"])
            st.count("kind_" + (sc.get("kind") or "dir-" + sc["dirkind"]))
            st.add("configurations", cfg_name(sc["cfg"]))
            st.add("files", (sc.get("file") or "<rules dir>"))
            st.add("roles", j.role)
            for n in j.notes:
                if n.startswith("named-by-"):
                    st.count("first_error_" + n.replace("-", "_"))
                    if n == "named-by-nothing":
                        st.add("tolerated_first_error_without_file_name", "%s:%s:%s" % (j.role, sc.get("kind"), sc["order"]))
            if j.effect:
                st.nontrivial.add(core.h16(key))
            else:
                st.count("fault_without_observable_effect")
                st.add("no_effect", "%s:%s:%s" % (j.role, sc.get("kind"), sc["order"]))
            if j.effect and not j.violations and (j.first_error is not None or sc.get("dirkind")):
                st.sample({"scenario": key, "first_failing_call": j.first_error, "names_file_by": [n[9:] for n in j.notes if n.startswith("named-by-")],
                           "recovered_completely": True}, limit=2)
            for v in j.violations:
                st.count("raw_violations")
                if v["sig"] in seen:
                    seen[v["sig"]]["count"] += 1
                else:
                    v["count"] = 1
                    seen[v["sig"]] = v
                    st.violations.append(v)
    finally:
        env.remove()
    return st.to_dict()


def describe(sc):
    if sc.get("dirkind"):
        return "%s | rules dir %s | %s" % (cfg_name(sc["cfg"]), sc["dirkind"], sc["order"])
    return "%s | %s | %s@%.3f | %s" % (cfg_name(sc["cfg"]), sc["file"], sc["kind"], sc["param"], sc["order"])


def workdir(tag):
    return os.path.join(core.WORK, PROP, tag)


def pred_prefs_file(v, params):
    """the damaged file of the witness is a preference file (the system prefs.yaml or the user's)"""
    return (v["witness"].get("file") or "").endswith("prefs.yaml")


def pred_needs_api_set_prefs(v, params):
    """C14-api-prefs-lost-on-prefs-reload: the recovery failure needs preferences set through the API that differ from what prefs.yaml
    itself selects — the same scenario under the configuration that prefs.yaml selects (en / ClearSpeak / Nemeth) recovers completely"""
    w = dict(v["witness"])
    if not (w.get("file") or "").endswith("prefs.yaml") or w.get("cfg") == CONFIGS["quick"][0]:
        return False
    w["cfg"] = CONFIGS["quick"][0]
    return not any(x["kind"].startswith("recovery") for x in replay(w))


def pred_order(v, params):
    """the witness history is one of the named orders (params: {"prefix": ...})"""
    return str(v["witness"].get("order", "")).startswith(params.get("prefix", "\0"))


core.PREDICATES["c14_order"] = pred_order
core.PREDICATES["c14_prefs_file"] = pred_prefs_file
core.PREDICATES["c14_needs_api_set_prefs"] = pred_needs_api_set_prefs


_REPLAY = {"env": None, "bases": {}}


def _replay_cleanup():
    if _REPLAY["env"] is not None:
        _REPLAY["env"].remove()
        _REPLAY["env"] = None
        _REPLAY["bases"] = {}
        try:
            os.rmdir(os.path.join(core.WORK, PROP))
        except OSError:
            pass


def replay(witness):
    """re-run one scenario (private copy and clean baselines are kept for the life of the process)"""
    sc = witness
    if _REPLAY["env"] is None:
        import atexit
        _REPLAY["env"] = Env(workdir("replay-%d" % os.getpid()))
        atexit.register(_replay_cleanup)
    env = _REPLAY["env"]
    name = cfg_name(sc["cfg"])
    if name not in _REPLAY["bases"]:
        _REPLAY["bases"][name] = discover(sc["cfg"], env.b)
    return run_scenario_checked(env, _REPLAY["bases"][name], sc).violations


def run_scenario_checked(env, base, sc):
    """a dying driver process is a violation of this property only when it dies again on the same scenario
    (other jobs share the machine: an external kill must not be read as an abort of the library)"""
    j = run_scenario(env, base, sc)
    if any(v["kind"] == "abort" for v in j.violations):
        j2 = run_scenario(env, base, sc)
        if not any(v["kind"] == "abort" for v in j2.violations):
            j2.notes.append("driver-death-not-reproduced")
            return j2
    return j


def scenarios_for(base, tier, rng):
    cfg = base["cfg"]
    out = []
    n_params = {"quick": 1, "thorough": 4}[tier]
    rng_flip = rng.random() < 0.5
    for rel in sorted(base["files"]):
        for kind in FAULT_KINDS:
            positional = kind not in ("deleted", "empty", "type-swapped", "type-scalar", "appended-item")
            params = [rng.random() for _ in range(n_params)] if positional else [0.0]
            if positional and kind in ("trunc-boundary", "trunc-mid") and tier == "thorough":
                params += [0.0, 0.999]
            if kind == "trunc-boundary" and tier == "quick":
                params.append(0.0)      # keep only the first item: the loadable damage with the largest effect on the outputs
            for p in params:
                for order in ORDERS:
                    if tier == "quick" and order.startswith("detour-back"):
                        # one of the two CheckRuleFiles variants per (file, kind, position), chosen by the seed
                        if (order == "detour-back") != (core.sub_seed(rel, kind, p, "detour") % 2 == (0 if rng_flip else 1)):
                            continue
                    elif tier == "quick" and order not in ("fresh", "loaded") and rng.random() > 0.34:
                        continue
                    out.append({"cfg": cfg, "file": rel, "kind": kind, "param": round(p, 4), "order": order})
    for dk in DIR_KINDS:
        for order in ("fresh", "loaded"):
            out.append({"cfg": cfg, "dirkind": dk, "order": order})
    # the user's own preference file (XDG_CONFIG_HOME/MathCAT/prefs.yaml): absent in the baseline, present and damaged in the fault
    for kind in ("empty", "trunc-mid", "type-swapped", "type-scalar", "pref-int"):
        for order in ("fresh", "fresh-reinit"):     # repair = removing the user's file again; re-pointing cannot repair it
            out.append({"cfg": cfg, "file": "@user/prefs.yaml", "kind": kind, "param": 0.3, "order": order})
    return out


def run(tier, seed):
    t0 = time.time()
    core.build_driver("native")
    rng = random.Random(core.sub_seed(seed, PROP))
    tag = "run-%d-%d" % (seed, os.getpid())
    root = workdir(tag)
    bases, scen = {}, []
    env0 = Env(os.path.join(root, "discover"))
    try:
        for cfg in CONFIGS[tier]:
            b = discover(cfg, env0.b)
            bases[cfg_name(cfg)] = b
            scen.extend(scenarios_for(b, tier, rng))
    finally:
        env0.remove()
    rng.shuffle(scen)
    nsh = core.NPROC
    budget = 75 if tier == "quick" else 1500
    specs = [{"dir": os.path.join(root, "shard%d" % i), "scenarios": scen[i::nsh], "bases": bases, "time_budget": budget} for i in range(nsh)]
    try:
        results = core.run_shards(shard, specs)
        stats, errors = core.Stats.merge(results)
        known, fixed_failures, extra_v = core.replay_findings(PROP, replay)
        stats.violations.extend(extra_v)
    finally:
        _replay_cleanup()
        shutil.rmtree(root, ignore_errors=True)
        try:
            os.rmdir(os.path.join(core.WORK, PROP))
        except OSError:
            pass
    extra = {"scenarios_planned": len(scen),
             "files_reached_per_configuration": {k: sorted(b["files"]) for k, b in bases.items()},
             "included_by_text_but_not_tracked_by_library": {k: b.get("included_but_not_tracked", []) for k, b in bases.items()},
             "probe_expressions": {k: len(b["exprs"]) for k, b in bases.items()},
             "probe_characters": {k: "".join(b["probe_chars"]) for k, b in bases.items()},
             "fault_kinds": FAULT_KINDS, "orders": ORDERS, "rules_dir_faults": DIR_KINDS}
    return core.conclude(
        PROP, tier, seed, "fault_enumeration", stats, extra,
        ["the damaged files are built textually (no YAML parser): 'must report an error' is only demanded of damage that no YAML consumer can read as the "
         "expected shape (empty file, unterminated quoted scalar, wrong top-level type, scalar instead of a rule, invalid XPath, unknown replacement key, "
         "scalar instead of a definition list)",
         "pre-fault outputs and clean table sizes come from clean sessions of the same binary on a pristine private copy (run twice, must agree)",
         "'names the file' = the error chain of the first failing call contains the file's path or base name",
         "deleting a file, truncating it at an item boundary, an extra rule-level key and every damage to prefs.yaml are judged only for no panic and full recovery"],
        t0,
        rule="one scenario = (configuration, file reached by it or rules directory, fault kind and position, order of fault/call/repair) run in a fresh driver "
             "process on a private copy of Rules/ with explicit strictly increasing mtimes; non-trivial = the fault was observable at the API or hook "
             "(an error, a changed output, or a changed table) before it was repaired; distinct by scenario",
        min_nontrivial=100 if tier == "quick" else 400, harness_errors=errors, known_replayed=known, fixed_failures=fixed_failures)
