"""C04 — speech voices every operand of the expression.
Unambiguous histories: every operand is a distinct decimal literal, so a lost operand is read straight off the speech."""
import os
import random
import re
import time

from . import configs, core, gen, shrink

PROP = "C04"
VERBOSITIES = ["Terse", "Medium", "Verbose"]
TAG_RX = re.compile(r"<[^>]*>")


def count_literal(lit, s):
    return len(re.findall(r"(?<![0-9])" + re.escape(lit) + r"(?![0-9])", s))


def lost_literals(literals, speech):
    s = TAG_RX.sub(" ", speech)
    lost = []
    for lit in set(literals):
        want = literals.count(lit)
        if count_literal(lit, s) < want:
            lost.append(lit)
    return sorted(lost)


def tree_literals(tree):
    return [n.text for n, _ in tree.walk() if n.tag == "mn" and re.fullmatch(r"\d\d[.,]\d\d", n.text or "")]


def prefs_for(cfg):
    p = {"TTS": "None", "Language": cfg["lang"], "SpeechStyle": cfg["style"], "Verbosity": cfg["verbosity"]}
    p.update(cfg.get("extra", {}))
    return p


def evaluate(d, xml):
    """returns (set_mathml result, speech result, overview result)"""
    r = d.batch([("set_mathml", xml), ("get_spoken_text",), ("get_overview_text",)])
    return r[0], r[1], r[2]


class Session:
    """a driver configured for one cfg; restarted transparently when it dies"""

    def __init__(self, cfg):
        self.cfg = cfg
        self.d = None
        self.decimal = "."

    def ensure(self):
        if self.d is None or not self.d.alive():
            if self.d is not None:
                self.d.close()
            self.d = core.Driver("native")
            self.d.init(prefs_for(self.cfg))
            r = self.d.call("get_preference", "DecimalSeparators")
            self.decimal = (r.get("v") or ".")[0] if r["r"] == "ok" else "."
        return self.d

    def close(self):
        if self.d is not None:
            self.d.close()
            self.d = None


def judge_tree(sess, tree):
    """Evaluate one tree under the session's configuration.
    returns (kind or None, lost literals, detail, (set result, speech result, overview result))"""
    d = sess.ensure()
    xml = tree.xml()
    try:
        sm, sp, ov = evaluate(d, xml)
    except (core.DriverDied, core.DriverTimeout) as e:
        sess.close()
        return "crash", [], str(e), None
    if sm["r"] != "ok":
        return None, [], "set_mathml " + sm["r"], (sm, sp, ov)          # judged by C08, not here
    if sp["r"] != "ok":
        what = sp.get("e") or (sp.get("p") or {}).get("msg", "")
        return "no-speech", [], "get_spoken_text -> %s: %s" % (sp["r"], what), (sm, sp, ov)
    # operands that survived canonicalization (a loss inside set_mathml is C01's to report, not this property's)
    canon = re.sub(r"<[^>]*>", " ", sm["v"])
    lits = []
    for lit in tree_literals(tree):
        if lits.count(lit) < count_literal(lit, canon):
            lits.append(lit)
    lost = lost_literals(lits, sp["v"])
    if lost:
        return "lost-operand", lost, "speech %r lacks %s" % (sp["v"][:500], lost), (sm, sp, ov)
    return None, [], "", (sm, sp, ov)


def minimise(cfg, tree, kind):
    """shrink the expression, then try to move the configuration to the default one"""
    sess = Session(cfg)
    try:
        small = shrink.shrink_tree(tree, lambda t: judge_tree(sess, t)[0] == kind, budget=1500,
                                   leaf_factory=lambda: [gen.mn("17%s29" % sess.decimal), gen.mi("x")])
    finally:
        sess.close()
    trials = []
    for k in sorted(cfg.get("extra", {})):
        trials.append(("extra", k))
    trials += [("verbosity", "Medium"), ("style", "ClearSpeak"), ("lang", "en")]
    for key, default in trials:
        trial = dict(cfg)
        if key == "extra":
            ex = dict(trial.get("extra", {}))
            ex.pop(default, None)
            if ex:
                trial["extra"] = ex
            else:
                trial.pop("extra", None)
        else:
            trial[key] = default
        if trial == cfg:
            continue
        if key == "lang" and trial["style"] not in configs.styles(default):
            continue
        s2 = Session(trial)
        try:
            t2 = small.copy()
            s2.ensure()
            for n, _ in t2.walk():
                if n.tag == "mn" and n.text and re.fullmatch(r"\d\d[.,]\d\d", n.text):
                    n.text = n.text[:2] + s2.decimal + n.text[3:]
            if judge_tree(s2, t2)[0] == kind:
                cfg, small = trial, t2
        finally:
            s2.close()
    return cfg, small


def local_contexts(tree, lost):
    """where the lost literals sit in the (minimal) witness: grandparent>parent[index/arity]:previous_next sibling classes"""
    out = set()
    for node, path in tree.walk():
        if node.tag == "mn" and node.text in lost and path:
            chain = [tree]
            for i in path[:-1]:
                chain.append(chain[-1].kids[i])
            parent = chain[-1]
            gp = chain[-2].tag if len(chain) > 1 else "-"
            idx = path[-1]
            prev = shrink.token_class(parent.kids[idx - 1]) if idx > 0 else "^"
            nxt = shrink.token_class(parent.kids[idx + 1]) if idx + 1 < len(parent.kids) else "$"
            attrs = "".join("[%s=%s]" % (k, parent.attrs[k]) for k in sorted(parent.attrs) if k in ("linethickness", "notation", "bevelled"))
            out.add("%s>%s%s[%d/%d]:%s_%s" % (gp, parent.tag, attrs, idx, len(parent.kids), prev if parent.kids[idx - 1].kids is None or idx == 0 else parent.kids[idx - 1].tag,
                                              nxt if idx + 1 >= len(parent.kids) or parent.kids[idx + 1].kids is None else parent.kids[idx + 1].tag))
    return sorted(out)


def error_root(detail):
    """stable summary of a speech error chain: innermost rule and the root cause"""
    pats = re.findall(r'attempting replacement pattern: "([^"]*)" for "([^"]*)"', detail)
    causes = [l[len("caused by: "):] for l in detail.splitlines() if l.startswith("caused by: ")]
    root = causes[-1] if causes else detail.splitlines()[0] if detail else ""
    root = re.sub(r"<.*", "", root)
    root = re.sub(r"'[^']*'", "'…'", root)
    root = re.sub(r"\d+", "N", root)[:90].strip()
    return "%s|%s" % ("/".join(pats[-1]) if pats else "-", root)


def make_sig(kind, tree, cfg, lost, detail_full):
    if kind == "lost-operand":
        return "lost-operand | %s | %s" % (" + ".join(local_contexts(tree, lost)), cfg_sig(cfg))
    return "%s | %s | %s" % (kind, error_root(detail_full), cfg_sig(cfg))


def cfg_sig(cfg):
    parts = []
    if cfg["lang"] != "en":
        parts.append("lang=" + cfg["lang"])
    if cfg["style"] != "ClearSpeak":
        parts.append("style=" + cfg["style"])
    if cfg["verbosity"] != "Medium":
        parts.append("verbosity=" + cfg["verbosity"])
    for k, v in sorted(cfg.get("extra", {}).items()):
        parts.append("%s=%s" % (k, v))
    return ",".join(parts) or "default"


def shard(spec):
    st = core.Stats()
    rng = random.Random(spec["seed"])
    deadline = time.time() + spec["time_budget"]
    seen_pre = set()
    for cfg in spec["configs"]:
        sess = Session(cfg)
        try:
            sess.ensure()
            for i in range(spec["per_config"]):
                if time.time() > deadline:
                    st.count("stopped_by_time_budget")
                    break
                if rng.random() < 0.25:
                    tb = gen.Textbook(rng, decimal=sess.decimal, max_depth=4, features=gen.Textbook.focused_pool(rng), p_leaf=0.3)
                else:
                    tb = gen.Textbook(rng, decimal=sess.decimal, max_depth=rng.choice([2, 3, 4]))
                tree, lits = tb.expression()
                kind, lost, detail, res = judge_tree(sess, tree)
                st.evaluations += 1
                if res is not None and res[0]["r"] == "ok":
                    st.nontrivial.add(core.h16(tree.shape() + cfg_sig(cfg)))
                    st.count("literals_checked", len(lits))
                    if res[2]["r"] != "ok":
                        st.count("overview_errors")
                elif res is not None:
                    st.count("set_mathml_" + res[0]["r"])
                st.add("configs", "%s/%s/%s" % (cfg["lang"], cfg["style"], cfg["verbosity"]))
                if i == 0 and res is not None and res[1]["r"] == "ok":
                    st.sample({"config": cfg_sig(cfg), "mathml": tree.xml()[:600], "literals": lits, "speech": res[1]["v"][:400]}, limit=3)
                if kind is None:
                    continue
                if kind == "crash":
                    st.inconclusive += 1
                    continue
                paths = gen.element_paths(tree)
                pre = (kind, cfg["lang"], tuple(sorted(set(p.split("#")[0] for l in lost for p in paths.get(l, [])))) if lost else error_root(detail))
                st.count("raw_violations_" + kind)
                if pre in seen_pre:
                    continue
                seen_pre.add(pre)
                mcfg, small = minimise(cfg, tree, kind)
                s3 = Session(mcfg)
                try:
                    k3, lost3, detail3, _ = judge_tree(s3, small)
                finally:
                    s3.close()
                if k3 != kind:
                    k3, lost3, detail3, mcfg, small = kind, lost, detail, cfg, tree
                sig = make_sig(kind, small, mcfg, lost3, detail3)
                st.violations.append(core.violation(kind, sig, {"cfg": mcfg, "mathml": small.xml()},
                                                    "minimal witness " + small.xml() + " | " + detail3[:700]))
            # coverage of rules reached in this configuration
            try:
                hits = sess.ensure().call("rule_hits")["v"]
                for k in hits:
                    t = k.split("|")
                    if t[0] in ("Speech", "Intent"):
                        st.add("rules_fired", "%s|%s|%s|%s" % (t[0], t[1].split("/Rules/")[-1], t[2], t[3]))
            except Exception:
                pass
        finally:
            sess.close()
    return st.to_dict()


def optional_words(lang):
    """optional words (ot:/OT:) used by the language's rule files — scraped from the tree, used only to classify a known finding"""
    import glob
    parts = lang.split("-")
    base = os.path.join(core.RULES, "Languages", parts[0])
    files = glob.glob(base + "/*.yaml") + glob.glob(base + "/SharedRules/*.yaml")
    if len(parts) > 1:
        files += glob.glob(base + "/" + parts[1] + "/*.yaml") + glob.glob(base + "/" + parts[1] + "/SharedRules/*.yaml")
    words = set()
    for f in files:
        for line in open(f, encoding="utf-8"):
            code = line.split("#")[0]
            m = re.search(r"""[\s{\[,-]\s*[oO][tT]:\s*(?:"([^"]*)"|'([^']*)'|([^\s}\]]+))""", code)
            if m:
                words.add(next(g for g in m.groups() if g is not None))
    return words


def pred_optional_word_prefix_drop(v, params):
    """Known finding C04-optional-word-prefix-drop: speech.rs is_repetitive() deletes whatever precedes an optional word inside one
    replacement string when the previous string ends with that word (always, when the optional word is empty as in fi/id).
    Holds when a construct N after the lost literal starts its speech with one of the language's optional words and replacing
    N by a plain identifier makes the lost literal come back."""
    w = v["witness"]
    cfg = w["cfg"]
    opt = optional_words(cfg["lang"])
    if not opt:
        return False
    tree = from_xml(w["mathml"])
    sess = Session(cfg)
    try:
        kind, lost, _, _ = judge_tree(sess, tree)
        if kind != "lost-operand":
            return False
        nodes = list(tree.walk())
        lost_paths = [p for n, p in nodes if n.tag == "mn" and n.text in lost]
        for n, p in nodes:
            if n.kids is None or not p or n.tag in shrink.STRUCTURAL or n.tag == "math":
                continue
            # the lost literal is outside N (in speech it comes before N's words; in the tree it may be a later child, e.g. the index of a root)
            before = [lp for lp in lost_paths if lp[:len(p)] != p]
            if not before:
                continue
            alone = judge_tree(sess, gen.N("math", [n.copy()]))[3]
            if alone is None or alone[1]["r"] != "ok":
                continue
            sn = alone[1]["v"].strip().lower()
            if not any(o == "" or sn.startswith(o.lower() + " ") for o in opt):
                continue
            t2 = shrink._replace_at(tree, p, gen.mi("x"))
            k2, lost2, _, _ = judge_tree(sess, t2)
            before_lits = set()
            for lp in before:
                cur = tree
                for i in lp:
                    cur = cur.kids[i]
                before_lits.add(cur.text)
            if k2 != "crash" and not (before_lits & set(lost2)):
                return True
        return False
    finally:
        sess.close()


core.PREDICATES["c04_optional_word_prefix_drop"] = pred_optional_word_prefix_drop


def pred_unparsed_table_cell(v, params):
    """Known finding C04-unparsed-table-cell: the canonical MathML of the witness has a table cell that was left unparsed (adjacent
    operands), so rules that look at the structure (no-say-parens speaks only the 'single' content of the parentheses) drop content"""
    import xml.etree.ElementTree as ET
    from . import canon
    w = v["witness"]
    sess = Session(w["cfg"])
    try:
        r = sess.ensure().call("set_mathml", w["mathml"])
        return r["r"] == "ok" and canon.has_unparsed_table_cell(ET.fromstring(r["v"]))
    finally:
        sess.close()


core.PREDICATES["c04_unparsed_table_cell"] = pred_unparsed_table_cell


def replay(witness):
    from xml.etree import ElementTree as ET
    cfg = witness["cfg"]
    sess = Session(cfg)
    try:
        tree = from_xml(witness["mathml"])
        kind, lost, detail, res = judge_tree(sess, tree)
        if kind in (None, "crash"):
            return []
        return [core.violation(kind, make_sig(kind, tree, cfg, lost, detail), witness, detail[:700])]
    finally:
        sess.close()


def from_xml(xml):
    import xml.etree.ElementTree as ET

    def conv(e):
        tag = e.tag.split("}")[-1]
        kids = list(e)
        if kids or tag not in ("mi", "mn", "mo", "mtext", "ms"):
            n = gen.N(tag, [conv(k) for k in kids])
        else:
            n = gen.N(tag, text=e.text or "")
        n.attrs = dict(e.attrib)
        return n
    return conv(ET.fromstring(xml))


def all_configs(rng, tier):
    prefs = configs.prefs_yaml()
    clearspeak = {k: v[1] for k, v in prefs.items() if k.startswith("ClearSpeak_") and v[1]}
    out = []
    for lang in configs.languages():
        for style in configs.styles(lang):
            for verb in VERBOSITIES:
                cfg = {"lang": lang, "style": style, "verbosity": verb}
                out.append(cfg)
                # rotating subset of the ClearSpeak_* preferences (enumerators scraped from prefs.yaml comments)
                n_extra = 1 if tier == "quick" else 4
                for _ in range(n_extra):
                    extra = {}
                    for k in rng.sample(sorted(clearspeak), rng.randint(1, 3)):
                        extra[k] = rng.choice(clearspeak[k])
                    c2 = dict(cfg)
                    c2["extra"] = extra
                    out.append(c2)
    return out


def run(tier, seed):
    t0 = time.time()
    core.build_driver("native")
    rng = random.Random(core.sub_seed(seed, PROP))
    cfgs = all_configs(rng, tier)
    rng.shuffle(cfgs)
    nsh = core.NPROC
    per_config = int(os.environ.get("C04_PER_CONFIG", "0")) or (500 if tier == "quick" else 6000)
    budget = 80 if tier == "quick" else 1700
    specs = [{"seed": core.sub_seed(seed, PROP, i), "configs": cfgs[i::nsh], "per_config": per_config, "time_budget": budget} for i in range(nsh)]
    results = core.run_shards(shard, specs)
    stats, errors = core.Stats.merge(results)
    known, fixed_failures, extra_v = core.replay_findings(PROP, replay)
    stats.violations.extend(extra_v)
    return core.conclude(
        PROP, tier, seed, "exploration", stats, {"configurations_total": len(cfgs)},
        ["a planted literal is a 2-digit.2-digit decimal written with the session's own decimal mark (read back from the DecimalSeparators preference)",
         "get_overview_text is only exercised (may summarise); set_mathml failures are judged by C08, not here"],
        t0,
        rule="random textbook-grammar expressions (33 construct kinds, depth<=4) with a distinct decimal literal at every operand position, for every shipped "
             "language x speech style x verbosity plus random ClearSpeak_* preference subsets; oracle counts whole-number occurrences of each literal in "
             "get_spoken_text; non-trivial = set_mathml succeeded and speech was judged; distinct by (expression shape, configuration)",
        min_nontrivial=200, harness_errors=errors, known_replayed=known, fixed_failures=fixed_failures)
