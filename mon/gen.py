"""Workload generators.  Trees are small Python objects so that the shrinker can edit them.
Every generator is driven by a random.Random seeded from VERIF_SEED."""
import random

from .mml import esc


class N:
    """MathML node: tag, attrs, and either text (token) or kids."""
    __slots__ = ("tag", "attrs", "kids", "text", "raw")

    def __init__(self, tag, kids=None, text=None, **attrs):
        self.tag = tag
        self.attrs = {k.rstrip("_").replace("_", "-"): v for k, v in attrs.items()}
        self.kids = kids if kids is not None else ([] if text is None else None)
        self.text = text
        self.raw = None          # token only: inner XML to emit instead of the escaped text (embedded HTML, mglyph); text = its visible text

    def is_token(self):
        return self.kids is None

    def xml(self):
        a = "".join(" %s='%s'" % (k, esc(v)) for k, v in self.attrs.items())
        if self.kids is None:
            return "<%s%s>%s</%s>" % (self.tag, a, self.raw if self.raw is not None else esc(self.text), self.tag)
        if not self.kids:
            return "<%s%s/>" % (self.tag, a)
        return "<%s%s>%s</%s>" % (self.tag, a, "".join(k.xml() for k in self.kids), self.tag)

    def copy(self):
        n = N(self.tag)
        n.attrs = dict(self.attrs)
        n.text = self.text
        n.raw = self.raw
        n.kids = None if self.kids is None else [k.copy() for k in self.kids]
        return n

    def walk(self, path=()):
        yield self, path
        if self.kids:
            for i, k in enumerate(self.kids):
                yield from k.walk(path + (i,))

    def shape(self, depth=0):
        if self.kids is None:
            return self.tag
        if depth > 6:
            return self.tag + "(…)"
        return self.tag + "(" + ",".join(k.shape(depth + 1) for k in self.kids) + ")"


def mi(t, **a):
    return N("mi", text=t, **a)


def mn(t, **a):
    return N("mn", text=t, **a)


def mo(t, **a):
    return N("mo", text=t, **a)


def mtext(t, **a):
    return N("mtext", text=t, **a)


def mrow(*kids, **a):
    return N("mrow", list(kids), **a)


def math(*kids, **a):
    return N("math", list(kids), **a)


VARS = list("abcdhknpqrstuvwxyz")
GREEK = list("αβγθλμπσφω")
FUNCS = ["sin", "cos", "tan", "log", "ln", "exp", "f", "g"]
BIGOPS = ["∑", "∏", "∫", "⋃", "⋂"]
RELS = ["=", "<", ">", "≤", "≥", "≠", "≈", "∈", "→", "≡"]
ADDOPS = ["+", "-", "−", "±"]
MULOPS = ["×", "⋅", "·", "÷", "/", "*"]
FENCES = [("(", ")"), ("[", "]"), ("{", "}"), ("|", "|"), ("⟨", "⟩"), ("⌊", "⌋"), ("⌈", "⌉")]
NOTATIONS = ["box", "circle", "roundedbox", "top", "bottom", "left", "right", "updiagonalstrike", "downdiagonalstrike", "longdiv", "actuarial", "radical", "horizontalstrike"]


class Textbook:
    """Random 'textbook' expressions with a distinct decimal literal planted at (almost) every operand position."""

    COMMON = ["frac", "sup", "sqrt", "sub", "fenced_row", "func", "root", "matrix", "subsup", "bigop"]

    @classmethod
    def focused_pool(cls, rng):
        """a small construct pool (two common constructs + one random): the same few constructs then repeat and nest inside each other,
        which is where rule interactions (optional words, pauses, braille indicators) show"""
        return rng.sample(cls.COMMON, 2) + [rng.choice(cls.CONSTRUCTS)]

    def __init__(self, rng, decimal=".", max_depth=4, p_ident=0.25, features=None, p_leaf=0.45, p_lead_mark=0.0):
        self.p_lead_mark = p_lead_mark    # share of the planted literals written without integer part (",75"): only for oracles that know the form
        self.rng = rng
        self.decimal = decimal
        self.max_depth = max_depth
        self.p_ident = p_ident
        self.literals = []
        self.used = set()
        self.features = features          # None = all
        self.p_leaf = p_leaf
        self.kind_stack = []

    # -- literals ---------------------------------------------------------------------------
    def literal(self):
        r = self.rng
        for _ in range(200):
            whole = r.randint(13, 98)
            frac = r.randint(11, 98)
            if whole % 10 == 0 or frac % 10 == 0 or whole % 11 == 0 and r.random() < 0.5:
                continue
            s = "%d%s%d" % (whole, self.decimal, frac)
            if self.p_lead_mark and r.random() < self.p_lead_mark:
                s = "%s%d" % (self.decimal, frac)
            # no literal may contain another one's integer or fraction part as a neighbour-free substring
            if whole in self.used or frac in self.used:
                continue
            self.used.add(whole)
            self.used.add(frac)
            self.literals.append(s)
            return mn(s)
        raise RuntimeError("literal space exhausted")

    def operand(self, depth):
        r = self.rng
        if depth >= self.max_depth or r.random() < self.p_leaf:
            if r.random() < self.p_ident:
                return mi(r.choice(VARS + GREEK))
            return self.literal()
        return self.construct(depth)

    def row(self, depth, n=None):
        r = self.rng
        n = n or r.randint(2, 4)
        kids = [self.operand(depth + 1)]
        kind = r.random()
        for _ in range(n - 1):
            if kind < 0.55:
                kids.append(mo(r.choice(ADDOPS)))
            elif kind < 0.8:
                kids.append(mo(r.choice(MULOPS)))
            else:
                kids.append(mo(r.choice(RELS)))
            kids.append(self.operand(depth + 1))
        return mrow(*kids)

    CONSTRUCTS = ["row", "frac", "sqrt", "root", "sup", "sub", "subsup", "bigop", "lim", "over", "under", "underover",
                  "multiscripts", "matrix", "cases", "table", "fenced_row", "mfenced", "func", "binom", "enclose", "text_row",
                  "neg", "factorial", "implied_times", "abs", "mixed", "integral", "semantics", "mstyle", "mpadded", "prime", "frac_bevelled", "seplist", "func_scripted",
                  "setbuilder"]

    def construct(self, depth):
        r = self.rng
        pool = self.features or self.CONSTRUCTS
        # self-nesting: interactions between rules (repeated optional words, pauses, indicators) show when a construct contains its own kind
        if self.kind_stack and r.random() < 0.18 and self.kind_stack[-1] in pool:
            kind = self.kind_stack[-1]
        else:
            kind = r.choice(pool)
        self.kind_stack.append(kind)
        try:
            return getattr(self, "c_" + kind)(depth)
        finally:
            self.kind_stack.pop()

    def c_row(self, d):
        return self.row(d)

    def c_frac(self, d):
        return N("mfrac", [self.operand(d + 1), self.operand(d + 1)])

    def c_frac_bevelled(self, d):
        return N("mfrac", [self.operand(d + 1), self.operand(d + 1)], bevelled="true")

    def c_sqrt(self, d):
        return N("msqrt", [self.operand(d + 1)])

    def c_root(self, d):
        return N("mroot", [self.operand(d + 1), self.operand(d + 1)])

    def base(self, d):
        r = self.rng
        if r.random() < 0.5:
            return mi(r.choice(VARS + GREEK))
        if r.random() < 0.5:
            return self.literal()
        return mrow(mo("("), self.row(d + 1, 2), mo(")"))

    def c_sup(self, d):
        return N("msup", [self.base(d), self.operand(d + 1)])

    def c_sub(self, d):
        return N("msub", [self.base(d), self.operand(d + 1)])

    def c_subsup(self, d):
        return N("msubsup", [self.base(d), self.operand(d + 1), self.operand(d + 1)])

    def c_bigop(self, d):
        r = self.rng
        op = mo(r.choice(BIGOPS))
        v = mi(r.choice("ijkmn"))
        lower = mrow(v, mo("="), self.literal())
        kind = r.choice(["munderover", "msubsup", "munder", "msub"])
        if kind in ("munderover", "msubsup"):
            big = N(kind, [op, lower, self.operand(d + 1)])
        else:
            big = N(kind, [op, lower])
        return mrow(big, self.operand(d + 1))

    def c_integral(self, d):
        r = self.rng
        big = N(r.choice(["msubsup", "munderover"]), [mo("∫"), self.literal(), self.literal()])
        x = mi(r.choice("xtu"))
        return mrow(big, self.operand(d + 1), mo("⁢"), mrow(mi("d"), mo("⁢"), x))

    def c_lim(self, d):
        r = self.rng
        v = mi(r.choice("xnt"))
        return mrow(N("munder", [mi("lim"), mrow(v, mo("→"), self.literal())]), self.operand(d + 1))

    def c_over(self, d):
        r = self.rng
        return N("mover", [self.operand(d + 1), r.choice([mo("¯"), mo("^"), mo("→"), mo("˜"), mo("⏞"), self.literal()])])

    def c_under(self, d):
        r = self.rng
        return N("munder", [self.operand(d + 1), r.choice([mo("_"), mo("⏟"), mo("¯"), self.literal()])])

    def c_underover(self, d):
        return N("munderover", [self.operand(d + 1), self.operand(d + 1), self.operand(d + 1)])

    def c_multiscripts(self, d):
        r = self.rng
        kids = [self.base(d)]
        for _ in range(r.randint(1, 2)):
            kids.append(self.literal() if r.random() < 0.8 else N("none"))
            kids.append(self.literal() if r.random() < 0.8 else N("none"))
        if r.random() < 0.5:
            kids.append(N("mprescripts"))
            for _ in range(r.randint(1, 2)):
                kids.append(self.literal() if r.random() < 0.8 else N("none"))
                kids.append(self.literal() if r.random() < 0.8 else N("none"))
        return N("mmultiscripts", kids)

    def table(self, d, rows, cols):
        return N("mtable", [N("mtr", [N("mtd", [self.operand(d + 2)]) for _ in range(cols)]) for _ in range(rows)])

    def c_matrix(self, d):
        r = self.rng
        o, c = r.choice([("(", ")"), ("[", "]"), ("|", "|"), ("‖", "‖")])
        return mrow(mo(o), self.table(d, r.randint(1, 3), r.randint(1, 3)), mo(c))

    def c_cases(self, d):
        r = self.rng
        rows = []
        for _ in range(r.randint(2, 3)):
            rows.append(N("mtr", [N("mtd", [self.operand(d + 2)]), N("mtd", [mrow(mtext("if"), mi("x"), mo(r.choice(RELS[:6])), self.literal())])]))
        return mrow(mo("{"), N("mtable", rows))

    def c_table(self, d):
        r = self.rng
        return self.table(d, r.randint(1, 3), r.randint(1, 3))

    def c_fenced_row(self, d):
        r = self.rng
        o, c = r.choice(FENCES)
        return mrow(mo(o), self.row(d + 1), mo(c))

    def c_seplist(self, d):
        """fenced list of 2-5 items with one separator (points, intervals, sets, argument lists), sometimes named or related to something"""
        r = self.rng
        o, c = r.choice([("(", ")"), ("[", "]"), ("{", "}"), ("(", "]"), ("[", ")"), ("⟨", "⟩")])
        sep = r.choice([",", ",", ";", ";", "|", ":"])
        items = [self.operand(d + 1)]
        for _ in range(r.randint(1, 4)):
            items += [mo(sep), self.operand(d + 1)]
        lst = mrow(mo(o), mrow(*items), mo(c))
        k = r.random()
        if k < 0.3:
            return mrow(mi(r.choice("PQfgA")), mo(r.choice(["=", "∈", "⊂", "∪", "⁡"])), lst)
        return lst

    def c_setbuilder(self, d):
        """set-builder notation: { x | condition, condition, ... } with 1-4 comma-separated conditions, the bar written as | : or U+2223"""
        r = self.rng
        var = mi(r.choice("xyznk"))
        head = [var] if r.random() < 0.6 else [var.copy(), mo("∈"), mi(r.choice("SAB"))]
        conds = []
        for i in range(r.randint(1, 4)):
            if i:
                conds.append(mo(","))
            c = [var.copy() if r.random() < 0.7 else self.operand(d + 1), mo(r.choice(["<", ">", "≠", "≤", "=", "∈"])), self.operand(d + 1)]
            conds += [mrow(*c)] if r.random() < 0.5 else c
        bar = mo(r.choice(["|", "|", ":", "∣"]))
        inner = head + [bar] + conds
        body = mrow(mo("{"), mrow(*inner), mo("}")) if r.random() < 0.6 else mrow(mo("{"), *inner, mo("}"))
        if r.random() < 0.3:
            return mrow(mi(r.choice("ABS")), mo("="), body)
        return body

    def c_abs(self, d):
        return mrow(mo("|"), self.operand(d + 1), mo("|"))

    def c_mfenced(self, d):
        r = self.rng
        a = {}
        if r.random() < 0.5:
            o, c = r.choice(FENCES)
            a = {"open": o, "close": c}
        if r.random() < 0.3:
            a["separators"] = r.choice([";", ",", ";,", "|"])
        n = N("mfenced", [self.operand(d + 1) for _ in range(r.randint(1, 3))])
        n.attrs = a
        return n

    def c_func(self, d):
        r = self.rng
        f = mi(r.choice(FUNCS))
        if r.random() < 0.5:
            arg = mrow(mo("("), self.operand(d + 1), mo(")"))
        else:
            arg = self.operand(d + 1)
        if r.random() < 0.5:
            return mrow(f, mo("⁡"), arg)
        return mrow(f, arg)

    def c_func_scripted(self, d):
        """a function name with scripts: log_b x, sin^n x, log_b^n x (base and power are operands of their own)"""
        r = self.rng
        name = r.choice(["log", "log", "sin", "cos", "tan", "ln", "f"])
        k = r.random()
        if name == "log" and k < 0.4:
            f = N("msub", [mi(name), self.operand(d + 1)])
        elif name == "log" and k < 0.75:
            f = N("msubsup", [mi(name), self.operand(d + 1), self.operand(d + 1)])
        else:
            f = N("msup", [mi(name), self.operand(d + 1)])
        arg = mrow(mo("("), self.operand(d + 1), mo(")")) if r.random() < 0.4 else self.operand(d + 1)
        if r.random() < 0.6:
            return mrow(f, mo("\u2061"), arg)
        return mrow(f, arg)

    def c_binom(self, d):
        return mrow(mo("("), N("mfrac", [self.operand(d + 1), self.operand(d + 1)], linethickness="0"), mo(")"))

    def c_enclose(self, d):
        r = self.rng
        return N("menclose", [self.operand(d + 1)], notation=r.choice(NOTATIONS))

    def c_text_row(self, d):
        r = self.rng
        return mrow(self.operand(d + 1), mtext(r.choice(["and", "or", "where", "for all", "such that", "the", "of the"])), self.operand(d + 1))

    def c_neg(self, d):
        r = self.rng
        return mrow(mo(r.choice(["-", "−", "+", "¬"])), self.operand(d + 1))

    def c_factorial(self, d):
        return mrow(self.operand(d + 1), mo("!"))

    def c_implied_times(self, d):
        r = self.rng
        kids = [self.operand(d + 1), mi(r.choice(VARS))]
        if r.random() < 0.5:
            kids.insert(1, mo("⁢"))
        return mrow(*kids)

    def c_mixed(self, d):
        return mrow(self.literal(), N("mfrac", [self.literal(), self.literal()]))

    def c_semantics(self, d):
        return N("semantics", [self.operand(d + 1), N("annotation", [], encoding="application/x-tex")])

    def c_mstyle(self, d):
        r = self.rng
        return N("mstyle", [self.operand(d + 1)], displaystyle=r.choice(["true", "false"]))

    def c_mpadded(self, d):
        return N("mpadded", [self.operand(d + 1)], width="+0.5em")

    def c_prime(self, d):
        r = self.rng
        return N("msup", [mi(r.choice("fgy")), mo(r.choice(["′", "'", "″"]))])

    # -- entry ------------------------------------------------------------------------------
    def expression(self):
        """returns (root N, literals)"""
        self.literals = []
        self.used = set()
        r = self.rng
        for _ in range(50):
            self.literals = []
            self.used = set()
            try:
                body = self.construct(0) if r.random() < 0.7 else self.row(0)
            except RuntimeError:
                continue
            if self.literals:
                return math(body), list(self.literals)
        lit = self.literal()
        return math(lit), list(self.literals)


def element_paths(root):
    """for each mn literal: the chain of ancestor tags (used to pre-cluster 'lost operand' violations)"""
    out = {}
    for node, path in root.walk():
        if node.tag == "mn":
            chain = []
            cur = root
            for i in path:
                chain.append(cur.tag)
                cur = cur.kids[i]
            out.setdefault(node.text, []).append("/".join(chain[-3:]) + "#%d" % (path[-1] if path else 0))
    return out


def from_xml(xml):
    """parse an XML string into N nodes (tokens keep their text, everything else its children)"""
    import xml.etree.ElementTree as ET

    def conv(e):
        tag = e.tag.split("}")[-1]
        kids = list(e)
        if kids or tag not in ("mi", "mn", "mo", "mtext", "ms"):
            n = N(tag, [conv(k) for k in kids])
        else:
            n = N(tag, text=e.text or "")
        n.attrs = {(("xml:" + k.split("}")[-1]) if k.startswith("{http://www.w3.org/XML/1998/namespace}") else k): v for k, v in e.attrib.items()}
        return n
    return conv(ET.fromstring(xml))
