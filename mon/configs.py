"""Discovery of what ships in /repo/Rules (read from the tree at run time so that the workload follows the code base)."""
import os
import re

from . import core


def languages(rules=None, include_test=False):
    """language tags that can be selected: 'en', 'en-gb', 'zh-tw', ... (a directory counts when it has a *_Rules.yaml)"""
    rules = rules or core.RULES
    out = []
    base = os.path.join(rules, "Languages")
    for lang in sorted(os.listdir(base)):
        d = os.path.join(base, lang)
        if not os.path.isdir(d) or (lang == "zz" and not include_test):
            continue
        if any(f.endswith("_Rules.yaml") for f in os.listdir(d)):
            out.append(lang)
        for region in sorted(os.listdir(d)):
            rd = os.path.join(d, region)
            if os.path.isdir(rd) and region != "SharedRules":
                if any(f.endswith(".yaml") for f in os.listdir(rd)):
                    out.append(lang + "-" + region)
    return out


def styles(lang, rules=None):
    rules = rules or core.RULES
    parts = lang.split("-")
    dirs = [os.path.join(rules, "Languages", parts[0])]
    if len(parts) > 1:
        dirs.insert(0, os.path.join(rules, "Languages", parts[0], parts[1]))
    out = []
    for d in dirs:
        if os.path.isdir(d):
            for f in sorted(os.listdir(d)):
                if f.endswith("_Rules.yaml") and f[:-11] not in out:
                    out.append(f[:-11])
    return out


def braille_codes(rules=None):
    rules = rules or core.RULES
    base = os.path.join(rules, "Braille")
    return [c for c in sorted(os.listdir(base)) if os.path.isdir(os.path.join(base, c))
            and os.path.exists(os.path.join(base, c, c.split("-")[0] + "_Rules.yaml"))]


_LINE = re.compile(r"^(\s*)([A-Za-z0-9]+):\s*(.*?)\s*$")


def prefs_yaml(rules=None):
    """Flattened preferences of prefs.yaml: {name: (default string, [enumerators mentioned in the comment])}
    Names below Speech/Navigation/Braille/Other are joined with '_' exactly as the documentation describes
    (Speech: ClearSpeak: Fractions -> ClearSpeak_Fractions)."""
    rules = rules or core.RULES
    out = {}
    stack = []  # (indent, name)
    with open(os.path.join(rules, "prefs.yaml"), encoding="utf-8") as f:
        for raw in f:
            line = raw.rstrip("\n")
            if not line.strip() or line.strip().startswith("#") or line.strip() == "---":
                continue
            m = _LINE.match(line.split(" #")[0] if " #" in line else line)
            if not m:
                continue
            indent, key, val = len(m.group(1)), m.group(2), m.group(3)
            comment = line.split(" #", 1)[1] if " #" in line else ""
            while stack and stack[-1][0] >= indent:
                stack.pop()
            if val == "":
                stack.append((indent, key))
                continue
            if val.startswith('"') and val.endswith('"'):
                val = val[1:-1].encode("utf-8").decode("unicode_escape").encode("latin-1", "ignore").decode("utf-8", "ignore") if "\\u" in val else val[1:-1]
            names = [n for _, n in stack[1:]] + [key]      # drop the top-level group (Speech, Navigation, Braille, Other)
            enums = [e for e in re.findall(r"[A-Za-z][A-Za-z0-9]+", comment.split("--")[0])] if comment else []
            out["_".join(names)] = (val, enums)
    return out


API_DEFAULTS = {
    # documented in interface.rs::set_preference (set by programs, not in prefs.yaml)
    "TTS": "none", "Pitch": "0.0", "Rate": "180.0", "Volume": "100.0", "Voice": "none", "Gender": "none",
    "Bookmark": "false", "CapitalLetters_UseWord": "true", "CapitalLetters_Pitch": "0.0", "CapitalLetters_Beep": "false",
    "IntentErrorRecovery": "IgnoreIntent", "CheckRuleFiles": "Prefs",
}
