"""C16 — split numbers fold into the same number as the unsplit form.

Runtime monitor over set_mathml / get_spoken_text / get_braille of the real library.
Oracle (independent of MathCAT's regexes): a recogniser of the locale's number grammar written from the property statement
(1-3 digit lead group, 3-digit groups, optional fraction — plain, or grouped in threes/fives by a space —, optional leading/trailing
decimal mark) and a small table of which
locales write a decimal comma.  Four kinds of cases:

  fold      (must-fold domain)  c[s(n)] must canonicalize, speak and braille exactly like c[<mn>n</mn>]
  negative  token runs that are NOT a number of the grammar: no output mn may carry text outside the grammar
  fencelist comma lists inside fences whose comma-joined text WOULD be a number: the commas stay <mo>,</mo>
  observe   documented ambiguity / deliberately unparsed spellings: judged only by "nothing outside the grammar is absorbed"
            and "no character is lost"

The must-fold domain is decided by the generator from the statement alone (never by asking MathCAT):
  * every maximal digit run is one mn, every separator its own token (visible separators: mo or mtext — the Swiss apostrophe mostly
    mtext, because <mo>'</mo> is read as a prime: open finding; spaces: mtext with a Unicode space, mspace, or mo with a no-break space);
  * a number that contains a comma is neither inside fences nor next to a comma of the context;
  * the number neither starts nor ends with a comma (a decimal comma there reads as a list comma);
  * a trailing decimal mark of the number is not the last token of the whole expression;
  * when the context puts number-like tokens next to the number (list comma + other number) the number must be a segment of the
    leftmost-longest reading of the whole run by the grammar (otherwise the split is ambiguous);
  * the mark that ends the whole expression is sentence punctuation (the documented heuristic), never part of the number:
    'y = 1 , 234 .' must canonicalize like <mn>1,234</mn><mo>.</mo>, with the tokens directly in math or in an explicit top-level mrow.
Separator settings: language tags in lower, BCP-47, mixed and upper-language case, through Language and through LanguageAuto.
"""
import os
import random
import re
import time
import xml.etree.ElementTree as ET

from . import configs, core, mml
from .gen import N, math, mi, mn, mo, mrow, mtext

PROP = "C16"
NBSP, NNBSP = "\u00a0", "\u202f"
ASCII_WS = " \t\r\n"
# spaces that MathCAT's preferences name as block separators, and further Unicode spaces a generator may emit as a token of its own
PREF_SPACES = (" ", NBSP, NNBSP)
TOKEN_SPACES = (NBSP, NNBSP, "\u2009", "\u2005", "\u2002", "\u205f", "\u2003")
ALL_SPACES = set(PREF_SPACES) | set(TOKEN_SPACES) | {"\u3000", "\u2004", "\u2006", "\u2007", "\u2008", "\u200a"}
MSPACE_WIDTHS = ("0.2em", "0.167em", "thinmathspace", "mediummathspace", "0.3em")
INVISIBLE = {"\u2061", "\u2062", "\u2063", "\u2064"}

# --------------------------------------------------------------------------------------------
# locales: which languages write a decimal comma (CLDR / common typographic practice — NOT read from prefs.rs);
# Switzerland and Liechtenstein additionally group with an apostrophe
# --------------------------------------------------------------------------------------------
LANGUAGE_DECIMAL = {"en": ".", "zh": ".", "es": ",", "fi": ",", "id": ",", "sv": ",", "vi": ",", "de": ","}
REGION_DECIMAL = {"es-mx": ".", "es-gt": ".", "es-pa": ".", "es-do": ".", "es-hn": ".", "es-ni": ".", "es-sv": ".", "es-419": ".", "de-li": ".",
                  "de-ch": None}            # de-ch: practice is disputed (CLDR '.', federal style ','): only used with an explicit mark
APOSTROPHE_REGIONS = ("ch", "li")
PLAIN_TAGS = ["en", "en-gb", "zh-tw", "es", "fi", "id", "sv", "vi"]
# regions that change the separator sets: decimal point where the bare language has a comma, or the apostrophe as group separator
REGIONAL_TAGS = ["es-mx", "es-gt", "es-pa", "es-do", "es-hn", "es-ni", "es-sv", "es-419", "de-li", "de-ch", "sv-ch", "en-ch", "en-li"]


def locale_of(tag):
    """(decimal mark or None, groups with apostrophe) of a language tag; BCP 47 tags are case-insensitive"""
    t = tag.lower()
    parts = t.split("-")
    dec = REGION_DECIMAL[t] if t in REGION_DECIMAL else LANGUAGE_DECIMAL[parts[0]]
    return dec, len(parts) > 1 and parts[1] in APOSTROPHE_REGIONS


def casings(tag):
    """lower case, the usual BCP 47 spelling (region in upper case), mixed case, upper-case language"""
    lang, _, region = tag.partition("-")
    out = [tag]
    if region:
        for v in (lang + "-" + region.upper(), lang + "-" + region.capitalize(), lang.upper() + "-" + region, lang.capitalize() + "-" + region.upper()):
            if v not in out:
                out.append(v)
    else:
        out.append(lang.upper())
    return out


def make_setting(lang, decpref="Auto", custom=None, via="Language"):
    """lang: the language tag exactly as it is given to MathCAT; via: the preference that carries it (Language, or LanguageAuto under
    Language=Auto); custom = (decimal mark, block separators) set through DecimalSeparator=Custom + DecimalSeparators/BlockSeparators"""
    suffix = "" if via == "Language" else "@" + via
    if custom:
        dec, blocks = custom
        name = "%s%s/Custom(%s|%s)" % (lang, suffix, dec, blocks.replace(NBSP, "nbsp").replace(NNBSP, "nnbsp"))
    else:
        locale_dec, apostrophe = locale_of(lang)
        dec = decpref if decpref in (".", ",") else locale_dec
        blocks = ("," if dec == "." else ".") + " " + NBSP + NNBSP + ("'" if apostrophe else "")
        name = "%s%s/%s" % (lang, suffix, decpref)
    return {"name": name, "lang": lang, "via": via, "decpref": "Custom" if custom else decpref, "custom": list(custom) if custom else None,
            "dec": dec, "blocks": blocks}


def all_settings():
    out = []
    for base in PLAIN_TAGS + REGIONAL_TAGS:
        regional = base in REGIONAL_TAGS
        for tag in casings(base):
            for via in ("Language", "LanguageAuto"):
                if via == "LanguageAuto" and not regional and tag != base:
                    continue
                if locale_of(tag)[0] is not None:
                    out.append(make_setting(tag, "Auto", via=via))
                # an explicit decimal mark: for the lower-case tags, and for every spelling of the apostrophe regions (the region still counts)
                if tag == base or locale_of(tag)[1]:
                    out.append(make_setting(tag, ".", via=via))
                    out.append(make_setting(tag, ",", via=via))
    out.append(make_setting("en", custom=(".", "'" + NBSP + NNBSP + " ")))
    out.append(make_setting("sv", custom=(",", " " + NBSP + NNBSP)))          # no period groups: 1 . 234 is not a number here
    return out


def lang_key(s):
    return "%s@%s" % (s["lang"], s.get("via", "Language"))


def setting_ops(s, language_changed=True):
    """preference calls that establish the setting; the language first, and DecimalSeparator passes through Auto when the language
    changes so that the separators are always derived from the *current* pair (order dependence of the two preferences is
    C10/C12's subject, not this property's)"""
    ops = []
    if language_changed:
        ops.append(("set_preference", "DecimalSeparator", "Auto"))
        if s.get("via", "Language") == "LanguageAuto":
            ops.append(("set_preference", "Language", "Auto"))
            ops.append(("set_preference", "LanguageAuto", s["lang"]))
        else:
            ops.append(("set_preference", "Language", s["lang"]))
    ops.append(("set_preference", "DecimalSeparator", s["decpref"]))
    if s["custom"]:
        ops.append(("set_preference", "DecimalSeparators", s["custom"][0]))
        ops.append(("set_preference", "BlockSeparators", s["custom"][1]))
    return ops


def setting_class(s):
    b = s["blocks"]
    cls = "dec=%s blocks=%s" % (s["dec"], "".join(sorted(set("␣" if c in PREF_SPACES else c for c in b))))
    canonical = canonical_setting(s)
    if canonical["name"] != s["name"]:
        cls += " via=%s" % s["name"].split("(")[0]
    return cls


def canonical_setting(s):
    """a representative setting with the same separators: en + DecimalSeparator preference (no apostrophe), de-li/de-ch with it"""
    apos = "'" in s["blocks"]
    std = make_setting("de-li" if apos else "en", "," if s["dec"] == "," else "Auto")
    if set(std["blocks"]) == set(s["blocks"]) and std["dec"] == s["dec"]:
        return std
    return s


# --------------------------------------------------------------------------------------------
# the number grammar of the statement
# --------------------------------------------------------------------------------------------
_GRAMMAR_CACHE = {}


def grammar(dec, blocks):
    key = (dec, blocks)
    rx = _GRAMMAR_CACHE.get(key)
    if rx is None:
        bl = "".join(sorted(set(NBSP if c in PREF_SPACES else c for c in blocks if c != dec)))
        B = "[" + re.escape(bl) + "]" if bl else "(?!)"
        D = re.escape(dec)
        integer = r"(?:[0-9]+|[0-9]{1,3}(?:%s[0-9]{3})+)" % B
        # the fraction is a digit string, or (when the locale groups with spaces) digit groups of three (SI / ISO 80000) or of five
        # (tables of constants: 3.14159 26535 89) separated by a space; other block separators never group fraction digits
        sp = re.escape(NBSP) if any(c in PREF_SPACES for c in blocks) else "(?!)"
        fraction = r"(?:[0-9]+|(?:[0-9]{3}%s)+[0-9]{1,3}|(?:[0-9]{5}%s)+[0-9]{1,5})" % (sp, sp)
        rx = re.compile(r"^(?:%s(?:%s(?:%s)?)?|%s%s)$" % (integer, D, fraction, D, fraction))
        _GRAMMAR_CACHE[key] = rx
    return rx


def norm_spaces(text):
    return "".join(NBSP if c in ALL_SPACES else c for c in text)


def is_number(text, dec, blocks):
    return grammar(dec, blocks).match(norm_spaces(text)) is not None


def parts_text(parts):
    return "".join(t for _, t in parts)


def leftmost_longest(run, dec, blocks):
    """greedy reading of a run of parts [(kind, text)] by the grammar; returns list of (start, end) segments that are numbers
    of >= 1 part (single separators stay alone and are not listed)"""
    segs = []
    i = 0
    while i < len(run):
        best = None
        if run[i][0] in ("d", "m"):
            for j in range(len(run), i, -1):
                if is_number(parts_text(run[i:j]), dec, blocks):
                    best = j
                    break
        if best is None:
            i += 1
        else:
            segs.append((i, best))
            i = best
    return segs


# --------------------------------------------------------------------------------------------
# contexts: name -> (builder(tokens) -> math tree, facts)
#   fenced  : the number sits inside a pair of fences (directly, or in the row the fences enclose)
#   left/right : number-like parts of the context that touch the number in its row [(kind, text)]; kind p = punctuation
#   last    : the number's last token is the last token of the whole expression
# --------------------------------------------------------------------------------------------
def _el(tag, *kids, **attrs):
    return N(tag, list(kids), **attrs)


def _ctx_table():
    C = {}

    def add(name, build, fenced=False, left=(), right=(), last=False, needs=None, ends=False):
        C[name] = {"name": name, "build": build, "fenced": fenced, "left": list(left), "right": list(right), "last": last, "needs": needs,
                   "ends": ends, "order": len(C)}

    add("plain", lambda T: math(*T), last=True)
    add("plain_mrow", lambda T: math(mrow(*T)), last=True)
    add("sum_l", lambda T: math(*T, mo("+"), mi("x")))
    add("sum_r", lambda T: math(mi("x"), mo("+"), *T), last=True)
    add("rel", lambda T: math(mi("y"), mo("="), *T), last=True)
    add("sum_mid", lambda T: math(mrow(mi("x"), mo("+"), *T, mo("−"), mi("y"))))
    add("prod_r", lambda T: math(mi("x"), mo("×"), *T), last=True)
    add("prod_l", lambda T: math(*T, mo("⋅"), mi("y")))
    add("implied", lambda T: math(*T, mi("x")))
    add("neg", lambda T: math(mo("−"), *T, mo("+"), mi("x")))
    add("exponent", lambda T: math(_el("msup", mi("x"), mrow(*T))), last=True)
    add("base", lambda T: math(_el("msup", mrow(*T), mn("2"))))
    add("subscript", lambda T: math(_el("msub", mi("a"), mrow(*T)), mo("+"), mi("x")))
    add("frac_num", lambda T: math(_el("mfrac", mrow(*T), mi("x"))))
    add("frac_den", lambda T: math(_el("mfrac", mi("x"), mrow(*T))), last=True)
    add("frac_sum", lambda T: math(_el("mfrac", mrow(mi("x"), mo("+"), *T), mn("2"))))
    add("sqrt", lambda T: math(_el("msqrt", *T)), last=True)
    add("sqrt_sum", lambda T: math(_el("msqrt", *T, mo("+"), mi("x"))))
    add("mstyle", lambda T: math(_el("mstyle", *T, displaystyle="true"), mo("+"), mi("x")))
    add("cell", lambda T: math(_el("mtable", _el("mtr", _el("mtd", *T), _el("mtd", mi("x"))))))
    add("under", lambda T: math(_el("munder", mi("lim"), mrow(mi("x"), mo("→"), *T)), mi("y")))
    # fences
    add("func", lambda T: math(mi("f"), mo("\u2061"), mrow(mo("("), *T, mo(")"))), fenced=True)
    add("func_flat", lambda T: math(mi("f"), mo("("), *T, mo(")")), fenced=True)
    add("func_inner", lambda T: math(mi("f"), mo("("), mrow(*T), mo(")")), fenced=True)
    add("brackets", lambda T: math(mo("["), *T, mo("]")), fenced=True)
    add("paren_sum", lambda T: math(mo("("), *T, mo("+"), mi("x"), mo(")")), fenced=True)
    add("paren_sum_r", lambda T: math(mn("2"), mo("("), mi("x"), mo("−"), *T, mo(")")), fenced=True)
    # argument lists
    add("arglist_after_mi", lambda T: math(mi("f"), mo("("), mi("x"), mo(","), *T, mo(")")), fenced=True, left=[("p", ",")])
    add("arglist_before_mi", lambda T: math(mi("f"), mo("("), *T, mo(","), mi("x"), mo(")")), fenced=True, right=[("p", ",")])
    add("arglist_after_num", lambda T: math(mi("f"), mo("("), mn("2"), mo(","), *T, mo(")")), fenced=True, left=[("d", "2"), ("p", ",")])
    add("arglist_before_num", lambda T: math(mi("f"), mo("("), *T, mo(","), mn("7"), mo(")")), fenced=True, right=[("p", ","), ("d", "7")])
    add("list_semicolon", lambda T: math(mo("("), mi("x"), mo(";"), *T, mo(")")), fenced=True)
    add("toplist_after_mi", lambda T: math(mi("x"), mo(","), *T), left=[("p", ",")], last=True)
    # end of sentence
    # ends: the context's right neighbour is the last token of the whole expression (sentence punctuation)
    add("sentence_period", lambda T: math(mi("y"), mo("="), *T, mo(".")), right=[("p", ".")], ends=True)
    add("sentence_period_mrow", lambda T: math(mrow(mi("y"), mo("="), *T, mo("."))), right=[("p", ".")], ends=True)
    add("sentence_comma", lambda T: math(mi("y"), mo("="), *T, mo(",")), right=[("p", ",")], ends=True)
    add("sentence_semicolon", lambda T: math(mi("y"), mo("="), *T, mo(";")))
    add("sentence_question", lambda T: math(mi("y"), mo("="), *T, mo("?")))
    add("sentence_comma_mrow", lambda T: math(mrow(mi("y"), mo("="), *T, mo(","))), right=[("p", ",")], ends=True)
    add("sentence_period_sum_mrow", lambda T: math(mrow(mi("a"), mo("+"), mi("b"), mo("="), *T, mo("."))), right=[("p", ".")], ends=True)
    # companions: another number-like run earlier or later in the SAME row, separated from the number by an operator (so it does not touch
    # it): whether the number folds must not depend on a mark that leads the row or on how a sibling number is spelled
    add("after_lead_comma", lambda T: math(mo(","), mn("75"), mo("+"), *T), last=True)
    add("after_lead_period", lambda T: math(mo("."), mn("75"), mo("+"), *T), last=True)
    add("after_lead_comma_mrow", lambda T: math(_el("mfrac", mrow(mo(","), mn("75"), mo("+"), *T), mi("x"))))
    add("after_split_comma", lambda T: math(mn("3"), mo(","), mn("25"), mo("+"), *T, mo("−"), mi("x")))
    add("after_split_period", lambda T: math(mn("3"), mo("."), mn("25"), mo("+"), *T, mo("−"), mi("x")))
    add("before_split_period", lambda T: math(*T, mo("+"), mn("3"), mo("."), mn("25"), mo("−"), mi("x")))
    add("before_split_comma", lambda T: math(*T, mo("+"), mn("3"), mo(","), mn("25"), mo("−"), mi("x")))
    return C


CONTEXTS = _ctx_table()
CTX_NAMES = list(CONTEXTS)


def context_run(ctx, parts, setting):
    """the run of number-like parts around the number in its row, with the context's punctuation classified by the setting"""
    def cls(p):
        k, t = p
        if k != "p":
            return (k, t)
        if t == setting["dec"]:
            return ("m", t)
        if t in setting["blocks"]:
            return ("s", t)
        return ("x", t)
    left = [cls(p) for p in ctx["left"]]
    right = [cls(p) for p in ctx["right"]]
    return left, right


def in_must_fold_domain(case):
    """decided from the statement alone; returns (bool, reason when not)"""
    s, parts, ctx = case["setting"], case["parts"], CONTEXTS[case["ctx"]]
    text = parts_text(parts)
    if "," in text:
        if ctx["fenced"]:
            return False, "comma-number-inside-fences"
        if any(t == "," for _, t in ctx["left"] + ctx["right"]):
            return False, "comma-number-next-to-comma"
    if text.startswith(",") or text.endswith(","):
        return False, "leading-or-trailing-comma"          # a decimal comma at either end reads as a list comma
    if parts[-1][0] == "m" and ctx["last"]:
        return False, "trailing-mark-at-very-end"
    left, right = context_run(ctx, parts, s)
    if ctx["ends"]:
        # the mark that ends the whole expression is sentence punctuation by the documented heuristic (no earlier decimal number in
        # these contexts), whether or not it could also be read as a trailing decimal mark: 'y = 1 , 234 .' is 1,234 and a period
        right = []
    if left or right:
        run = left + [tuple(p) for p in parts] + right
        segs = leftmost_longest(run, s["dec"], s["blocks"])
        if (len(left), len(left) + len(parts)) not in segs:
            return False, "ambiguous-with-context"
    return True, ""


# --------------------------------------------------------------------------------------------
# numbers, non-numbers, tokenisations
# --------------------------------------------------------------------------------------------
def digits(rng, n, first_nonzero=False):
    s = "".join(rng.choice("0123456789") for _ in range(n))
    if first_nonzero and s[0] == "0":
        s = rng.choice("123456789") + s[1:]
    return s


def gen_number(rng, s, min_parts=2):
    """a number of the locale's grammar as parts [(kind, text)], kind d = digit run, s = block separator, m = decimal mark"""
    dec, blocks = s["dec"], s["blocks"]
    for _ in range(100):
        kind = rng.choice(["grouped", "grouped", "grouped", "plain", "plain", "leading"])
        parts = []
        if kind == "grouped":
            sep = rng.choice(blocks)
            parts.append(("d", digits(rng, rng.randint(1, 3), True)))
            for _ in range(rng.choice([1, 1, 1, 2, 2, 3])):
                parts += [("s", sep), ("d", digits(rng, 3))]
        elif kind == "plain":
            parts.append(("d", digits(rng, rng.choice([1, 1, 2, 2, 3, 4, 5, 7]), True) if rng.random() < 0.85 else "0"))
        f = rng.random()
        spaces = [c for c in blocks if c in PREF_SPACES]
        int_sep = parts[1][1] if len(parts) > 1 else None
        if spaces and (int_sep is None or int_sep in PREF_SPACES) and rng.random() < 0.22:
            # fraction digits in groups of three or five, separated by the space that also groups the integer part (if any)
            g = rng.choice([3, 3, 5])
            sep = int_sep or rng.choice(spaces)
            parts += [("m", dec), ("d", digits(rng, g))]
            for _ in range(rng.choice([0, 1, 1, 2])):
                parts += [("s", sep), ("d", digits(rng, g))]
            parts += [("s", sep), ("d", digits(rng, rng.randint(1, g)))]
        elif kind == "leading":
            parts += [("m", dec), ("d", digits(rng, rng.randint(1, 4)))]
        elif f < 0.55:
            parts += [("m", dec), ("d", digits(rng, rng.choice([1, 1, 2, 2, 3, 3, 4, 5, 6])))]
        elif f < 0.67:
            parts.append(("m", dec))
        if len(parts) >= min_parts:
            return parts
    raise RuntimeError("number generator")


def fraction_grouping(parts):
    """0 = fraction digits not grouped (or no fraction); otherwise the size of the groups after the decimal mark"""
    kinds = [k for k, _ in parts]
    if "m" not in kinds:
        return 0
    after = parts[kinds.index("m") + 1:]
    if not any(k == "s" for k, _ in after):
        return 0
    return len(after[0][1])


def tokens_for(rng, parts):
    """the must-fold tokenisation: [(tag, text or width)]"""
    toks = []
    for k, t in parts:
        if k == "d":
            toks.append(["mn", t])
        elif k == "s" and t in ALL_SPACES:
            c = rng.random()
            if c < 0.45:
                toks.append(["mtext", rng.choice(TOKEN_SPACES)])
            elif c < 0.8:
                toks.append(["mspace", rng.choice(MSPACE_WIDTHS)])
            else:
                toks.append(["mo", NBSP])
        elif t == "'":
            # <mo>'</mo> is taken for a prime before numbers are folded (open finding C16-apostrophe-prime): the apostrophe mostly comes as mtext
            toks.append(["mtext" if rng.random() < 0.75 else "mo", t])
        else:
            toks.append(["mo" if rng.random() < 0.85 else "mtext", t])
    return toks


def build_tokens(toks):
    out = []
    for tag, t in toks:
        if tag == "mspace":
            out.append(N("mspace", [], width=t))
        else:
            out.append(N(tag, text=t))
    return out


def split_xml(case):
    return CONTEXTS[case["ctx"]]["build"](build_tokens(case["tok"])).xml()


def unsplit_text(case):
    return "".join((case.get("refspace", NBSP) if (k == "s" and t in ALL_SPACES) else t) for k, t in case["parts"])


def unsplit_xml(case):
    return CONTEXTS[case["ctx"]]["build"]([mn(unsplit_text(case))]).xml()


def gen_non_number(rng, s):
    """token runs that are NOT a number of the grammar; returns (sub-kind, parts, tokens)"""
    dec, blocks = s["dec"], s["blocks"]
    vis = [c for c in blocks if c not in PREF_SPACES and c != "'"] or [dec]
    for _ in range(200):
        kind = rng.choice(["two-marks", "two-marks", "short-group", "short-group", "short-last-group", "long-group", "one-digit-groups",
                           "long-lead", "letters", "letters", "group-after-mark"])
        sep = rng.choice(vis)
        if kind == "two-marks":
            parts = [("d", digits(rng, rng.randint(1, 3), True)), ("m", dec), ("d", digits(rng, rng.randint(1, 3))), ("m", dec), ("d", digits(rng, rng.randint(1, 3)))]
            if rng.random() < 0.3:
                parts = [("d", digits(rng, rng.randint(1, 3), True)), ("s", sep), ("d", digits(rng, 3))] + parts[1:]
        elif kind == "short-group":
            parts = [("d", digits(rng, rng.randint(1, 3), True)), ("s", sep), ("d", digits(rng, rng.randint(1, 2))), ("s", sep), ("d", digits(rng, 3))]
        elif kind == "short-last-group":
            parts = [("d", digits(rng, rng.randint(1, 3), True)), ("s", sep), ("d", digits(rng, 3)), ("s", sep), ("d", digits(rng, rng.randint(1, 2)))]
            if rng.random() < 0.4:
                parts += [("m", dec), ("d", digits(rng, 2))]
        elif kind == "long-group":
            parts = [("d", digits(rng, rng.randint(1, 3), True)), ("s", sep), ("d", digits(rng, rng.randint(4, 5)))]
            if rng.random() < 0.5:
                parts += [("s", sep), ("d", digits(rng, 3))]
        elif kind == "one-digit-groups":
            parts = [("d", digits(rng, rng.randint(1, 2), True))]
            for _ in range(rng.randint(2, 4)):
                parts += [("s", sep), ("d", digits(rng, 1))]
            if rng.random() < 0.6:
                parts += [("m", dec), ("d", digits(rng, rng.randint(1, 2)))]
        elif kind == "long-lead":
            parts = [("d", digits(rng, rng.randint(4, 6), True)), ("s", sep), ("d", digits(rng, 3))]
        elif kind == "group-after-mark":
            parts = [("d", digits(rng, rng.randint(1, 3), True)), ("m", dec), ("d", digits(rng, rng.randint(1, 3))), ("s", sep), ("d", digits(rng, 3))]
        else:
            letter = rng.choice(["a", "x", "k", "ab", "n"])
            parts = [("d", digits(rng, rng.randint(1, 3), True)), (rng.choice("sm"), None), ("l", letter)]
            parts[1] = (parts[1][0], sep if parts[1][0] == "s" else dec)
            if rng.random() < 0.5:
                parts += [("s", sep), ("d", digits(rng, 3))]
        text = parts_text(parts)
        if is_number(text, dec, blocks):
            continue
        toks = []
        for k, t in parts:
            if k == "d":
                toks.append(["mn", t])
            elif k == "l":
                toks.append([rng.choice(["mi", "mi", "mtext"]) if len(t) == 1 else rng.choice(["mi", "mtext"]), t])
            else:
                toks.append(["mo", t])
        return kind, [list(p) for p in parts], toks
    raise RuntimeError("non-number generator")


FENCES = [("(", ")"), ("[", "]"), ("{", "}")]


def gen_fence_list(rng, s):
    """a comma list inside fences whose comma-joined text would be a number of the grammar (so only the fences say 'list')"""
    dec, blocks = s["dec"], s["blocks"]
    if dec == ",":
        items = [digits(rng, rng.randint(1, 3), True), digits(rng, rng.randint(1, 3))]
    elif "," in blocks:
        items = [digits(rng, rng.randint(1, 3), True)] + [digits(rng, 3) for _ in range(rng.choice([1, 1, 2, 3]))]
    else:
        return None
    o, c = rng.choice(FENCES)
    shape = rng.choice(["flat", "inner", "func", "func_inner", "mfenced", "nested_sum"])
    toks = []
    for i, it in enumerate(items):
        if i:
            toks.append(mo(","))
        toks.append(mn(it))
    if shape == "flat":
        tree = math(mo(o), *toks, mo(c))
    elif shape == "inner":
        tree = math(mo(o), mrow(*toks), mo(c))
    elif shape == "func":
        tree = math(mi("f"), mo("\u2061"), mrow(mo("("), *toks, mo(")")))
    elif shape == "func_inner":
        tree = math(mi("f"), mo("("), mrow(*toks), mo(")"))
    elif shape == "mfenced":
        tree = math(N("mfenced", [mn(it) for it in items]))
    else:
        tree = math(mi("x"), mo("+"), mrow(mo(o), mrow(*toks), mo(c)))
    return {"shape": shape, "items": items, "xml": tree.xml(), "commas": len(items) - 1}


def gen_observe(rng, s):
    """documented-ambiguity spellings of a number of the grammar; returns (sub-kind, parts, tokens, allowed extra text)"""
    dec, blocks = s["dec"], s["blocks"]
    kind = rng.choice(["glued-after", "glued-before", "partial", "digit-per-mn", "sep-as-mtext", "hex-blocks", "mixed-separators",
                       "grouped-fraction", "five-digit-fraction"])
    parts = gen_number(rng, s, min_parts=3)
    toks = []
    if kind in ("glued-after", "glued-before", "partial"):
        base = tokens_for(rng, parts)
        i = rng.randrange(1, len(base) - 1) if len(base) > 2 else 1
        if base[i][0] == "mn":
            i = i - 1 if i > 1 else i + 1
        i = min(max(i, 1), len(base) - 1)
        sep_text = parts[i][1] if parts[i][0] != "d" else ""
        if not sep_text or base[i][0] == "mspace":
            kind = "sep-as-mtext"
        elif kind == "glued-after":
            toks = base[:i - 1] + [["mn", base[i - 1][1] + sep_text]] + base[i + 1:]
        elif kind == "glued-before" and i + 1 < len(base):
            toks = base[:i] + [["mn", sep_text + base[i + 1][1]]] + base[i + 2:]
        elif i + 1 < len(base):
            toks = base[:i - 1] + [["mn", base[i - 1][1] + sep_text + base[i + 1][1]]] + base[i + 2:]
        else:
            kind = "sep-as-mtext"
    if kind == "digit-per-mn":
        for k, t in parts:
            if k == "d":
                toks += [["mn", ch] for ch in t]
            else:
                toks.append(["mo", t] if t not in ALL_SPACES else ["mtext", NBSP])
    elif kind == "sep-as-mtext":
        for k, t in parts:
            toks.append(["mn", t] if k == "d" else ["mtext", t if t not in ALL_SPACES else NBSP])
    elif kind == "hex-blocks":
        n = rng.randint(2, 4)
        parts = []
        for i in range(n):
            if i:
                parts.append(("s", NBSP))
            parts.append(("d", "".join(rng.choice("0123456789ABCDEF" if rng.random() < 0.5 else "0123456789") for _ in range(4))))
        toks = [["mn", t] if k == "d" else [rng.choice(["mtext", "mo"]), NBSP] for k, t in parts]
    elif kind == "mixed-separators":
        seps = list(dict.fromkeys(blocks))
        parts = [("d", digits(rng, rng.randint(1, 3), True))]
        for i in range(rng.randint(2, 3)):
            parts += [("s", seps[(i + rng.randrange(2)) % len(seps)]), ("d", digits(rng, 3))]
        toks = tokens_for(rng, parts)
    elif kind in ("grouped-fraction", "five-digit-fraction"):
        # space-grouped fractions belong to the must-fold domain; here the integer part is grouped by a *visible* separator
        # (two separator classes in one number) or the last group is over-long
        g = 3 if kind == "grouped-fraction" else 5
        vis = [c for c in blocks if c not in PREF_SPACES]
        parts = [("d", digits(rng, rng.randint(1, 3), True))]
        if vis:
            parts += [("s", rng.choice(vis)), ("d", digits(rng, 3))]
        parts += [("m", dec), ("d", digits(rng, g))]
        for _ in range(rng.randint(1, 2)):
            parts += [("s", NBSP), ("d", digits(rng, g))]
        if not vis:
            parts[-1] = ("d", digits(rng, g + 2))
        toks = tokens_for(rng, parts)
    return kind, [list(p) for p in parts], toks


# --------------------------------------------------------------------------------------------
# reading MathCAT's answers (Python's own XML parser; shares no code with MathCAT)
# --------------------------------------------------------------------------------------------
def canon(xml):
    """canonical MathML as a nested tuple: ids and data-* attributes dropped, indentation dropped, spaces inside mn compared
    modulo the kind of space"""
    def conv(e):
        tag = mml.local(e.tag)
        attrs = tuple(sorted((mml.local(k), v) for k, v in e.attrib.items() if mml.local(k) != "id" and not mml.local(k).startswith("data-")))
        kids = tuple(conv(k) for k in e)
        text = None
        if not kids:
            text = (e.text or "").strip(ASCII_WS)
            if tag == "mn":
                text = norm_spaces(text)
        return (tag, attrs, text, kids)
    return conv(ET.fromstring(xml))


def show(c):
    tag, attrs, text, kids = c
    a = "".join(" %s='%s'" % kv for kv in attrs)
    if not kids:
        return "<%s%s>%s</%s>" % (tag, a, text, tag)
    return "<%s%s>%s</%s>" % (tag, a, "".join(show(k) for k in kids), tag)


def leaves(c, out=None):
    out = [] if out is None else out
    tag, attrs, text, kids = c
    if not kids:
        out.append((tag, text or ""))
    for k in kids:
        leaves(k, out)
    return out


def visible(chars):
    same = {"'": "′", "−": "-"}          # spellings MathCAT normalises (prime, minus)
    return "".join(same.get(ch, ch) for ch in chars if ch not in ALL_SPACES and ch not in INVISIBLE and ch not in ASCII_WS)


def input_leaves(xml):
    root = ET.fromstring(xml)
    out = []

    def walk(e):
        tag = mml.local(e.tag)
        kids = list(e)
        if tag == "mfenced":
            out.append(("mo", e.get("open", "(")))
            for i, k in enumerate(kids):
                if i:
                    out.append(("mo", ","))
                walk(k)
            out.append(("mo", e.get("close", ")")))
        elif kids:
            for k in kids:
                walk(k)
        elif tag in ("mi", "mn", "mo", "mtext"):
            out.append((tag, (e.text or "").strip(ASCII_WS)))
    walk(root)
    return out


def err_text(r):
    if r is None:
        return "driver died"
    if r["r"] == "panic":
        return "panic in %s: %s" % (r["p"].get("fn", "?").split(" <- ")[0], r["p"].get("msg", ""))
    return "%s: %s" % (r["r"], (r.get("e") or "")[:200])


# --------------------------------------------------------------------------------------------
# judging
# --------------------------------------------------------------------------------------------
MATHML_KINDS = ("not-folded", "folded-differently", "folded-too-much", "split-fails", "absorbed-non-number", "character-lost", "list-comma-absorbed")
SKIPPED = {"r": "skipped"}


def case_ops(case, light=False):
    """light: canonical MathML only (enough to re-judge the MathML-level kinds while minimising)"""
    half = case["half"]
    if half == "fold":
        if light:
            return [("set_mathml", split_xml(case)), ("set_mathml", unsplit_xml(case))]
        return [("set_mathml", split_xml(case)), ("get_spoken_text",), ("get_braille", ""),
                ("set_mathml", unsplit_xml(case)), ("get_spoken_text",), ("get_braille", "")]
    xml = case["xml"] if half == "fencelist" else split_xml(case)
    return [("set_mathml", xml)] if light else [("set_mathml", xml), ("get_spoken_text",)]


def pad_light(case, res):
    if case["half"] == "fold":
        return [res[0], SKIPPED, SKIPPED, res[1], SKIPPED, SKIPPED]
    return [res[0], SKIPPED]


def judge(case, res, st=None):
    """res: results of case_ops(case).  Returns list of (kind, detail, facts); counts observations into st (core.Stats) when given."""
    return [(v[0], v[1], v[2] if len(v) > 2 else {}) for v in _judge(case, res, st)]


def _judge(case, res, st=None):
    def count(k, n=1):
        if st is not None:
            st.count(k, n)
    half, s = case["half"], case["setting"]
    out = []
    if half == "fold":
        a, sa, ba, b, sb, bb = res
        if b["r"] != "ok":
            count("unsplit_set_mathml_" + b["r"])
            return out
        if a["r"] != "ok":
            return [("split-fails", "split form: set_mathml -> %s while the unsplit form is accepted" % err_text(a))]
        ca, cb = canon(a["v"]), canon(b["v"])
        n = norm_spaces(unsplit_text(case))
        ref_single = any(t == "mn" and x == n for t, x in leaves(cb))
        if not ref_single:
            count("reference_not_one_token")       # e.g. MathCAT splits the unsplit form itself: nothing to compare with
            return out
        if ca != cb:
            folded = any(t == "mn" and x == n for t, x in leaves(ca))
            ref_mn = set(x for t, x in leaves(cb) if t == "mn")
            too_much = any(t == "mn" and x not in ref_mn and n in x and x != n for t, x in leaves(ca))
            kind = "folded-differently" if folded else "folded-too-much" if too_much else "not-folded"
            return [(kind, "split    %s\n -> %s\nunsplit  %s\n -> %s\nspeech: %r vs %r" % (
                split_xml(case), show(ca), unsplit_xml(case), show(cb), sa.get("v", err_text(sa)), sb.get("v", err_text(sb))))]
        count("folded_identically")
        same_space = case.get("refspace", NBSP) == NBSP or not any(k == "s" and t in ALL_SPACES for k, t in case["parts"])
        for what, x, y in (("speech", sa, sb), ("braille", ba, bb)):
            if y is SKIPPED:
                continue
            if y["r"] != "ok":
                count("unsplit_%s_%s" % (what, y["r"]))
                continue
            if x["r"] != "ok" or x["v"] != y["v"]:
                if same_space:
                    out.append((what + "-differs", "canonical MathML equal (%s) but %s differs: %r vs %r" % (show(ca), what, x.get("v", err_text(x)), y["v"])))
                else:
                    count("space_kind_changes_" + what)
            else:
                count(what + "_equal")
        return out
    # ---- negative / fencelist / observe: one expression
    a, sa = res
    xml = case["xml"] if half == "fencelist" else split_xml(case)
    if a["r"] != "ok":
        count("%s_set_mathml_%s" % (half, a["r"]))
        return out
    ca = canon(a["v"])
    lv = leaves(ca)
    inp = input_leaves(xml)
    if half == "fencelist":
        commas = sum(1 for t, x in lv if t == "mo" and x == ",")
        absorbed = [x for t, x in lv if t == "mn" and "," in x]
        if commas != case["commas"] or absorbed:
            out.append(("list-comma-absorbed", "%s\n -> %s: %d of %d commas are still <mo>,</mo>; mn with comma: %s" % (
                xml, show(ca), commas, case["commas"], absorbed)))
        else:
            count("fence_list_kept")
        return out
    given = set(norm_spaces(x) for t, x in inp if t == "mn")
    allowed = set(given)
    if half == "observe":
        allowed.add(norm_spaces(parts_text(case["parts"])))
    bad = [x for t, x in lv if t == "mn" and x not in allowed and not is_number(x, s["dec"], s["blocks"])]
    if bad:
        out.append(("absorbed-non-number", "%s\n -> %s: output mn %s is not a number of the grammar (decimal mark %r, block separators %r)" % (
            xml, show(ca), bad, s["dec"], s["blocks"]), {"absorbed": bad}))
    vin, vout = visible("".join(x for _, x in inp)), visible("".join(x for _, x in lv))
    if vin != vout:
        out.append(("character-lost", "%s\n -> %s: visible characters %r became %r" % (xml, show(ca), vin, vout)))
    if not out:
        merged = [x for t, x in lv if t == "mn" and x not in given]
        count(half + ("_merged_something" if merged else "_left_alone"))
    return out


# --------------------------------------------------------------------------------------------
# signatures
# --------------------------------------------------------------------------------------------
def shape_of(parts):
    out = []
    for k, t in parts:
        if k == "d":
            out.append("d" * min(len(t), 6))
        elif k == "l":
            out.append("L")
        else:
            out.append("␣" if t in ALL_SPACES else t)
    return "".join(out)


def tok_kinds(case):
    kinds = []
    for (k, t), (tag, x) in zip(case["parts"], case["tok"]) if len(case["parts"]) == len(case["tok"]) else []:
        if k == "d" and tag == "mn":
            continue
        if k in ("s", "m") and tag == "mo" and t not in ALL_SPACES:
            continue
        kinds.append(tag if t not in ALL_SPACES else "space:" + tag)
    if len(case["parts"]) != len(case["tok"]):
        kinds = ["/".join(tag for tag, _ in case["tok"])]
    return "+".join(sorted(set(kinds))) or "mn/mo"


def make_sig(kind, case):
    if case["half"] == "fencelist":
        return "%s | fencelist:%s | items=%s | %s" % (kind, case["shape"], ",".join("d" * len(i) for i in case["items"]),
                                                   setting_class(case["setting"]).split(" via")[0])
    sub = case.get("sub")
    return "%s | %s%s | ctx=%s | n=%s | tok=%s | %s" % (kind, case["half"], ":" + sub if sub else "", case["ctx"], shape_of(case["parts"]),
                                                       tok_kinds(case), setting_class(case["setting"]))


def ctx_family(name):
    c = CONTEXTS[name]
    if c["left"] or c["right"]:
        return name
    if c["fenced"]:
        return "fenced"
    return "open" if c["order"] <= CONTEXTS["neg"]["order"] else "nested"


def pre_key(kind, case):
    """cheap key for pre-clustering (one representative per key is minimised, the others are only counted)"""
    if case["half"] == "fencelist":
        return (kind, "fencelist", case["shape"], case["setting"]["dec"])
    parts = case["parts"]
    aligned = len(parts) == len(case["tok"])
    if aligned and case["half"] == "fold" and any(t == "'" and tag == "mo" for (k, t), (tag, _) in zip(parts, case["tok"])):
        # an apostrophe that comes as <mo> is read as a prime before any folding is tried: whatever else such a case contains cannot be
        # observed, so all of them form one pre-cluster per kind and decimal mark
        return (kind, "fold", "apostrophe-as-mo", case["setting"]["dec"])
    seps = "".join(sorted(set("␣" if t in ALL_SPACES else t for k, t in parts if k in ("s", "m"))))
    return (kind, case["half"], case.get("sub"), ctx_family(case["ctx"]), seps, parts[-1][0] == "m", parts[0][0] == "m", case["setting"]["dec"],
            fraction_grouping(parts),
            # any visible separator that comes as mtext
            any(k in ("s", "m") and t not in ALL_SPACES and tag == "mtext" for (k, t), (tag, _) in zip(parts, case["tok"])) if aligned else None)


def case_size(case):
    if case["half"] == "fencelist":
        return len(case["xml"])
    return len(case["parts"]) * 100 + sum(len(t) for _, t in case["parts"]) + CONTEXTS[case["ctx"]]["order"]


# --------------------------------------------------------------------------------------------
# running cases
# --------------------------------------------------------------------------------------------
BASE_PREFS = {"TTS": "None", "SpeechStyle": "ClearSpeak", "Verbosity": "Medium"}


def fresh_judge(d, case, history=None, light=False):
    """evaluate one case in a brand-new MathCAT state (new thread of the driver); returns list of (kind, detail), None if inconclusive"""
    ops = core.init_ops(BASE_PREFS)
    probe = "<math><mn>1</mn><mo>%s</mo><mn>5</mn></math>"
    for h in history or []:
        ops += setting_ops(h) + [("set_mathml", probe % mml.esc(h["dec"]))]
    ops += setting_ops(case["setting"]) + [("set_preference", "BrailleCode", case.get("braille", "Nemeth"))]
    n0 = len(ops)
    ops += case_ops(case, light)
    try:
        res = d.fresh(ops)
    except (core.DriverDied, core.DriverTimeout):
        return None
    if any(r["r"] != "ok" for op, r in zip(ops[:n0], res[:n0]) if op[0] != "set_mathml"):
        return None           # a refused preference makes the case meaningless
    try:
        return judge(case, pad_light(case, res[n0:]) if light else res[n0:])
    except ET.ParseError:
        return None


def _variant(case, **kw):
    c = dict(case)
    c.update(kw)
    return c


def simpler_contexts(case):
    """only context-free ('open') contexts are tried: a violation that needs its special context keeps it (no sliding from one
    context-specific cause into another)"""
    order = CONTEXTS[case["ctx"]]["order"]
    return [_variant(case, ctx=name) for name in CTX_NAMES if CONTEXTS[name]["order"] < order and ctx_family(name) == "open"]


def simpler_numbers(case):
    out = []
    parts, tok = case["parts"], case["tok"]
    if len(parts) != len(tok):
        return out
    # drop a separator+group pair / the leading group / a trailing mark
    for i in range(len(parts) - 1, 0, -1):
        if parts[i][0] in ("d", "l") and parts[i - 1][0] in ("s", "m") and len(parts) > 3:
            out.append(_variant(case, parts=parts[:i - 1] + parts[i + 1:], tok=tok[:i - 1] + tok[i + 1:]))
    if parts[-1][0] == "m" and len(parts) > 2:
        out.append(_variant(case, parts=parts[:-1], tok=tok[:-1]))
    if parts[0][0] == "d" and parts[1][0] in ("s", "m") and len(parts) > 3:
        out.append(_variant(case, parts=parts[2:], tok=tok[2:]))
    # shorter digit runs
    for i, (k, t) in enumerate(parts):
        if k == "d" and len(t) > 1:
            for new in (t[:1], t[:3], t[:len(t) - 1]):
                if len(new) < len(t):
                    p2, t2 = [list(p) for p in parts], [list(x) for x in tok]
                    p2[i][1] = new
                    t2[i][1] = new
                    out.append(_variant(case, parts=p2, tok=t2))
    return out


def normal_forms(case):
    """same size, canonical spelling: digits, token kinds of spaces, setting, reference space, braille code"""
    out = []
    parts, tok = case["parts"], case["tok"]
    aligned = len(parts) == len(tok)
    if aligned:
        p2, t2 = [list(p) for p in parts], [list(x) for x in tok]
        for i, (k, t) in enumerate(parts):
            if k == "d":
                new = "1234567"[:len(t)] if i == 0 else ("234567"[:len(t)] if parts[i - 1][0] == "s" else "5678"[:len(t)] if len(t) <= 4 else t)
                p2[i][1] = new
                t2[i][1] = new
        if p2 != [list(p) for p in parts]:
            out.append(_variant(case, parts=p2, tok=t2))
        for i, (tag, x) in enumerate(tok):
            if parts[i][0] == "s" and parts[i][1] in ALL_SPACES and [tag, x] != ["mtext", NBSP]:
                t2 = [list(y) for y in tok]
                t2[i] = ["mtext", NBSP]
                out.append(_variant(case, tok=t2))
            elif parts[i][0] in ("s", "m") and parts[i][1] not in ALL_SPACES and tag == "mtext" and x != "'":
                t2 = [list(y) for y in tok]
                t2[i] = ["mo", x]               # the usual element for a visible separator
                out.append(_variant(case, tok=t2))
    s = case["setting"]
    cs = canonical_setting(s)
    if cs["name"] != s["name"]:
        out.append(_variant(case, setting=cs))
    if "'" in s["blocks"] and not any("'" in t for _, t in parts):
        out.append(_variant(case, setting=canonical_setting(make_setting("en", s["dec"]))))      # the apostrophe plays no part
    us = make_setting("en", "Auto")
    if s["name"] != us["name"] and aligned:
        tr = {s["dec"]: ".", ("." if s["dec"] == "," else ","): ","}
        if all(k in ("d", "l") or t in tr or t in ALL_SPACES for k, t in parts) and not CONTEXTS[case["ctx"]]["left"] and not CONTEXTS[case["ctx"]]["right"]:
            p2 = [[k, tr.get(t, t) if k in ("s", "m") else t] for k, t in parts]
            t2 = [[tag, tr.get(x, x) if parts[i][0] in ("s", "m") else x] for i, (tag, x) in enumerate(tok)]
            out.append(_variant(case, setting=us, parts=p2, tok=t2))
    if case.get("refspace", NBSP) != NBSP:
        out.append(_variant(case, refspace=NBSP))
    if case.get("braille", "Nemeth") != "Nemeth":
        out.append(_variant(case, braille="Nemeth"))
    return out


def still_valid(case):
    """a shrunk case must stay inside the half it came from"""
    s = case["setting"]
    text = parts_text(case["parts"])
    if case["half"] == "fold":
        return len(case["parts"]) >= 2 and is_number(text, s["dec"], s["blocks"]) and in_must_fold_domain(case)[0]
    if case["half"] == "negative":
        return not is_number(text, s["dec"], s["blocks"]) and len(case["parts"]) >= 2
    return len(case["parts"]) >= 2


def minimise(d, case, kind, budget=320):
    """staged greedy minimisation in a fixed order (deterministic => one cause shrinks to one witness at every seed)"""
    if case["half"] == "fencelist":
        return case
    light = kind in MATHML_KINDS
    calls = [0]

    def fails(cand):
        if calls[0] >= budget or cand == case or not still_valid(cand):
            return False
        calls[0] += 1
        v = fresh_judge(d, cand, light=light)
        return bool(v) and any(x[0] == kind for x in v)

    changed = True
    while changed and calls[0] < budget:
        changed = False
        for stage in (simpler_contexts, normal_forms, simpler_numbers, normal_forms):
            again = True
            while again and calls[0] < budget:
                again = False
                for cand in stage(case):
                    if fails(cand):
                        case, again, changed = cand, True, True
                        break
    return case


def shrink_shard(spec):
    """second phase: one representative per pre-cluster is re-judged in a fresh state, minimised, and given its signature"""
    st = core.Stats()
    with core.Driver("native") as d:
        for rep in spec["reps"]:
            kind, case, detail, history, n = rep["kind"], rep["case"], rep["detail"], rep.get("history"), rep["count"]
            v = fresh_judge(d, case)
            if v is None:
                # the re-judgement itself was inconclusive (driver died / preference refused): the observation stands, unminimised
                st.inconclusive += 1
                vio = core.violation(kind, make_sig(kind, case), dict({"case": case}, **rep.get("facts", {})), detail[:1500])
                vio["count"] = n
                st.violations.append(vio)
                continue
            if not any(x[0] == kind for x in v):
                # not reproducible without the session's history: keep the history in the witness (coarse signature, no minimisation)
                v2 = fresh_judge(d, case, history)
                coarse = "%s | %s | %s | %s" % (kind, case["half"], "fencelist" if case["half"] == "fencelist" else ctx_family(case["ctx"]),
                                                setting_class(case["setting"]).split(" via")[0])
                if v2 and any(x[0] == kind for x in v2):
                    w = dict({"case": case, "history": history}, **next((x[2] for x in v2 if x[0] == kind), {}))
                    vio = core.violation(kind, "history-dependent: " + coarse, w,
                                         "only after the preference history %s\n%s" % ([h["name"] for h in history or []], detail))
                else:
                    # observed in the recorded session but not reproducible afterwards: still a refutation, reported with what is known
                    st.count("violations_not_reproduced_in_fresh_session", n)
                    vio = core.violation(kind, "not-reproduced: " + coarse, {"case": case, "history": history},
                                         "observed once in a long session (settings before: %s), not reproducible in a fresh session\n%s" % (
                                             [h["name"] for h in history or []], detail))
                vio["count"] = n
                st.violations.append(vio)
                continue
            small = minimise(d, case, kind)
            v3 = fresh_judge(d, small) or []
            hit = next((x for x in v3 if x[0] == kind), (kind, detail, rep.get("facts", {})))
            vio = core.violation(kind, make_sig(kind, small), dict({"case": small}, **hit[2]), hit[1][:1500])
            vio["count"] = n
            st.violations.append(vio)
    return st.to_dict()


def coverage_key(case):
    s = case["setting"]
    if case["half"] == "fencelist":
        return core.h16("fl|%s|%s|%s" % (case["shape"], ",".join(str(len(i)) for i in case["items"]), s["name"]))
    return core.h16("|".join([case["half"], case.get("sub") or "", case["ctx"], shape_of(case["parts"]),
                              "/".join(tag for tag, _ in case["tok"]), s["name"]]))


def make_case(rng, s, half, braille):
    """returns a case dict (JSON-able)"""
    if half == "fencelist":
        fl = gen_fence_list(rng, s)
        if fl is None:
            return None
        fl.update({"half": "fencelist", "setting": s, "braille": braille})
        return fl
    ctx = rng.choice(CTX_NAMES)
    if half == "fold":
        # rejection-sample into the must-fold domain (the rejected ones are exactly the observe-only spellings and are used there)
        for _ in range(50):
            parts = gen_number(rng, s)
            case = {"half": "fold", "setting": s, "parts": [list(p) for p in parts], "tok": tokens_for(rng, parts), "ctx": ctx,
                    "refspace": rng.choice(PREF_SPACES) if rng.random() < 0.3 else NBSP, "braille": braille}
            ok, why = in_must_fold_domain(case)
            if ok:
                return case
            ctx = rng.choice(CTX_NAMES)
        return None
    if half == "negative":
        sub, parts, toks = gen_non_number(rng, s)
        return {"half": "negative", "sub": sub, "setting": s, "parts": parts, "tok": toks, "ctx": ctx, "braille": braille}
    # observe: either a documented-ambiguity tokenisation, or a regular split placed outside the must-fold domain
    if rng.random() < 0.6:
        sub, parts, toks = gen_observe(rng, s)
        if not toks:
            return None
        return {"half": "observe", "sub": sub, "setting": s, "parts": parts, "tok": toks, "ctx": ctx, "braille": braille}
    for _ in range(50):
        parts = gen_number(rng, s)
        case = {"half": "observe", "setting": s, "parts": [list(p) for p in parts], "tok": tokens_for(rng, parts), "ctx": ctx, "braille": braille}
        ok, why = in_must_fold_domain(case)
        if not ok:
            case["sub"] = why
            return case
        ctx = rng.choice(CTX_NAMES)
    return None


def shard(spec):
    st = core.Stats()
    rng = random.Random(spec["seed"])
    deadline = time.time() + spec["time_budget"]
    settings = spec["settings"]
    by_lang = {}
    for s in settings:
        by_lang.setdefault(lang_key(s), []).append(s)
    langs = sorted(by_lang)
    codes = spec["braille_codes"]
    sess = core.Session(BASE_PREFS)
    reps = {}             # pre-cluster key -> representative
    todo = dict(spec["counts"])
    halves = [h for h in ("fold", "negative", "fencelist", "observe") for _ in range(max(1, round(10 * todo[h] / max(1, sum(todo.values())))))]
    BATCH = 12
    try:
        cur_lang, cur_setting, cur_code = None, None, None
        history = []
        while sum(todo.values()) > 0 and time.time() < deadline:
            # a segment: one language, one braille code, separator settings switched every few cases
            lang = rng.choice(langs)
            code = rng.choice(codes)
            for _seg in range(spec["segment"] // BATCH):
                if sum(todo.values()) <= 0 or time.time() > deadline:
                    break
                ops, metas = [], []
                if sess.d is None or not sess.d.alive():
                    cur_lang, cur_setting, cur_code, history = None, None, None, []
                for _ in range(BATCH):
                    half = rng.choice(halves)
                    if todo[half] <= 0:
                        alive = [h for h in todo if todo[h] > 0]
                        if not alive:
                            break
                        half = rng.choice(alive)
                    s = rng.choice(by_lang[lang]) if (cur_setting is None or lang_key(cur_setting) != lang or rng.random() < 0.25) else cur_setting
                    case = make_case(rng, s, half, code)
                    todo[half] -= 1
                    if case is None:
                        st.count("generator_gave_up_" + half)
                        continue
                    pre = []
                    if cur_setting is None or s["name"] != cur_setting["name"]:
                        pre += setting_ops(s, language_changed=(cur_lang != lang_key(s)))
                        cur_lang, cur_setting = lang_key(s), s
                        history = history + [s]
                        if len(history) > 7:
                            history = history[:2] + history[-5:]      # the first settings of the session matter for caches
                        st.count("setting_switches")
                    if cur_code != code:
                        pre.append(("set_preference", "BrailleCode", code))
                        cur_code = code
                    cops = case_ops(case)
                    metas.append((case, len(ops), len(pre), len(cops), list(history[:-1])))
                    ops += pre + cops
                if not ops:
                    continue
                res = sess.batch(ops)
                if res is None:
                    st.inconclusive += len(metas)
                    st.count("driver_died_or_timed_out")
                    cur_lang, cur_setting, cur_code, history = None, None, None, []
                    continue
                pref_failed = False
                for case, at, npre, nops, hist in metas:
                    if any(r["r"] != "ok" for r in res[at:at + npre]):
                        pref_failed = True
                        st.count("preference_call_failed")
                        st.notes.append("preference call failed for setting %s: %s" % (case["setting"]["name"], [err_text(r) for r in res[at:at + npre] if r["r"] != "ok"][:1]))
                    if pref_failed:
                        st.inconclusive += 1
                        continue
                    r = res[at + npre:at + npre + nops]
                    st.evaluations += 1
                    half = case["half"]
                    st.count("cases_" + half)
                    folded_before = st.counters.get("folded_identically", 0)
                    try:
                        verdicts = judge(case, r, st)
                    except ET.ParseError:
                        st.count("unparsable_output")
                        st.inconclusive += 1
                        continue
                    s = case["setting"]
                    st.add("settings", s["name"])
                    if half != "fencelist":
                        st.add("contexts_" + half, case["ctx"])
                        if case.get("sub"):
                            st.add(half + "_kinds", case["sub"])
                    if half == "fold":
                        st.add("fold_separators", "".join(sorted(set("␣" if t in ALL_SPACES else t for k, t in case["parts"] if k != "d"))) + " in " + setting_class(s).split(" via")[0])
                        st.add("space_tokens", "+".join(sorted(set(tag for (k, t), (tag, _) in zip(case["parts"], case["tok"]) if k == "s" and t in ALL_SPACES))) or "-")
                    if not verdicts:
                        if half == "fold" and st.counters.get("folded_identically", 0) > folded_before:
                            st.nontrivial.add(coverage_key(case))
                            st.add("folded_ctx_x_setting", case["ctx"] + " @ " + setting_class(s).split(" via")[0])
                            fg = fraction_grouping(case["parts"])
                            if fg:
                                st.count("folded_grouped_fraction_%d" % fg)
                                st.add("folded_fraction_groups", "groups of %d, dec=%s, %s, space tokens %s" % (
                                    fg, s["dec"], "integer part " + ("absent" if case["parts"][0][0] == "m" else "grouped" if case["parts"][1][0] == "s" else "plain"),
                                    "+".join(sorted(set(tag for (k, t), (tag, _) in zip(case["parts"], case["tok"]) if k == "s")))))
                            if not st.samples or (len(st.samples) < 2 and rng.random() < 0.02):
                                st.sample({"setting": s["name"], "split": split_xml(case), "unsplit": unsplit_xml(case), "speech": r[1].get("v"), "braille": r[2].get("v")})
                        elif half == "fencelist":
                            st.nontrivial.add(coverage_key(case))
                        continue
                    for kind, detail, facts in verdicts:
                        st.count("raw_" + kind)
                        key = pre_key(kind, case)
                        cur = reps.get(repr(key))
                        if cur is None:
                            reps[repr(key)] = {"kind": kind, "case": case, "detail": detail, "facts": facts, "history": hist, "count": 1}
                        else:
                            cur["count"] += 1
                            if case_size(case) < case_size(cur["case"]):
                                cur.update({"case": case, "detail": detail, "facts": facts, "history": hist})
                if pref_failed:
                    cur_lang, cur_setting, cur_code = None, None, None      # establish the next setting from scratch
        if sum(todo.values()) > 0:
            st.count("stopped_by_time_budget")
            st.count("cases_not_run", sum(todo.values()))
    finally:
        sess.close()
    d = st.to_dict()
    d["reps"] = reps
    return d


def probe_settings(settings):
    """drop settings whose preference calls are refused in this tree (reported, never silently)"""
    ok, refused = [], []
    with core.Driver("native") as d:
        for s in settings:
            try:
                res = d.fresh(core.init_ops(BASE_PREFS) + setting_ops(s))
            except (core.DriverDied, core.DriverTimeout):
                refused.append(s["name"])
                continue
            if all(r["r"] == "ok" for r in res):
                ok.append(s)
            else:
                refused.append(s["name"])
    return ok, refused


def replay(witness):
    case = witness["case"]
    with core.Driver("native") as d:
        v = fresh_judge(d, case, witness.get("history"))
    if not v:
        return []
    if witness.get("history"):
        return [core.violation(kind, "history-dependent: %s | %s | %s | %s" % (
            kind, case["half"], "fencelist" if case["half"] == "fencelist" else ctx_family(case["ctx"]),
            setting_class(case["setting"]).split(" via")[0]), dict(witness, **facts), detail[:1500]) for kind, detail, facts in v]
    return [core.violation(kind, make_sig(kind, case), dict(witness, **facts), detail[:1500]) for kind, detail, facts in v]


# -- known-finding predicates (each is as narrow as its cause) ------------------------------------
def _absorbed_all_match(v, rx_builder):
    """every output mn that the oracle rejected has the one shape this finding is about"""
    w = v["witness"]
    bad = w.get("absorbed") or []
    s = w["case"]["setting"]
    bl = "".join(sorted(set(NBSP if c in PREF_SPACES else c for c in s["blocks"] if c != s["dec"])))
    B, D = "[" + re.escape(bl) + "]", re.escape(s["dec"])
    rx = re.compile(rx_builder(B, D))
    return v["kind"] == "absorbed-non-number" and bool(bad) and all(rx.match(norm_spaces(t)) for t in bad)


def pred_final_punctuation(v, params):
    """what the unchanged tree gets wrong at the end of a sentence, and nothing else: the mark that ends the expression is (i) a second
    decimal mark after a number that already has one ('3 . 14 .'), or (ii) a block separator of the locale ('3 . 14 ,', '3 , 14 .').
    A sentence mark that is the decimal mark after a number WITHOUT one ('1 , 234 .') is handled correctly and is not this finding."""
    c = v["witness"]["case"]
    ctx = CONTEXTS.get(c.get("ctx"))
    if v["kind"] != "not-folded" or c["half"] != "fold" or ctx is None or not ctx["ends"]:
        return False
    s, mark = c["setting"], ctx["right"][0][1]
    if mark == s["dec"]:
        return any(k == "m" for k, _ in c["parts"])
    return mark in s["blocks"]


core.PREDICATES["c16_final_punctuation"] = pred_final_punctuation


def pred_long_lead_group(v, params):
    """get_number_pattern_regex makes the separator optional ('[,]?'), so a lead group of more than three digits followed by
    3-digit groups ('1234,567') is taken for a number"""
    return _absorbed_all_match(v, lambda B, D: r"^[0-9]{4,}(?:%s[0-9]{3})+(?:%s[0-9]*)?$" % (B, D))


def pred_separator_in_fraction(v, params):
    """get_number_pattern_regex lets every block separator (not only spaces) group the digits after the decimal mark ('1.234,5')"""
    return _absorbed_all_match(v, lambda B, D: r"^[0-9]*(?:%s?[0-9]{3})*%s(?:[0-9]{3,5}%s)+[0-9]{1,5}$" % (B, D, B))


def pred_one_digit_groups(v, params):
    """block_1digit_pattern (meant for one-digit-per-mn generators) accepts 1-2 digits followed by groups 'd,d,d' without requiring the
    mn boundaries it was written for, so '10, 5, 3' is folded into one mn"""
    return _absorbed_all_match(v, lambda B, D: r"^[0-9]{1,2}(?:[0-9](?:%s[0-9]){2})+(?:%s[0-9]*)?$" % (B, D))


core.PREDICATES["c16_long_lead_group"] = pred_long_lead_group
core.PREDICATES["c16_separator_in_fraction"] = pred_separator_in_fraction
core.PREDICATES["c16_one_digit_groups"] = pred_one_digit_groups


def run(tier, seed):
    t0 = time.time()
    core.build_driver("native")
    settings, refused = probe_settings(all_settings())
    codes = [c for c in configs.braille_codes() if c in ("Nemeth", "UEB", "CMU", "Vietnam", "Swedish", "LaTeX", "ASCIIMath")] or ["Nemeth"]
    nsh = core.NPROC
    scale = 1 if tier == "quick" else 25
    total = {"fold": 40000 * scale, "negative": 12000 * scale, "fencelist": 4000 * scale, "observe": 8000 * scale}
    if os.environ.get("C16_SCALE"):
        total = {k: max(50, int(v * float(os.environ["C16_SCALE"]))) for k, v in total.items()}
    budget = 60 if tier == "quick" else 1300
    specs = [{"seed": core.sub_seed(seed, PROP, i), "settings": settings, "braille_codes": codes, "segment": 96,
              "counts": {k: v // nsh for k, v in total.items()}, "time_budget": budget} for i in range(nsh)]
    results = core.run_shards(shard, specs)
    t_workload = time.time() - t0
    # merge pre-clusters across shards, then shrink one representative per pre-cluster (second, parallel phase)
    reps = {}
    for r in results:
        for k, rep in (r or {}).get("reps", {}).items():
            cur = reps.get(k)
            if cur is None:
                reps[k] = dict(rep)
            else:
                n = cur["count"] + rep["count"]
                if case_size(rep["case"]) < case_size(cur["case"]):
                    cur.update(rep)
                cur["count"] = n
    rep_list = [reps[k] for k in sorted(reps)]
    max_reps = 400 if tier == "quick" else 800
    dropped = rep_list[max_reps:]
    rep_list = rep_list[:max_reps]
    nshrink = max(1, min(core.NPROC, len(rep_list)))
    shrunk = core.run_shards(shrink_shard, [{"reps": rep_list[i::nshrink]} for i in range(nshrink)]) if rep_list else []
    t_shrink = time.time() - t0 - t_workload
    stats, errors = core.Stats.merge(list(results) + list(shrunk))
    for rep in dropped:       # more pre-clusters than the shrinking allowance: report them unshrunk rather than hide them
        v = core.violation(rep["kind"], make_sig(rep["kind"], rep["case"]), dict({"case": rep["case"]}, **rep.get("facts", {})), rep["detail"][:1500])
        v["count"] = rep["count"]
        stats.violations.append(v)
    known, fixed_failures, extra_v = core.replay_findings(PROP, replay)
    stats.violations.extend(extra_v)
    extra = {"settings_used": [s["name"] for s in settings], "settings_refused_by_this_tree": refused,
             "pre_clusters": len(reps), "workload_phase_s": round(t_workload, 1), "minimisation_phase_s": round(t_shrink, 1), "braille_codes": codes,
             "must_fold_domain": "digit runs as mn, each separator its own token; comma numbers neither inside fences nor next to a context comma; "
                                 "trailing decimal mark not the last token of the expression; number is a segment of the leftmost-longest reading of its run",
             "excluded_from_must_fold (observe-only)": ["comma-number-inside-fences", "comma-number-next-to-comma", "leading-or-trailing-comma", "trailing-mark-at-very-end",
                                                        "ambiguous-with-context", "glued separators", "digit-per-mn", "4-hex-digit blocks",
                                                        "mixed separators", "grouped fraction next to a visibly grouped integer part", "visible separator as mtext"]}
    return core.conclude(
        PROP, tier, seed, "exploration", stats, extra,
        ["the number grammar and the decimal-comma locales are the oracle's own (statement / CLDR practice), not read from canonicalize.rs or prefs.rs",
         "canonical MathML is compared with id and data-* attributes removed and spaces inside mn modulo the kind of space",
         "preferences are applied Language first and DecimalSeparator through Auto on a language change; order dependence of the two is C10/C12's subject",
         "set_mathml errors/panics on the unsplit reference are C08's and only counted"],
        t0,
        rule="fold half: a number of the locale grammar split into >=2 tokens inside the must-fold domain, placed in one of %d contexts under one of %d "
             "separator settings, for which split and unsplit form gave identical canonical MathML, speech and braille (a fold decision was taken and "
             "the fold happened); plus fence lists that were kept as lists; distinct by (context, number shape, token kinds, setting)" % (len(CONTEXTS), len(settings)),
        min_nontrivial=300 if tier == "quick" else 2000, harness_errors=errors, known_replayed=known, fixed_failures=fixed_failures)
