"""Greedy delta debugging on gen.N trees and on lists (histories), plus shape abstraction for signatures."""
from .gen import N, mi, mn

# parents from which a child may be deleted without breaking the MathML schema (inferred-mrow parents, table parts)
DELETABLE_FROM = {"mrow", "math", "mtd", "mstyle", "mpadded", "mphantom", "msqrt", "menclose", "merror", "mfenced", "mtable", "mtr", "mlabeledtr"}
# elements that only make sense below a particular parent: never hoisted, never replaced by a leaf, never unwrapped
STRUCTURAL = {"mtr", "mlabeledtr", "mtd", "none", "mprescripts", "annotation", "annotation-xml"}


def _replace_at(root, path, new):
    """return a copy of root with the node at path replaced by new (new=None deletes it)"""
    r = root.copy()
    if not path:
        return new
    cur = r
    for i in path[:-1]:
        cur = cur.kids[i]
    if new is None:
        del cur.kids[path[-1]]
    else:
        cur.kids[path[-1]] = new
    return r


def shrink_tree(root, pred, budget=1500, leaf_factory=None):
    """root: N with tag math.  pred(tree) -> True when the tree still shows the violation.
    Returns the smallest tree found.  pred is never called on the original (assumed True)."""
    leaf_factory = leaf_factory or (lambda: [mn("17.29"), mi("x")])
    calls = [0]

    def test(t):
        if calls[0] >= budget:
            return False
        calls[0] += 1
        try:
            return bool(pred(t))
        except Exception:
            return False

    best = root
    progress = True
    while progress and calls[0] < budget:
        progress = False
        nodes = sorted(best.walk(), key=lambda np: len(np[1]))
        # 1. hoist a subtree to the top: smallest subtrees first, so the first hit is the smallest failing subtree
        for node, path in sorted(nodes, key=lambda np: size(np[0])):
            if len(path) < 2 or node.kids is None or node.tag in STRUCTURAL:
                continue
            cand = N("math", [node.copy()])
            if cand.xml() != best.xml() and size(cand) < size(best) and test(cand):
                best, progress = cand, True
                break
        if progress:
            continue
        # 2. delete a child / unwrap a node / replace a subtree by a leaf / drop an attribute — only schema-preserving edits
        for node, path in nodes:
            if not path:
                continue
            parent = best
            for i in path[:-1]:
                parent = parent.kids[i]
            if parent.tag in DELETABLE_FROM and len(parent.kids) > 1 and not (parent.tag == "mmultiscripts"):
                if not (parent.tag in ("mtable", "mtr", "mlabeledtr") and len(parent.kids) <= 1):
                    cand = _replace_at(best, path, None)
                    if test(cand):
                        best, progress = cand, True
                        break
            if node.tag in STRUCTURAL:
                continue
            if node.kids is not None and node.kids:
                done = False
                for k in node.kids:
                    if k.tag in STRUCTURAL:
                        continue
                    cand = _replace_at(best, path, k.copy())
                    if size(cand) < size(best) and test(cand):
                        best, progress, done = cand, True, True
                        break
                if done:
                    break
                for leaf in leaf_factory():
                    cand = _replace_at(best, path, leaf)
                    if size(cand) < size(best) and test(cand):
                        best, progress, done = cand, True, True
                        break
                if done:
                    break
            if node.attrs:
                for a in list(node.attrs):
                    n2 = node.copy()
                    del n2.attrs[a]
                    cand = _replace_at(best, path, n2)
                    if test(cand):
                        best, progress = cand, True
                        break
                if progress:
                    break
    # 3. normal form: every token that can be replaced by the canonical identifier is replaced, so that
    #    witnesses of one cause that differ only in irrelevant neighbours get one shape
    for node, path in sorted(best.walk(), key=lambda np: len(np[1])):
        if calls[0] >= budget + 30:
            break
        if node.kids is None and node.tag not in STRUCTURAL and not (node.tag == "mi" and node.text == "x") and path:
            cand = _replace_at(best, path, mi("x"))
            calls[0] -= 1          # the normal-form pass has its own small allowance
            if test(cand):
                best = cand
    return best


def size(t):
    return sum(1 for _ in t.walk()) * 10 + sum(len(n.attrs) for n, _ in t.walk())


def shrink_list(items, pred, budget=80):
    """ddmin-lite on a list: try removing chunks, then single items."""
    calls = [0]

    def test(x):
        if calls[0] >= budget:
            return False
        calls[0] += 1
        try:
            return bool(pred(x))
        except Exception:
            return False

    best = list(items)
    chunk = max(1, len(best) // 2)
    while chunk >= 1 and calls[0] < budget:
        i = 0
        changed = False
        while i < len(best) and calls[0] < budget:
            cand = best[:i] + best[i + chunk:]
            if len(cand) < len(best) and test(cand):
                best = cand
                changed = True
            else:
                i += chunk
        if chunk == 1 and not changed:
            break
        chunk = max(1, chunk // 2) if not changed or chunk > 1 else 1
        if chunk == 1 and changed:
            continue
    return best


def token_class(node):
    t = (node.text or "")
    if node.tag in ("none", "mprescripts", "mspace"):
        return node.tag
    if t.strip() == "":
        return node.tag + ":EMPTY"
    if node.tag == "mn":
        return "mn"
    if node.tag == "mi":
        return "mi" if len(t) == 1 else "mi:WORD"
    if node.tag == "mo":
        return "mo:" + t
    if node.tag == "mtext":
        return "mtext"
    return node.tag


def abstract_shape(t, depth=0):
    """element skeleton with token texts abstracted to classes (operators keep their text)"""
    if t.kids is None:
        return token_class(t)
    attrs = ""
    keep = [k for k in sorted(t.attrs) if k in ("notation", "linethickness", "open", "close", "separators", "intent", "bevelled", "mathvariant")]
    if keep:
        attrs = "[" + ",".join("%s=%s" % (k, t.attrs[k]) for k in keep) + "]"
    if not t.kids:
        return t.tag + attrs + "()"
    if depth > 8:
        return t.tag + "(…)"
    return t.tag + attrs + "(" + ",".join(abstract_shape(k, depth + 1) for k in t.kids) + ")"
