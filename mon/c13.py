"""C13 — speech-engine markup (SSML, SAPI5) is well formed and never changes the words.

Per case three sessions of one driver (threads with their own MathCAT state) get the SAME history — the same preferences, the same
set_mathml, get_spoken_text, get_overview_text and (for walks) the same navigation commands — and differ only in TTS, which is
explicitly "None", "SSML", "SAPI5".  Every speech-producing entry point is judged: get_spoken_text, get_overview_text and the speech
returned by every navigation command, in both speak modes (read / overview after ToggleSpeakMode) and all navigation modes.
Oracles (all independent of MathCAT's code):
  markup    tag-soup validator of c13_markup (engine vocabulary, attribute syntax + value grammars, nesting, own-name closing),
            Python's XML parser as second opinion;
  words     text left after removing the tags == plain-mode speech of the same call, pause punctuation and ALL white space removed;
  bookmark  every mark/bookmark name is an id of the MathML that the preceding set_mathml returned.
Besides the shipped rule files a private copy of Rules/ gets one extra speech style (C13Probe) whose rules use every TTS command of
tts.rs (the shipped rules never use volume/voice/gender, so those start/end-tag table rows are otherwise unreachable)."""
import os
import random
import re
import shutil
import time
import xml.etree.ElementTree as ET

from . import configs, core, gen, shrink
from . import c13_markup as mk

PROP = "C13"
ENGINES = ["SSML", "SAPI5"]
MYWORK = os.path.join(core.WORK, PROP)

# ------------------------------------------------------------------------------------------------------------
# configuration space
# ------------------------------------------------------------------------------------------------------------
DEFAULTS = {
    "Rate": "180", "MathRate": "100", "PauseFactor": "100", "Pitch": "0", "Volume": "100",
    "CapitalLetters_Pitch": "0", "CapitalLetters_UseWord": "true", "CapitalLetters_Beep": "false", "Bookmark": "false",
    "Verbosity": "Medium", "Impairment": "Blindness", "SpeechOverrides_CapitalLetters": "",
    "NavMode": "Enhanced", "NavVerbosity": "Medium", "AutoZoomOut": "true",
}
NUMERIC = ("Rate", "MathRate", "PauseFactor", "Pitch", "Volume", "CapitalLetters_Pitch")
# (ordinary values, hostile values: zero / negative / tiny / huge / non-finite)
POOLS = {
    "Rate": (["180", "90", "360", "250.5", "120", "600"], ["0", "-180", "0.0001", "1", "1e9", "1e300", "inf", "NaN"]),
    "MathRate": (["100", "120", "50", "300", "99.5", "80", "200"], ["0", "-50", "0.0001", "1e9", "1e300", "inf", "NaN", "-inf"]),
    "PauseFactor": (["100", "50", "200", "0", "400", "33.3"], ["-100", "1000", "1e9", "1e300", "inf", "NaN"]),
    "CapitalLetters_Pitch": (["0", "10", "30", "-20", "50", "12.5"], ["100", "-100", "-150", "1e9", "1e300", "inf", "NaN", "-99.99"]),
    "Pitch": (["0", "20", "-20", "5.5"], ["100", "-100", "-250", "1e9", "inf", "NaN"]),
    "Volume": (["100", "50", "80", "20.5"], ["0", "-10", "150", "1e9", "inf", "NaN"]),
}
CAP_WORDS = ["", "", "upper", "big"]


def value_class(name, v):
    """class of a preference value for signatures (never the literal random number)"""
    if name not in NUMERIC:
        return v
    try:
        x = float(v)
    except ValueError:
        return "unparsable"
    if x != x:
        return "nan"
    if x in (float("inf"), float("-inf")):
        return "+inf" if x > 0 else "-inf"
    if x == 0:
        return "zero"
    if x < 0:
        return "le-minus-100" if x <= -100 else "negative"
    if x >= 1e6:
        return "huge"
    if x < 0.01:
        return "tiny"
    return "positive"


def random_cfg(rng, rules, lang, style, hostile_p):
    p = {}
    for name in ("Rate", "MathRate", "PauseFactor", "CapitalLetters_Pitch", "Pitch", "Volume"):
        sane, hostile = POOLS[name]
        r = rng.random()
        if r < hostile_p:
            p[name] = rng.choice(hostile)
        elif r < hostile_p + 0.45:
            p[name] = DEFAULTS[name]
        else:
            p[name] = rng.choice(sane)
    p["CapitalLetters_UseWord"] = rng.choice(["true", "true", "false"])
    p["CapitalLetters_Beep"] = rng.choice(["false", "true"])
    p["Bookmark"] = rng.choice(["false", "true"])
    p["Verbosity"] = rng.choice(["Terse", "Medium", "Verbose"])
    p["Impairment"] = rng.choice(["Blindness", "Blindness", "LowVision", "LearningDisability"])
    p["SpeechOverrides_CapitalLetters"] = rng.choice(CAP_WORDS)
    p["NavMode"] = rng.choice(["Enhanced", "Enhanced", "Simple", "Character"])
    p["NavVerbosity"] = rng.choice(["Terse", "Medium", "Full"])
    p["AutoZoomOut"] = rng.choice(["true", "true", "false"])
    return {"rules": rules, "lang": lang, "style": style, "prefs": p}


def cfg_sig(cfg):
    parts = []
    if cfg["rules"] != "shipped":
        parts.append("rules=" + cfg["rules"])
    if cfg["lang"] != "en":
        parts.append("lang=" + cfg["lang"])
    if cfg["style"] != "ClearSpeak":
        parts.append("style=" + cfg["style"])
    for k in sorted(cfg["prefs"]):
        v = cfg["prefs"][k]
        if v != DEFAULTS.get(k):
            parts.append("%s=%s" % (k, value_class(k, v)))
    return ",".join(parts) or "default"


# ------------------------------------------------------------------------------------------------------------
# the extra speech style with one rule per TTS command (private copy of Rules/)
# ------------------------------------------------------------------------------------------------------------
PROBE_STYLE = "C13Probe"
PROBE_RULES = r"""---
# C13 probe style: every TTS command of tts.rs on mtext tokens whose text starts with a key word; everything else is ClearSpeak.
- name: c13-volume-pref
  tag: mtext
  match: "starts-with(text(), 'qvolpref')"
  replace:
  - volume:
      value: "$Volume"
      replace: [t: "volume from preference"]
- name: c13-volume-fixed
  tag: mtext
  match: "starts-with(text(), 'qvolfix')"
  replace:
  - volume:
      value: 55.5
      replace: [t: "fixed volume"]
- name: c13-pitch-pref
  tag: mtext
  match: "starts-with(text(), 'qpitchpref')"
  replace:
  - pitch:
      value: "$Pitch"
      replace: [t: "pitch from preference"]
- name: c13-pitch-fixed
  tag: mtext
  match: "starts-with(text(), 'qpitchfix')"
  replace:
  - pitch:
      value: -35
      replace: [t: "lower pitch"]
- name: c13-rate-fixed
  tag: mtext
  match: "starts-with(text(), 'qrate')"
  replace:
  - rate:
      value: 250
      replace: [t: "fast words"]
- name: c13-voice
  tag: mtext
  match: "starts-with(text(), 'qvoice')"
  replace:
  - voice:
      value: "Mike"
      replace: [t: "another voice"]
- name: c13-gender
  tag: mtext
  match: "starts-with(text(), 'qgender')"
  replace:
  - gender:
      value: "female"
      replace: [t: "female voice"]
- name: c13-nest
  tag: mtext
  match: "starts-with(text(), 'qnest')"
  replace:
  - volume:
      value: 70
      replace:
      - t: "outer"
      - rate:
          value: 130
          replace:
          - t: "middle"
          - pause: short
          - pitch:
              value: 25
              replace:
              - bookmark: "@id"
              - t: "inner"
              - spell: "'abc'"
              - pause: long
          - t: "after"
      - voice:
          value: "Anna"
          replace:
          - gender:
              value: "male"
              replace: [t: "deep"]
- name: c13-pauses
  tag: mtext
  match: "starts-with(text(), 'qpauses')"
  replace:
  - t: "one"
  - pause: short
  - pause: long
  - t: "two"
  - pause: 75
  - bookmark: "@id"
  - pause: medium
  - t: "three"
  - pause: 20000
  - pause: 51
  - pause: auto
  - t: "four"
- name: c13-audio
  tag: mtext
  match: "starts-with(text(), 'qaudio')"
  replace:
  - audio:
      value: "ding.wav"
      replace: [t: "ding"]
- name: c13-spell
  tag: mtext
  match: "starts-with(text(), 'qspell')"
  replace:
  - spell: "substring(text(), 7)"
- name: c13-pronounce
  tag: mtext
  match: "starts-with(text(), 'qpronfull')"
  replace:
  - t: "say"
  - pronounce: [{text: "tomato"}, {ipa: "təˈmeɪtoʊ"}, {sapi5: "t ax m ey t ow"}, {eloquence: "tomato"}]
- name: c13-pronounce-text-only
  tag: mtext
  match: "starts-with(text(), 'qprontext')"
  replace:
  - t: "say"
  - pronounce: [{text: "potato"}]

- include: "ClearSpeak_Rules.yaml"
"""
PROBE_TOKENS = ["qvolpref", "qvolfix", "qpitchpref", "qpitchfix", "qrate", "qvoice", "qgender", "qnest", "qpauses", "qaudio",
                "qspellNaCl", "qspellXyZ", "qspellb", "qpronfull", "qprontext"]


def make_probe_rules(tag):
    """private copy of Rules/ with the probe style added to Languages/en; returns its path"""
    dst = os.path.join(MYWORK, "rules-%s" % tag)
    if os.path.isdir(dst):
        shutil.rmtree(dst, ignore_errors=True)
    os.makedirs(MYWORK, exist_ok=True)
    shutil.copytree(core.RULES, dst, symlinks=False)
    with open(os.path.join(dst, "Languages", "en", PROBE_STYLE + "_Rules.yaml"), "w", encoding="utf-8") as f:
        f.write(PROBE_RULES)
    return dst


_NOOPT = {}


def noopt_rules(base_dir):
    """copy of a rules directory in which every optional word (ot:/OT:) is an ordinary word (t:/T:), so that the optional-word
    clean-up of speech.rs never acts; used only to diagnose the cause of a word difference.  One copy per process and base."""
    key = base_dir or core.RULES
    if key in _NOOPT and os.path.isdir(_NOOPT[key]):
        return _NOOPT[key]
    dst = os.path.join(MYWORK, "rules-noopt-%d-%d" % (os.getpid(), len(_NOOPT)))
    if os.path.isdir(dst):
        shutil.rmtree(dst, ignore_errors=True)
    os.makedirs(MYWORK, exist_ok=True)
    shutil.copytree(key, dst, symlinks=False)
    for root, _, files in os.walk(os.path.join(dst, "Languages")):
        for f in files:
            if f.endswith(".yaml"):
                path = os.path.join(root, f)
                text = open(path, encoding="utf-8").read()
                new = re.sub(r"(?<![A-Za-z_])ot:", "t:", text)
                new = re.sub(r"(?<![A-Za-z_])OT:", "T:", new)
                if new != text:
                    with open(path, "w", encoding="utf-8") as out:
                        out.write(new)
    _NOOPT[key] = dst
    return dst


def drop_noopt_rules():
    for d in _NOOPT.values():
        shutil.rmtree(d, ignore_errors=True)
    _NOOPT.clear()
    _rmdir_mywork()


def _rmdir_mywork():
    try:
        os.rmdir(MYWORK)         # only when empty: other processes of this run may still use it
    except OSError:
        pass


# ------------------------------------------------------------------------------------------------------------
# workload: textbook expressions decorated with what triggers pitch / spell / pronounce / audio / bookmark
# ------------------------------------------------------------------------------------------------------------
CAPS = list("ABCDEFGHKLMNPQRSTVXYZ")
GREEK_CAPS = list("ΓΔΘΛΞΠΣΦΨΩ")
CHEM = ["NaCl", "Fe", "OH", "Cl", "pH", "Mg", "CO", "Hg"]
INDEX_LETTERS = list("nkmij")
GOOD_IDS = ["u%d", "node-%d", "a.b_%d", "Ünï%d", "id%dø", "x%d-y.z", "_%d", "式%d"]
SINGLE_CHAR_IDS = "AaBxZΓπ_"
HOSTILE_IDS = ["it's%d", "a\"b%d", "a<b%d", "R&D%d", "x'y'z%d", "p>q%d", "a b%d", "a\u00a0b%d", "+%d", "%d"]
SPECIAL_TEXT = ["a<b", "R&D", "x<<y", "if a<b & c>d", "<b>", "p&q;", "1<2", "AT&T", "a&lt;b", "x>y", "\"q\"", "it's", "<!--", "a<b>c</b>", "&#65;",
                "a < b", "x > y", "Q&A", "rock'n'roll", "say \"hi\"", "f'", "g''", "</b>", "a'b\"c", "&amp;", "<br/>", "'quoted'", "x&y<z>w'v\"u"]
# XML special characters alone and inside words, for every kind of token (what an author or a converter may put there)
SPECIAL_ALONE = ["<", ">", "&", "'", "\""]
SPECIAL_BY_TAG = {
    "mtext": SPECIAL_TEXT,
    "mi": ["R&D", "Q&A", "f'", "g''", "a<b", "x>y", "it's", "\"q\"", "AT&T", "a'", "<b>", "x\"", "&c"],
    "ms": ["a<b", "R&D", "it's", "say \"hi\"", "<b>", "x>y", "a & b", "'", "&lt;"],
    "mo": ["<=", ">=", "&&", "<<", ">>", "->", "<>", "=>", "<-", "''", "&=", "'\""],
    "mn": ["1<2", "2>1", "1&2", "5'", "3\"", "5'3\"", "1,000&", "<3"],
}


def decorate(rng, tree, cfg, feats, st=None):
    """in-place; feats: set of 'caps','index','chem','ids','hostile_ids','special_text','specials'"""
    nodes = list(tree.walk())
    for node, path in nodes:
        if node.kids is None and node.tag == "mi" and len(node.text or "") == 1:
            r = rng.random()
            if "caps" in feats and r < 0.30:
                node.text = rng.choice(CAPS)
            elif "caps" in feats and r < 0.42:
                node.text = rng.choice(GREEK_CAPS)
            elif "chem" in feats and r < 0.50:
                node.text = rng.choice(CHEM)
        if "index" in feats and node.tag in ("msup", "mroot", "msub") and node.kids and len(node.kids) == 2 and node.kids[1].kids is None and rng.random() < 0.35:
            node.kids[1] = gen.mi(rng.choice(INDEX_LETTERS))
    extra = []
    if cfg["rules"] == "probe":
        for _ in range(rng.randint(1, 3)):
            extra.append(gen.mtext(rng.choice(PROBE_TOKENS)))
    if "special_text" in feats:
        extra.append(gen.mtext(rng.choice(SPECIAL_TEXT)))
    if "specials" in feats:
        for _ in range(rng.randint(1, 3)):
            tag = rng.choice(["mtext", "mtext", "mi", "mi", "ms", "mo", "mn"])
            text = rng.choice(SPECIAL_ALONE) if rng.random() < 0.3 else rng.choice(SPECIAL_BY_TAG[tag])
            extra.append(gen.N(tag, text=text))
        # and inside tokens that are already part of the structure (operands of fractions, scripts, table cells ...)
        leaves = [n for n, p in tree.walk() if n.kids is None and n.tag in ("mi", "mn", "mtext") and p]
        for n in rng.sample(leaves, min(len(leaves), rng.randint(0, 2))):
            n.text = rng.choice(SPECIAL_ALONE) if rng.random() < 0.25 else rng.choice(SPECIAL_BY_TAG[n.tag])
    for e in extra:
        rows = [n for n, p in tree.walk() if n.tag in ("math", "mrow", "mtd", "msqrt") and n.kids is not None]
        host = rng.choice(rows)
        host.kids.insert(rng.randint(0, len(host.kids)), e)
    if "ids" in feats or "hostile_ids" in feats:
        nodes = [n for n, p in tree.walk() if p]
        rng.shuffle(nodes)
        share = rng.choice([0.2, 0.6, 1.0])
        k = 0
        letters = list(SINGLE_CHAR_IDS)
        rng.shuffle(letters)
        for n in nodes[:max(1, int(len(nodes) * share))]:
            k += 1
            if letters and rng.random() < 0.25:
                n.attrs["id"] = letters.pop()          # one-letter names are valid XML ids
            else:
                n.attrs["id"] = rng.choice(GOOD_IDS) % k
        if "hostile_ids" in feats and nodes:
            rng.choice(nodes).attrs["id"] = rng.choice(HOSTILE_IDS) % 0
    return tree


def random_feats(rng, hostile_p, specials_p=0.3):
    f = set()
    if rng.random() < 0.8:
        f.add("caps")
    if rng.random() < 0.6:
        f.add("index")
    if rng.random() < 0.3:
        f.add("chem")
    if rng.random() < 0.35:
        f.add("ids")
    if rng.random() < max(hostile_p, 0.12):
        f.add("hostile_ids")
    if rng.random() < hostile_p:
        f.add("special_text")
    if rng.random() < specials_p:
        f.add("specials")
    return f


# ------------------------------------------------------------------------------------------------------------
# evaluation through the driver
# ------------------------------------------------------------------------------------------------------------
TTS_ALL = ["None"] + ENGINES


class Sess:
    """One driver with three sessions (threads with their own MathCAT state) for one (rules, language, style): "None", "SSML", "SAPI5".
    All three get the same operations; only the TTS preference differs.  All preferences of the configuration are (re)set before
    every case.  The speak mode (ToggleSpeakMode) is the only navigation state that survives set_mathml: it is put back to 'read'
    after every walk (observed with the nav_snapshot hook), so that every case starts from the same state and replays from a fresh driver."""

    def __init__(self, rules_dir, lang, style):
        self.rules_dir, self.lang, self.style = rules_dir, lang, style
        self.d = None
        self.decimal = None
        self.restarts = 0

    def ensure(self):
        if self.d is None or not self.d.alive():
            if self.d is not None:
                self.d.close()
                self.restarts += 1
            self.d = core.Driver("native", timeout=30.0)
            for tts in TTS_ALL:
                self.d.init({"TTS": tts, "Language": self.lang, "SpeechStyle": self.style}, rules_dir=self.rules_dir, s=tts)
        return self.d

    def decimal_mark(self):
        if self.decimal is None:
            try:
                r = self.ensure().call("get_preference", "DecimalSeparators", s="None")
            except (core.DriverDied, core.DriverTimeout):
                r = None
            self.decimal = (r.get("v") or ".")[0] if r and r["r"] == "ok" else "."
        return self.decimal

    def evaluate(self, cfg, xml, history=()):
        """returns {'None': {'set':, 'spoken':, 'overview':, 'nav': [...]}, 'SSML': ..., 'SAPI5': ..., 'pref_errors': [...]}
        or None when the driver died / timed out (it is restarted on the next use)"""
        prefs = [("set_preference", k, v) for k, v in cfg["prefs"].items()]
        n0 = len(prefs) + 1
        out = {"pref_errors": []}
        try:
            d = self.ensure()
            for tts in TTS_ALL:
                ops = prefs + [("set_preference", "TTS", tts), ("set_mathml", xml), ("get_spoken_text",), ("get_overview_text",)]
                ops += [("do_navigate_command", c) for c in history]
                if history:
                    ops.append(("nav_snapshot",))
                res = d.batch(ops, s=tts)
                if tts == "None":
                    out["pref_errors"] = [(ops[i][1], res[i].get("e", res[i]["r"])) for i in range(n0) if res[i]["r"] != "ok"]
                out[tts] = {"set": res[n0], "spoken": res[n0 + 1], "overview": res[n0 + 2], "nav": res[n0 + 3:n0 + 3 + len(history)]}
                if history:
                    snap = res[-1].get("v") if res[-1]["r"] == "ok" else None
                    if not isinstance(snap, dict) or snap.get("speak_overview"):
                        back = d.batch([("do_navigate_command", "ToggleSpeakMode"), ("nav_snapshot",)], s=tts)
                        snap = back[-1].get("v") if back[-1]["r"] == "ok" else None
                        if not isinstance(snap, dict) or snap.get("speak_overview"):
                            self.close()            # cannot get back to the initial speak mode: start the next case from a fresh driver
                            d = self.ensure()
        except (core.DriverDied, core.DriverTimeout) as e:
            self.last_failure = e
            self.close()
            return None
        return out

    def rule_hits(self):
        try:
            return (self.ensure().call("rule_hits", s="SSML") or {}).get("v") or {}
        except Exception:
            return {}

    def close(self):
        if self.d is not None:
            self.d.close()
            self.d = None


# ------------------------------------------------------------------------------------------------------------
# navigation walks
# ------------------------------------------------------------------------------------------------------------
_NAV_FALLBACK = ["MovePrevious", "MoveNext", "MoveStart", "MoveEnd", "MoveLineStart", "MoveLineEnd", "MoveCellPrevious", "MoveCellNext", "MoveCellUp",
                 "MoveCellDown", "MoveColumnStart", "MoveColumnEnd", "ZoomIn", "ZoomOut", "ZoomOutAll", "ZoomInAll", "MoveLastLocation", "ReadPrevious",
                 "ReadNext", "ReadCurrent", "ReadCellCurrent", "ReadStart", "ReadEnd", "ReadLineStart", "ReadLineEnd", "DescribePrevious", "DescribeNext",
                 "DescribeCurrent", "WhereAmI", "WhereAmIAll", "ToggleZoomLockUp", "ToggleZoomLockDown", "ToggleSpeakMode", "Exit"] + \
                ["%s%d" % (c, i) for c in ("MoveTo", "Read", "Describe", "SetPlacemarker") for i in range(10)]
_NAV_CACHE = []


def nav_commands():
    """the navigation command names, read from the source tree so that the workload follows the code base"""
    if not _NAV_CACHE:
        names = []
        try:
            src = open(os.path.join(core.REPO, "src", "navigate.rs"), encoding="utf-8").read()
            m = re.search(r"NAV_COMMANDS\s*:\s*phf::Set<&str>\s*=\s*phf_set!\s*\{(.*?)\};", src, re.S)
            if m:
                names = re.findall(r'"([A-Za-z0-9]+)"', m.group(1))
        except OSError:
            pass
        _NAV_CACHE.extend(names if len(names) >= 20 else _NAV_FALLBACK)
    return list(_NAV_CACHE)


def random_history(rng, st=None):
    """a walk: 8-18 commands; goes down to the leaves (where the token texts are spoken on their own), reads, describes, asks where it is,
    switches the speak mode (so that Move/Zoom speak through the overview rules too), uses place markers"""
    cmds = nav_commands()
    groups = {
        "move": [c for c in cmds if c.startswith(("Move", "Zoom")) and not re.search(r"\d$", c)],
        "read": [c for c in cmds if c.startswith("Read") and not re.search(r"\d$", c)],
        "describe": [c for c in cmds if c.startswith("Describe") and not re.search(r"\d$", c)],
        "where": [c for c in cmds if c.startswith("WhereAmI")],
        "speakmode": [c for c in cmds if c == "ToggleSpeakMode"],
        "toggle": [c for c in cmds if c.startswith("Toggle") and c != "ToggleSpeakMode"],
        "marker": [c for c in cmds if re.search(r"\d$", c)],
        "other": [c for c in cmds if not c.startswith(("Move", "Zoom", "Read", "Describe", "WhereAmI", "Toggle")) and not re.search(r"\d$", c)],
    }
    weights = [("move", 44), ("read", 12), ("describe", 14), ("where", 6), ("speakmode", 8), ("toggle", 3), ("marker", 11), ("other", 2)]
    weights = [(g, w) for g, w in weights if groups[g]]
    h = []
    down = [c for c in ("ZoomIn", "ZoomInAll", "MoveNext") if c in cmds]
    for _ in range(rng.randint(0, 2)):
        if down:
            h.append(rng.choice(down))
    for _ in range(rng.randint(8, 16)):
        g = rng.choices([g for g, _ in weights], [w for _, w in weights])[0]
        c = rng.choice(groups[g])
        if g == "marker":
            c = re.sub(r"\d$", str(rng.randint(0, 2)), c)      # few markers, so that MoveTo/Read/Describe hit markers that were set
        h.append(c)
    if "ToggleSpeakMode" not in h and groups["speakmode"] and rng.random() < 0.75:
        h.insert(rng.randint(0, len(h) // 2), "ToggleSpeakMode")
    return h


def rules_dir_for(cfg, probe_dir):
    return probe_dir if cfg["rules"] == "probe" else None


def mathml_ids(xml):
    try:
        return set(e.get("id") for e in ET.fromstring(xml).iter() if e.get("id") is not None)
    except ET.ParseError:
        return set(m.group(2) for m in re.finditer(r"""\sid=(['"])(.*?)\1""", xml))


def _abstract(s):
    """class of a differing fragment: letters -> a, digits -> 9, runs collapsed"""
    s = re.sub(r"[0-9]+", "9", s)
    s = re.sub(r"[^\W\d_]+", "a", s, flags=re.U)
    return s[:12]


def _first_difference(a, b):
    """class of the first edit that turns a into b (cheap pre-clustering key for word differences)"""
    import difflib
    for tag, i1, i2, j1, j2 in difflib.SequenceMatcher(None, a[:600], b[:600], autojunk=False).get_opcodes():
        if tag != "equal":
            return (tag, _abstract(a[i1:i2]), _abstract(b[j1:j2]))
    return ("equal", "", "")


def _failure_class(r):
    if r["r"] == "panic":
        return "panic %s: %s" % ((r.get("p") or {}).get("fn", "").split(" <- ")[0], re.sub(r"\d+", "N", (r.get("p") or {}).get("msg", ""))[:80])
    lines = [l for l in (r.get("e") or "").splitlines() if l.strip()]
    return "err " + re.sub(r"'[^']*'", "'…'", re.sub(r"\d+", "N", lines[-1] if lines else ""))[:100]


def judge_output(cfg, tree, engine, ep, plain, speech, ids_xml, st=None):
    """One engine output against the plain-mode output of the same call.  ep = entry point group: '' (get_spoken_text), 'overview'
    (get_overview_text), 'nav' (speech of a navigation command).  returns findings: dict(kind, cls (witness-independent class), engine, detail)"""
    out = []
    label = engine + ("/" + ep if ep else "")
    a = mk.analyse(engine, speech)
    if st:
        st.evaluations += 1
        st.count("outputs_judged_" + (ep or "spoken"))
        for t in a["tags"]:
            if t.kind != "close" and t.name in mk.VOCAB[engine]:
                st.add("tags_seen", "%s:%s" % (label, t.name))
                for an, _ in t.attrs:
                    st.add("attributes_seen", "%s:%s@%s" % (engine, t.name, an))
        for r in a["remarks"]:
            st.count("remark_" + r)
        if a["tags"]:
            st.nontrivial.add(core.h16(tree.shape() + "|" + cfg_sig(cfg) + "|" + label))
        if mk.ENTITY_RX.search(speech):
            st.count("outputs_with_character_references_" + (ep or "spoken"))
    seen = set()
    for kind, where, cls, detail in a["problems"]:
        key = "markup:%s:%s:%s:%s" % (label, kind, where, cls)
        if key in seen:
            continue
        seen.add(key)
        out.append({"kind": "markup", "cls": key, "engine": engine, "detail": "%s in %s output: %s | whole speech: %s" % (cls, label, detail, speech[:400])})
    if not any(p[0] in ("syntax", "nesting") for p in a["problems"]):
        msg = mk.xml_second_opinion(engine, speech)
        if msg:
            out.append({"kind": "markup", "cls": "markup:%s:xml:parser:%s" % (label, re.sub(r"\d+", "N", msg)[:60]), "engine": engine,
                        "detail": "XML parser rejects %s output (%s): %s" % (label, msg, speech[:400])})
        elif st:
            st.count("xml_parser_accepts_" + engine)
    if a["unreliable"]:
        if st:
            st.count("words_not_compared_text_boundary_in_doubt")
    else:
        ek = mk.words_key(a["text"])
        plain_key = mk.words_key(plain)
        if st:
            st.count("words_compared")
        if ek != plain_key:
            m_plain, m_eng = mk.diff_middle(plain_key, ek)
            out.append({"kind": "words", "cls": "words:%s" % label, "engine": engine,
                        "pre": ("engine-silent",) if ek == "" else ("plain-silent",) if plain_key == "" else _first_difference(plain_key, ek),
                        "detail": "words differ: plain has %r where %s has %r | plain: %s | %s: %s" % (m_plain[:60], label, m_eng[:60], plain[:300], label, speech[:400])})
    if a["bookmarks"]:
        ids = mathml_ids(ids_xml)
        if st:
            st.count("bookmarks_checked", len(a["bookmarks"]))
            if cfg["prefs"].get("Bookmark") != "true":
                st.count("bookmarks_although_not_requested")
        bad = [b for b in a["bookmarks"] if b not in ids]
        if bad:
            cls = "empty-name" if all(b == "" for b in bad) else "not-an-id"
            out.append({"kind": "bookmark", "cls": "bookmark:%s:%s" % (label, cls), "engine": engine,
                        "detail": "bookmark name(s) %r are not ids of the expression (ids: %s) | %s" % (bad[:4], sorted(ids)[:12], speech[:300])})
    elif st and cfg["prefs"].get("Bookmark") == "true" and not ep:
        st.count("bookmark_requested_but_none_emitted")
    return out


def judge(cfg, tree, res, st=None, history=()):
    """all outputs of one case (one history in three sessions).  A call that fails in plain mode is not judged (C08's business); a call that
    fails only under an engine makes the rest of the walk inconclusive for that engine (the sessions may have diverged)."""
    out = []
    r0 = res["None"]
    if r0["set"]["r"] != "ok":
        if st:
            st.count("set_mathml_" + r0["set"]["r"])
        return out
    if st and r0["spoken"]["r"] == "ok" and re.search(r"<[A-Za-z/]", r0["spoken"]["v"]) and not any("<" in (n.text or "") for n, _ in tree.walk()):
        st.count("tags_in_plain_mode")
    mode = "read"
    modes = []
    for c in history:
        modes.append(mode)
        if c == "ToggleSpeakMode":
            mode = "overview" if mode == "read" else "read"
    seen = set()
    for engine in ENGINES:
        re_ = res[engine]
        if re_["set"]["r"] != "ok":
            if st:
                st.count("set_mathml_%s_under_%s" % (re_["set"]["r"], engine))
            continue
        calls = [("", "get_spoken_text", r0["spoken"], re_["spoken"]), ("overview", "get_overview_text", r0["overview"], re_["overview"])]
        calls += [("nav", c, a, b) for c, a, b in zip(history, r0["nav"], re_["nav"])]
        for k, (ep, name, rp, rr) in enumerate(calls):
            if rp["r"] != "ok":
                if st and engine == ENGINES[0]:
                    st.count("plain_%s_%s" % ("nav" if ep == "nav" else name, rp["r"]))
                    st.add("plain_speech_failures", "%s: %s" % ("navigation" if ep == "nav" else name, _failure_class(rp)))
                if rr["r"] == "ok" and ep == "nav":
                    if st:
                        st.count("nav_engine_ok_where_plain_failed")
                        st.inconclusive += 1
                    break
                continue
            if rr["r"] != "ok":
                if st:
                    st.count("engine_%s_%s_%s" % ("nav" if ep == "nav" else name, rr["r"], engine))
                    st.inconclusive += 1
                    st.add("engine_speech_failures", "%s %s: %s" % (engine, "navigation" if ep == "nav" else name, _failure_class(rr)))
                if ep == "nav":
                    break
                continue
            if st and ep == "nav":
                st.add("nav_commands_judged", "%s|%s-mode" % (re.sub(r"\d$", "N", name), modes[k - 2]))
            fs = judge_output(cfg, tree, engine, ep, rp["v"], rr["v"], re_["set"]["v"], st)
            for f in fs:
                if f["cls"] in seen:
                    continue
                seen.add(f["cls"])
                if ep == "nav":
                    f["detail"] = "after %s: %s" % (" ".join(history[:k - 1]), f["detail"])
                out.append(f)
            if fs and ep == "nav":
                break           # a walk stops at its first violation: from here on the sessions may stand on different nodes
    # observation only (not part of the statement): the two engines should pause at the same places for the same time
    if st and res["SSML"]["spoken"]["r"] == "ok" and res["SAPI5"]["spoken"]["r"] == "ok":
        p1 = re.findall(r"<break time='([^']*)'", res["SSML"]["spoken"]["v"])
        p2 = re.findall(r"<silence msec=+'([^']*?)(?:ms)?'", res["SAPI5"]["spoken"]["v"])
        if [x.replace("ms", "") for x in p1] != p2:
            st.count("observation_pause_sequences_differ_between_engines")
    return out


def signature(f, cfg, tree, cause=None, history=()):
    """structural signature: markup problems are identified by their class alone (engine/entry point, tag, attribute, problem class);
    word and bookmark problems by the shape of the (minimal) witness, the preferences that are off their defaults and, for navigation
    speech, the command at which it happened.  cause = input feature whose removal makes the problem disappear (see Diagnoser)."""
    if f["kind"] == "markup":
        return f["cls"] + ("|cause=" + cause if cause else "")
    # the command whose speech is wrong (the last one of the minimal history); the way there is in the witness, not in the signature
    nav = " | at " + re.sub(r"\d$", "N", history[-1]) if "/nav" in f["cls"] and history else ""
    return "%s | cause=%s | %s | %s%s" % (f["cls"], cause or "-", shrink.abstract_shape(tree), cfg_sig(cfg), nav)


def _odd_id(i):
    """ids that are not multi-character plain names: single characters, XML-special characters, white space"""
    return len(i) == 1 or re.search(r"""['"<&>\s\u00a0+]""", i) is not None


class Diagnoser:
    """Cheap causal classification of a violating case: which input feature, when removed, makes the violation class disappear?
       odd-id          some id is a single character or contains ' " < & > + or white space  -> all ids renamed to plain names
       markup-text     some token text of more than one character contains < & > ' "         -> these characters replaced by letters
       hostile-number  a numeric preference is zero/negative/tiny/huge/non-finite            -> those preferences set to ordinary values
       bookmark-pref   (word differences in navigation speech only) Bookmark=true             -> Bookmark=false
       optional-word   (word differences only) the rule files use optional words (ot:)       -> rule files with ot: turned into t:
    Used for pre-clustering and as part of the signature; evaluated lazily, at most three extra evaluations per violating case."""
    HOSTILE = ("zero", "negative", "le-minus-100", "huge", "tiny", "nan", "+inf", "-inf")
    SANE = {"Rate": "200", "MathRate": "120", "PauseFactor": "150", "Pitch": "20", "Volume": "50", "CapitalLetters_Pitch": "30"}

    def __init__(self, sess, cfg, tree, rules_dir=None, history=()):
        self.sess, self.cfg, self.tree, self.history = sess, cfg, tree, tuple(history)
        self.rules_dir = rules_dir           # the rules directory the session uses (None = shipped)
        self.cache = {}

    def _classes(self, name):
        if name in self.cache:
            return self.cache[name]
        cfg, tree = self.cfg, self.tree
        out = None
        if name == "odd-id":
            if any(_odd_id(n.attrs["id"]) for n, _ in tree.walk() if "id" in n.attrs):
                tree = tree.copy()
                k = 0
                for n, _ in tree.walk():
                    if "id" in n.attrs:
                        k += 1
                        n.attrs["id"] = "plain-id-%d" % k
                out = self._run(cfg, tree)
        elif name == "markup-text":
            # single-character tokens are spoken through the character tables ("<" -> "is less than"): only longer texts pass through raw
            def raw(n):
                return n.kids is None and n.text and (len(n.text) > 1 or n.text == "&") and re.search(r"""[<&>'"]""", n.text)
            if any(raw(n) for n, _ in tree.walk()):
                tree = tree.copy()
                for n, _ in tree.walk():
                    if raw(n):
                        n.text = re.sub(r"""[<&>'"]""", "z", n.text)
                out = self._run(cfg, tree)
        elif name == "hostile-number":
            bad = [k for k in NUMERIC if k in cfg["prefs"] and value_class(k, cfg["prefs"][k]) in self.HOSTILE]
            if bad:
                cfg = dict(cfg)
                cfg["prefs"] = dict(cfg["prefs"])
                for k in bad:
                    cfg["prefs"][k] = self.SANE[k]      # not the default: the tag must still be produced
                out = self._run(cfg, tree)
        elif name == "bookmark-pref":
            if cfg["prefs"].get("Bookmark") == "true":
                cfg = dict(cfg)
                cfg["prefs"] = dict(cfg["prefs"], Bookmark="false")
                out = self._run(cfg, tree)
        elif name == "optional-word":
            # same case under rule files without optional words: is the word difference made by the optional-word clean-up?
            try:
                s2 = Sess(noopt_rules(self.rules_dir), cfg["lang"], cfg["style"])
                try:
                    res = s2.evaluate(cfg, tree.xml(), self.history)
                    out = set(f["cls"] for f in judge(cfg, tree, res, None, self.history)) if res else None
                finally:
                    s2.close()
            except (core.Inconclusive, OSError):
                out = None
        self.cache[name] = out
        return out

    def _run(self, cfg, tree):
        res = self.sess.evaluate(cfg, tree.xml(), self.history)
        if res is None:
            return None
        return set(f["cls"] for f in judge(cfg, tree, res, None, self.history))

    def cause(self, cls):
        numeric = re.search(r":attr-value:[^:]+:(non-finite|negative-time|not-a-number|empty)$", cls) is not None
        names = ("hostile-number",) if numeric else ()
        m = re.match(r"markup:[^:]+:([a-z\-]+):([^:]+):", cls)
        kind, where = (m.group(1), m.group(2)) if m else ("", "")
        # a cause is only considered for classes it can produce (an automatic pause that comes and goes with the length of the text
        # must not make a defect of the pause tags look like a consequence of the text)
        if not m or kind in ("xml", "nesting") or where.split("@")[0] in ("mark", "bookmark"):
            names += ("odd-id",)
        if not m or kind == "xml" or where in ("#text", "*", "*@*"):
            names += ("markup-text",)
        if cls.startswith("words:"):
            names = ("bookmark-pref",) + names + ("optional-word",)
        for name in names:
            after = self._classes(name)
            if after is not None and cls not in after:
                return name
        return None


def witness_of(cfg, tree, history=()):
    w = {"cfg": cfg, "mathml": tree.xml()}
    if history:
        w["history"] = list(history)
    return w


def findings_to_violations(fs, cfg, tree, sess, rules_dir=None, history=()):
    diag = Diagnoser(sess, cfg, tree, rules_dir, history)
    return [core.violation(f["kind"], signature(f, cfg, tree, diag.cause(f["cls"]), history), witness_of(cfg, tree, history), f["detail"][:900]) for f in fs]


# ------------------------------------------------------------------------------------------------------------
# minimisation
# ------------------------------------------------------------------------------------------------------------
def minimise(cfg, tree, cls, probe_dir, history=(), budget=260):
    """shrink the expression, the command history, the token texts, then move the configuration towards the defaults; the violation
    class stays the same.  returns (cfg, tree, history)"""
    def fails_with(c, sess, h):
        def pred(t):
            res = sess.evaluate(c, t.xml(), h)
            return res is not None and any(f["cls"] == cls for f in judge(c, t, res, None, h))
        return pred

    history = tuple(history)
    sess = Sess(rules_dir_for(cfg, probe_dir), cfg["lang"], cfg["style"])
    try:
        if history and "/nav" not in cls and fails_with(cfg, sess, ())(tree):
            history = ()                            # get_spoken_text / get_overview_text do not need the walk
        if history:
            # cut the walk after the first failing step, then drop the commands that are not needed
            for n in range(1, len(history)):
                if fails_with(cfg, sess, history[:n])(tree):
                    history = history[:n]
                    break
        pred = fails_with(cfg, sess, history)
        small = shrink.shrink_tree(tree, pred, budget=budget if not history else budget // 2, leaf_factory=lambda: [gen.mi("x")])
        if history:
            history = tuple(shrink.shrink_list(list(history), lambda h: fails_with(cfg, sess, tuple(h))(small), budget=40))
            pred = fails_with(cfg, sess, history)
        # shorten token texts (the generic shrinker only replaces whole tokens)
        calls = 0
        changed = True
        while changed and calls < 80:
            changed = False
            for node, path in list(small.walk()):
                if node.kids is None and node.text and len(node.text) > 1 and path:
                    for i in range(len(node.text)):
                        n2 = node.copy()
                        n2.text = node.text[:i] + node.text[i + 1:]
                        cand = shrink._replace_at(small, path, n2)
                        calls += 1
                        if pred(cand):
                            small, changed = cand, True
                            break
                    if changed:
                        break
        # drop ids that are not needed
        for node, path in list(small.walk()):
            if "id" in node.attrs and path:
                n2 = node.copy()
                del n2.attrs["id"]
                cand = shrink._replace_at(small, path, n2)
                if pred(cand):
                    small = cand
        # preferences back to their defaults, one at a time
        for k in sorted(cfg["prefs"]):
            if cfg["prefs"][k] != DEFAULTS.get(k):
                trial = dict(cfg)
                trial["prefs"] = dict(cfg["prefs"])
                trial["prefs"][k] = DEFAULTS[k]
                if fails_with(trial, sess, history)(small):
                    cfg = trial
    finally:
        sess.close()
    # shipped rules, English, ClearSpeak if the violation does not need anything else
    for key, val in (("rules", "shipped"), ("style", "ClearSpeak"), ("lang", "en")):
        if cfg[key] == val:
            continue
        trial = dict(cfg)
        trial[key] = val
        if key == "rules" and trial["style"] == PROBE_STYLE:
            trial["style"] = "ClearSpeak"
        if trial["style"] not in configs.styles(trial["lang"]) + ([PROBE_STYLE] if trial["rules"] == "probe" else []):
            continue
        s2 = Sess(rules_dir_for(trial, probe_dir), trial["lang"], trial["style"])
        try:
            if fails_with(trial, s2, history)(small):
                cfg = trial
        except core.Inconclusive:
            pass
        finally:
            s2.close()
    return cfg, small, history


# ------------------------------------------------------------------------------------------------------------
# shard
# ------------------------------------------------------------------------------------------------------------
def shard(spec):
    st = core.Stats()
    rng = random.Random(spec["seed"])
    deadline = time.time() + spec["time_budget"]
    opened, _ = core.load_findings(PROP)
    seen_pre = {}
    shrinks = 0
    sampled_walk = False
    for group in spec["groups"]:
        rules, lang, style = group["rules"], group["lang"], group["style"]
        sess = Sess(spec["probe_dir"] if rules == "probe" else None, lang, style)
        try:
            decimal = sess.decimal_mark()
            for ci in range(group["configs"]):
                if time.time() > deadline:
                    st.count("stopped_by_time_budget")
                    break
                cfg = random_cfg(rng, rules, lang, style, spec["hostile_p"])
                st.add("configurations", "%s/%s/%s" % (rules, lang, style))
                for k, v in cfg["prefs"].items():
                    st.add("preference_value_classes", "%s=%s" % (k, value_class(k, v)))
                for ei in range(group["exprs"]):
                    walk = rng.random() < spec["walk_p"]
                    tb = gen.Textbook(rng, decimal=decimal, max_depth=rng.choice([1, 2, 2, 3] if walk else [1, 2, 3, 3, 4]))
                    tree, _ = tb.expression()
                    decorate(rng, tree, cfg, random_feats(rng, spec["hostile_p"], 0.75 if walk else spec["specials_p"]))
                    history = tuple(random_history(rng)) if walk else ()
                    res = sess.evaluate(cfg, tree.xml(), history)
                    if res is None:
                        st.inconclusive += 1
                        st.count("driver_died_or_timed_out")
                        continue
                    st.count("cases_with_walk" if walk else "cases_without_walk")
                    for name, err in res["pref_errors"]:
                        st.count("set_preference_rejected_" + name)
                    fs = judge(cfg, tree, res, st, history)
                    ok = lambda tts, k: res[tts][k]["r"] == "ok"
                    if ci == 0 and ei == 0 and ok("SSML", "spoken") and ok("None", "spoken"):
                        st.sample({"config": cfg_sig(cfg), "mathml": tree.xml()[:500], "plain": res["None"]["spoken"]["v"][:300],
                                   "SSML": res["SSML"]["spoken"]["v"][:500], "SAPI5": (res["SAPI5"]["spoken"].get("v") or "")[:500]}, limit=2)
                    if walk and not sampled_walk and all(r["r"] == "ok" for r in res["SSML"]["nav"]) and any("&" in (r.get("v") or "") for r in res["SSML"]["nav"]):
                        sampled_walk = True
                        st.samples.append({"config": cfg_sig(cfg), "mathml": tree.xml()[:400], "history": list(history),
                                           "overview_SSML": (res["SSML"]["overview"].get("v") or "")[:200],
                                           "nav_plain": [r.get("v", "")[:80] for r in res["None"]["nav"]][:8],
                                           "nav_SSML": [r.get("v", "")[:120] for r in res["SSML"]["nav"]][:8]})
                    rdir = rules_dir_for(cfg, spec["probe_dir"])
                    diag = Diagnoser(sess, cfg, tree, rdir, history) if fs else None
                    for f in fs:
                        st.count("raw_" + f["cls"][:90])
                        cause = diag.cause(f["cls"])
                        if cause:
                            st.count("cause_" + cause)
                        pre = (f["cls"], cause)
                        if f["kind"] != "markup" and cause is None:
                            pre = pre + tuple(f.get("pre", ()))
                        if pre in seen_pre:
                            seen_pre[pre]["count"] += 1
                            continue
                        v0 = core.violation(f["kind"], signature(f, cfg, tree, cause, history), witness_of(cfg, tree, history), f["detail"][:900])
                        v0["count"] = 1
                        if core.match_finding(v0, [o for o in opened if not o.get("predicate")]) is not None:
                            # the finding is listed and its signature pattern holds already for the unshrunk witness: count, do not shrink again
                            seen_pre[pre] = v0
                            st.violations.append(v0)
                            continue
                        if shrinks >= spec["max_shrinks"] or time.time() > deadline + 30:
                            seen_pre[pre] = v0
                            st.violations.append(v0)
                            st.count("violations_reported_unshrunk")
                            continue
                        shrinks += 1
                        v = None
                        try:
                            mcfg, small, mhist = minimise(cfg, tree, f["cls"], spec["probe_dir"], history)
                            mdir = rules_dir_for(mcfg, spec["probe_dir"])
                            s3 = Sess(mdir, mcfg["lang"], mcfg["style"])
                            try:
                                r3 = s3.evaluate(mcfg, small.xml(), mhist)
                                f3 = [x for x in (judge(mcfg, small, r3, None, mhist) if r3 else []) if x["cls"] == f["cls"]]
                                if f3:
                                    v = findings_to_violations(f3[:1], mcfg, small, s3, mdir, mhist)[0]
                            finally:
                                s3.close()
                        except core.Inconclusive:
                            pass
                        if v is None:
                            st.count("not_reproduced_in_fresh_session")
                            v = v0
                        v["count"] = 1
                        seen_pre[pre] = v
                        st.violations.append(v)
            for k in sess.rule_hits():
                t = k.split("|")
                if t[0] in ("Speech", "OverView", "Navigation"):
                    st.add("rules_fired_" + t[0].lower(), "%s|%s|%s" % (t[1].split("/Rules/")[-1].split("/rules-")[-1], t[2], t[3]))
        finally:
            sess.close()
    drop_noopt_rules()
    return st.to_dict()


def _with_probe(cfg, fn):
    probe = None
    try:
        if cfg["rules"] == "probe":
            probe = make_probe_rules("replay-%d" % os.getpid())
        return fn(probe)
    finally:
        if probe:
            shutil.rmtree(probe, ignore_errors=True)
        _rmdir_mywork()


# ------------------------------------------------------------------------------------------------------------
# replay, run
# ------------------------------------------------------------------------------------------------------------
def replay(witness):
    cfg = witness["cfg"]
    cfg = dict(cfg)
    cfg["prefs"] = dict(DEFAULTS, **cfg["prefs"])       # witnesses written before a preference dimension existed
    tree = gen.from_xml(witness["mathml"])
    history = tuple(witness.get("history") or ())

    def go(probe):
        s = Sess(rules_dir_for(cfg, probe), cfg["lang"], cfg["style"])
        try:
            res = s.evaluate(cfg, tree.xml(), history)
            if res is None:
                return []
            return findings_to_violations(judge(cfg, tree, res, None, history), cfg, tree, s, rules_dir_for(cfg, probe), history)
        finally:
            s.close()
            drop_noopt_rules()
    return _with_probe(cfg, go)


def plan(rng, tier):
    """groups of (rules, language, style) with the number of configurations and expressions per configuration"""
    quick = tier == "quick"
    groups = []
    langs = configs.languages()
    for lang in langs:
        for style in configs.styles(lang):
            weight = 4 if lang == "en" else 1
            for _ in range(weight * (3 if quick else 12)):
                groups.append({"rules": "shipped", "lang": lang, "style": style, "configs": 12 if quick else 50, "exprs": 10 if quick else 30})
    for _ in range(24 if quick else 96):
        groups.append({"rules": "probe", "lang": "en", "style": PROBE_STYLE, "configs": 12 if quick else 50, "exprs": 10 if quick else 30})
    rng.shuffle(groups)
    return groups


def run(tier, seed):
    t0 = time.time()
    core.build_driver("native")
    rng = random.Random(core.sub_seed(seed, PROP))
    probe_dir = make_probe_rules("run-%d" % os.getpid())
    try:
        groups = plan(rng, tier)
        nsh = core.NPROC
        budget = 55 if tier == "quick" else 1300
        specs = [{"seed": core.sub_seed(seed, PROP, i), "groups": groups[i::nsh], "probe_dir": probe_dir, "time_budget": budget,
                  "hostile_p": 0.06, "specials_p": 0.3, "walk_p": 0.3, "max_shrinks": 14 if tier == "quick" else 40} for i in range(nsh)]
        results = core.run_shards(shard, specs)
        stats, errors = core.Stats.merge(results)
        known, fixed_failures, extra_v = core.replay_findings(PROP, replay)
        stats.violations.extend(extra_v)
    finally:
        shutil.rmtree(probe_dir, ignore_errors=True)
        try:
            os.rmdir(MYWORK)
        except OSError:
            pass
    return core.conclude(
        PROP, tier, seed, "exploration", stats, {"groups_planned": len(groups)},
        ["the plain-mode reference is produced with TTS explicitly set to \"None\" (the rule files test $TTS='none', the API default, and would otherwise speak letters differently)",
         "value grammars accept the union of SSML 1.0/1.1 readings (sign optional, unit letters case-insensitive); documented value ranges are only counted (remark_* counters)",
         "words are compared with pause punctuation (, ;) and all white space removed on both sides; XML character references in engine output are decoded first",
         "a call that fails in plain mode is counted and not judged (C08/C11 judge failures); a call that fails only under an engine makes the rest of that walk inconclusive",
         "every speech-producing entry point is judged: get_spoken_text, get_overview_text, the speech of every navigation command in read and overview speak mode",
         "the C13Probe speech style (private copy of Rules/) adds rules using volume/voice/gender/audio/pronounce/nested commands; rule files are an input of the library"],
        t0,
        rule="random textbook expressions decorated with capital/Greek/chemistry-like identifiers, letter indices, author ids and tokens (mtext, mi, ms, mo, mn) "
             "containing < > & ' \" alone and inside words; three sessions get the same history (preferences, set_mathml, get_spoken_text, get_overview_text and for "
             "30% of the cases a random walk of navigation commands incl. ToggleSpeakMode) and differ only in TTS=None/SSML/SAPI5; random Rate/MathRate/PauseFactor/"
             "Pitch/Volume/CapitalLetters_*/Bookmark/Verbosity/NavMode/NavVerbosity preferences (6% hostile values) for every shipped language x style and the probe "
             "style; an evaluation is one engine output (spoken text, overview text or the speech of one navigation command) judged against the plain-mode output of "
             "the same call; non-trivial = the engine output contained at least one tag; distinct by (expression shape, configuration classes, engine/entry point)",
        min_nontrivial=1500 if tier == "quick" else 20000, harness_errors=errors, known_replayed=known, fixed_failures=fixed_failures)
