"""Shared by C05 and C15: the `chars` workload (characters of a language's Unicode tables, characters in no table) and the
alphabet oracle for speech strings.

The workload side reads the shipped tables (so that it follows the code base); the oracle side is written from the property
statement only: which code points may never reach a caller of the speech functions."""
import os
import re
import unicodedata

from . import core

# ---------------------------------------------------------------------------------------------------------------------
# oracle: the alphabet of clean speech
# ---------------------------------------------------------------------------------------------------------------------
INVISIBLE_OPS = "\u2061\u2062\u2063\u2064"
TAG_RX = re.compile(r"</?[A-Za-z][^<>]*>")          # anything shaped like an SSML / SAPI5 / XML tag
# an XML character or entity reference: with no speech engine selected the output is plain text, so a reference in it is markup
# (the five predefined names and numeric references: what an XML serialiser produces; '&b;' is an ampersand, a letter and a pause)
ENTITY_RX = re.compile(r"&(#[0-9]+|#[xX][0-9A-Fa-f]+|lt|gt|amp|apos|quot);")
ENTITY_START_RX = re.compile(r"&(#|lt|gt|amp|apos|quot)")
TAG_START_RX = re.compile(r"<[A-Za-z/!?][^<]*>", re.S)
ENGINE_NAMES = ("ssml", "sapi5")
PAUSE_PUNCT = ",;."


def no_engine(tts):
    """is this value of the TTS preference 'no speech engine'?  Documented: none (any spelling); an unknown name selects no engine either"""
    return str(tts).lower() not in ENGINE_NAMES


def passed_through(text):
    """what a token text looks like once NBSP and the invisible characters are handled the documented way (used to decide whether an INPUT
    could reproduce a tag- or reference-shaped string by plain pass-through)"""
    return "".join(" " if c == "\u00a0" else c for c in text if c not in INVISIBLE_OPS and c not in "\u200b\u200c\u200d\u2060\ufeff")
# rule-internal words that are outside the statement of C05 (counted, never judged)
INTERNAL_WORDS_RX = re.compile(r"TEMP[_ ]NAME|NAV_NODE_NOT_FOUND|\bUnknown\b")


def is_private_use(ch):
    o = ord(ch)
    return 0xE000 <= o <= 0xF8FF or o >= 0xF0000


def squeezed(text):
    """pass-through as the number rules do it: blanks and digit-block separators are deleted"""
    return "".join(c for c in passed_through(text) if not c.isspace() and c not in ",.`\u202f\u2009")


def _markup_shaped(t):
    return TAG_START_RX.search(t) is not None or ENTITY_START_RX.search(t) is not None or "[[" in t or "]]" in t


def has_forbidden_input(text):
    """True when a generated token text leaves the quantifier of C05 (the statement is about what the LIBRARY adds): private-use characters,
    the navigation brackets, or text that is itself shaped like a tag or a character/entity reference (pass-through would reproduce it).
    The XML special characters themselves (< > & ' ") are welcome."""
    t = passed_through(text)
    # (navigation speech such as WhereAmIAll speaks a node once per ancestor: the text can follow itself, '><l' ... '><l' contains '<l ... >')
    return any(is_private_use(c) for c in text) or _markup_shaped(t + " ; " + t) or _markup_shaped(squeezed(text) * 2)


def could_pass_through_markup(texts):
    """expression level: could the token texts, passed through in order with words and pauses in between, form a tag- or reference-shaped
    string?  ('<' directly followed by a name character in one token and a '>' in the same or a later one; the start of a reference)"""
    texts = list(texts) * 2        # navigation speech can speak the same nodes twice (once per ancestor)
    return _markup_shaped(" ".join(passed_through(t) for t in texts)) or _markup_shaped(" ".join(squeezed(t) for t in texts))


def strip_tags(s):
    return TAG_RX.sub(" ", s)


def scan(s, tts):
    """problems of one returned speech string: list of (kind, leak) with leak = what was found, e.g. 'U+F8FE'.
    tts: 'None' (the string must be plain text) or an engine name (markup allowed, markers are not)."""
    out = []
    pua = sorted(set(c for c in s if is_private_use(c)))
    if pua:
        out.append(("private-use", "+".join("U+%04X" % ord(c) for c in pua[:4])))
    if "[[" in s or "]]" in s:
        out.append(("nav-bracket", "[[" if "[[" in s else "]]"))
    inv = sorted(set(c for c in s if c in INVISIBLE_OPS))
    if inv:
        out.append(("invisible-operator", "+".join("U+%04X" % ord(c) for c in inv)))
    if no_engine(tts):
        m = TAG_RX.search(s)
        if m:
            name = re.match(r"</?([A-Za-z][A-Za-z0-9:_-]*)", m.group(0)).group(1)
            out.append(("markup", "<%s>" % name.lower()))
        m = ENTITY_RX.search(s)
        if m:
            out.append(("markup", "&%s;" % ("#" if m.group(1).startswith("#") else m.group(1).lower())))
    return out


def is_empty_speech(s, tts):
    """no word and no pause punctuation at all"""
    if not no_engine(tts):
        s = strip_tags(s)
    return s.strip() == ""


def is_pause_only(s, tts):
    if not no_engine(tts):
        s = strip_tags(s)
    t = s.strip()
    return t != "" and all(c in PAUSE_PUNCT or c.isspace() for c in t)


# ---------------------------------------------------------------------------------------------------------------------
# workload: characters of the shipped tables
# ---------------------------------------------------------------------------------------------------------------------
_KEY_RX = re.compile(r'^\s{0,3}-\s*(?:"((?:\\.|[^"\\])*)"|\'((?:[^\']|\'\')*)\'|([^\s:#"\'][^:#]*?))\s*:')
_ESC_RX = re.compile(r'\\(x[0-9A-Fa-f]{2}|u[0-9A-Fa-f]{4}|U[0-9A-Fa-f]{8}|.)')
_SIMPLE_ESC = {"n": "\n", "t": "\t", "r": "\r", "0": "\0", "\\": "\\", '"': '"', "/": "/", " ": " ", "_": "\u00a0", "e": "\x1b",
               "a": "\a", "b": "\b", "f": "\f", "v": "\v", "N": "\u0085", "L": "\u2028", "P": "\u2029"}


def _unescape(s):
    def rep(m):
        g = m.group(1)
        if g[0] in "xuU" and len(g) > 1:
            return chr(int(g[1:], 16))
        return _SIMPLE_ESC.get(g, g)
    return _ESC_RX.sub(rep, s)


def key_chars(key):
    """characters a table key stands for: a single character, a range 'a-z', a set 'abc', or '0xHHHH'"""
    if not key:
        return []
    if len(key) == 1:
        return [key]
    if "-" in key:
        parts = key.split("-")
        if len(parts) == 2 and parts[0] and parts[1]:
            a, b = ord(parts[0][0]), ord(parts[1][0])
            if a <= b and b - a < 5000:
                return [chr(c) for c in range(a, b + 1)]
        return []
    if key[0] == "0":
        m = re.fullmatch(r"0[xX]([0-9A-Fa-f]{1,6})", key)
        if m:
            return [chr(int(m.group(1), 16))]
        return []
    return list(key)


def file_chars(path):
    """every character defined in one unicode*.yaml file (includes are followed)"""
    out = []
    if not os.path.exists(path):
        return out
    with open(path, encoding="utf-8") as f:
        for line in f:
            m = _KEY_RX.match(line)
            if not m:
                continue
            if m.group(1) is not None:
                key = _unescape(m.group(1))
            elif m.group(2) is not None:
                key = m.group(2).replace("''", "'")
            else:
                key = m.group(3).strip()
                if key == "include":
                    inc = re.search(r'include\s*:\s*"([^"]+)"', line)
                    if inc:
                        out.extend(file_chars(os.path.normpath(os.path.join(os.path.dirname(path), inc.group(1)))))
                    continue
            out.extend(key_chars(key))
    return out


def lang_dir(lang, rules=None):
    return os.path.join(rules or core.RULES, "Languages", *lang.split("-"))


def table_chars(lang, rules=None):
    """{'short': [...], 'full': [...]} characters of the language's unicode.yaml / unicode-full.yaml (region files first, then the
    language's own), duplicates removed, order of the files kept"""
    parts = lang.split("-")
    base = os.path.join(rules or core.RULES, "Languages", parts[0])
    dirs = [base]
    if len(parts) > 1:
        dirs.insert(0, os.path.join(base, parts[1]))
    res = {}
    for which, name in (("short", "unicode.yaml"), ("full", "unicode-full.yaml")):
        seen, chars = set(), []
        for d in dirs:
            for c in file_chars(os.path.join(d, name)):
                if c not in seen:
                    seen.add(c)
                    chars.append(c)
        res[which] = chars
    return res


def xml_ok(ch):
    """may the character be written in an XML 1.0 document (as itself)?"""
    o = ord(ch)
    if o in (0x9, 0xA, 0xD):
        return True
    if o < 0x20 or 0xD800 <= o <= 0xDFFF or o in (0xFFFE, 0xFFFF):
        return False
    return True


def usable(ch):
    """inside the quantifier of C05 as a single-character token: an XML character that is not private use.  (A lone '<' is allowed:
    the markup oracle looks for '<' directly followed by a name and closed by '>', which a single passed-through character cannot form.)"""
    return xml_ok(ch) and not is_private_use(ch)


def outside_chars(known, rng=None, n_random=120):
    """characters that are in no table of the language: CJK, kana, hangul, emoji, unassigned code points, combining marks, other scripts,
    format characters, plus a seeded random sample of the whole code space"""
    fixed = []
    fixed += [chr(c) for c in range(0x4E00, 0x4E20)] + list("数学函数積分微分和差")            # CJK
    fixed += list("あいうアイウ한글") + [chr(c) for c in range(0x3040, 0x3050)]
    fixed += [chr(c) for c in (0x1F600, 0x1F4A9, 0x1F680, 0x2764, 0x1F44D, 0x1F3FD, 0x1F1FA, 0x1F9EE, 0x2B50, 0x1FAE0)]      # emoji
    fixed += [chr(c) for c in (0x0378, 0x0530, 0x0590, 0x05FF, 0x1AFF, 0x2065, 0x2FE0, 0x1D455, 0x1D7CC, 0x1FFFD, 0x2FFFD, 0xE0080, 0xEFFFD, 0x10FFF, 0xFDD0)]   # unassigned / nonchar
    fixed += [chr(c) for c in list(range(0x0300, 0x0370, 3)) + [0x20D0, 0x20D7, 0x20E1, 0xFE00, 0xFE0F, 0x200D, 0x200C, 0x200B, 0x2060, 0xFEFF, 0x00AD, 0x180E]]  # combining / format
    fixed += list("ЖжЩאבجدहিကᄀአᚠᠠ") + [chr(c) for c in (0x0E01, 0x10A0, 0x13A0, 0x1680, 0xA000, 0x10000, 0x10330, 0x12000, 0x1D100, 0x1D2E0, 0x1EE00, 0x1F000, 0x20000, 0x2A700)]
    fixed += [chr(c) for c in (0x2028, 0x2029, 0x0085, 0x202E, 0x2066, 0xFFFC, 0xFFFD, 0x00A0, 0x2007, 0x202F, 0x3000, 0x2000, 0x2009, 0x205F)]             # separators / blanks
    fixed += [chr(c) for c in (0xFF21, 0xFF41, 0xFF10, 0xFF0B, 0xFF1D, 0x00AA, 0x00DF, 0x0131, 0x0237, 0x01C4, 0xFB01, 0x2160, 0x2460, 0x3251, 0x1F100)]        # compatibility letters / digits
    out, seen = [], set()
    for c in fixed:
        if c not in known and c not in seen and usable(c):
            seen.add(c)
            out.append(c)
    if rng is not None:
        tries = 0
        while n_random > 0 and tries < 20000:
            tries += 1
            r = rng.random()
            o = rng.randrange(0x80, 0x3000) if r < 0.5 else rng.randrange(0x3000, 0x20000) if r < 0.85 else rng.randrange(0x20000, 0xF0000)
            c = chr(o)
            if c in known or c in seen or not usable(c):
                continue
            seen.add(c)
            out.append(c)
            n_random -= 1
    return out


def char_class(ch):
    """coarse class used in evidence counters"""
    cat = unicodedata.category(ch)
    if cat == "Cn":
        return "unassigned"
    if cat[0] == "M":
        return "combining"
    if cat == "Cf":
        return "format"
    if cat[0] == "Z" or ch.isspace():
        return "blank"
    if cat[0] == "L":
        return "letter"
    if cat[0] == "N":
        return "number"
    if cat[0] == "S":
        return "symbol"
    if cat[0] == "P":
        return "punctuation"
    return cat
