"""C03 — row structure follows the operator dictionary.
Layer 1: invariant validator applied to every mrow of every returned MathML (priorities read from operator-info.in by opdict).
Layer 2: reference precedence parser on the restricted grammar of the statement (plain variables, numbers, dictionary
infix/prefix/postfix operators, parentheses); MathCAT's bracketing must equal the reference parse after collapsing nested rows of
equal principal priority (the dictionary does not define associativity between different operators of one priority)."""
import os
import random
import re
import time
import xml.etree.ElementTree as ET

from . import core, gen, mml, opdict, shrink

PROP = "C03"
INVISIBLE_TIMES = "⁢"
VARS = list("abcdkmstuvwxyz")            # no n, p: neutron/proton are chemistry to MathCAT (documented exclusion)            # not in FunctionNames / LikelyFunctionNames (checked at run time, see usable_vars)
# excluded from the reference parse (documented heuristics): vertical bars, ratio/colon, separators that take part in number folding,
# pseudo-script characters, white space, and the invisible operators themselves
PSEUDO = set("\"'*`ª°²³´¹º‘’“”„‟′″‴‵‶‷⁗")
EXCLUDE_CHARS = set("|‖∥:∶∷,.;'  _\\") | PSEUDO | set("⁡⁢⁣⁤")
EXCLUDE_CHARS |= set("~\u02dc\u02c9\u00af\u01c1\u0304\u0305")   # rewritten to another character by the documented accent/bar normalisation


def load_dict():
    d = opdict.load()
    out = {}
    for text, forms in d.items():
        f = {}
        for form, prio in forms:
            f.setdefault(form, prio)
        out[text] = f
    return out


def usable_ops(d):
    """single-character operators with one priority per form, usable in the restricted grammar"""
    infix, prefix, postfix = {}, {}, {}
    for text, forms in d.items():
        if len(text) != 1 or text in EXCLUDE_CHARS or text.isalnum() or text.isspace():
            continue
        if "LEFT_FENCE" in forms or "RIGHT_FENCE" in forms:
            continue
        cp = ord(text)
        if 0x2061 <= cp <= 0x2064 or 0x300 <= cp <= 0x36f or 0x20d0 <= cp <= 0x20ff or cp in (0x2212,):
            continue            # combining marks; U+2212 is normalised to '-' (kept via '-')
        # an operator that is both infix and postfix has no unique reading in front of a prefix operator ("a ^ - b"): the statement's
        # "unique parse" exists only where position decides the form, so such operators are left out of the reference grammar
        if "INFIX" in forms and "POSTFIX" not in forms:
            infix[text] = forms["INFIX"]
        if "PREFIX" in forms:
            prefix[text] = forms["PREFIX"]
        if "POSTFIX" in forms and "INFIX" not in forms:
            postfix[text] = forms["POSTFIX"]
    return infix, prefix, postfix


def usable_vars():
    """variables that MathCAT does not treat as function names (read from the shipped definitions, so the workload follows the tree)"""
    path = os.path.join(core.RULES, "definitions.yaml")
    text = open(path, encoding="utf-8").read()
    names = set(re.findall(r'"([A-Za-z]{1,3})"', text))
    ok = [v for v in VARS if v not in names]
    # two adjacent letters must not spell a known name either ("t r" is merged into the function name "tr")
    ok = [v for v in ok if not any((v + w) in names or (w + v) in names for w in ok)]
    return ok or ["x", "y", "z"]


# ---------------------------------------------------------------------------------------------
# restricted grammar: token list -> reference tree
# ---------------------------------------------------------------------------------------------
class Gen:
    def __init__(self, rng, d, ops, variables):
        self.rng = rng
        self.d = d
        self.infix, self.prefix, self.postfix = ops
        self.vars = variables
        self.infix_list = sorted(self.infix)
        self.prefix_list = sorted(self.prefix)
        self.postfix_list = sorted(self.postfix)
        self.common_infix = [o for o in "+-=<>×⋅÷/±∈→≤≥≠∧∨∩∪⊂⊆∘⊕⊗≡≈∼∝" if o in self.infix]

    def operand(self, depth):
        r = self.rng
        k = r.random()
        if depth < 2 and k < 0.18:
            return [("(", "open")] + self.row(depth + 1, r.randint(1, 3)) + [(")", "close")]
        if k < 0.6:
            return [(r.choice(self.vars), "var")]
        return [(str(r.randint(2, 97)), "num")]

    def term(self, depth):
        """operand with optional prefix / postfix operators"""
        r = self.rng
        toks = self.operand(depth)
        if r.random() < 0.12:
            toks = toks + [(r.choice(self.postfix_list if r.random() < 0.5 else ["!"]), "postfix")]
        if r.random() < 0.15:
            toks = [(r.choice(self.prefix_list if r.random() < 0.5 else ["-", "+", "¬"]), "prefix")] + toks
        return toks

    def row(self, depth, n):
        r = self.rng
        toks = self.term(depth)
        for _ in range(n - 1):
            nxt = self.term(depth)
            k = r.random()
            if k < 0.12 and self.adjacent_ok(toks[-1], nxt[0]) and not (len(toks) >= 2 and toks[-1][1] == "var" and toks[-2][1] == "var"):
                toks += nxt                      # implied multiplication (never three letters in a row: those are merged into a word by a documented heuristic)
                continue
            op = r.choice(self.common_infix) if r.random() < 0.6 else r.choice(self.infix_list)
            # an operator that also has a prefix form must not follow an operator; one with a postfix form must not precede one:
            # keep the reading unambiguous by construction (position decides the form exactly as the dictionary says)
            toks += [(op, "infix")] + nxt
        return toks

    @staticmethod
    def adjacent_ok(left, right):
        return (left[1], right[1]) in (("num", "var"), ("var", "var"), ("close", "var"), ("num", "open"), ("close", "open"))


def reference_parse(tokens, d):
    """Pratt parser over (text, kind) tokens.  Returns nested lists; leaves are token texts.  Rows:
    infix n-ary [a, op, b, op, c], prefix [op, a], postfix [a, op], fenced ['(', X, ')'] (X absent for '()')."""
    pos = [0]

    def peek():
        return tokens[pos[0]] if pos[0] < len(tokens) else None

    def prio(tok):
        text, kind = tok
        if kind == "infix":
            return d[text]["INFIX"]
        if kind == "postfix":
            return d[text]["POSTFIX"]
        if kind == "prefix":
            return d[text]["PREFIX"]
        return None

    def primary():
        t = peek()
        pos[0] += 1
        if t[1] == "open":
            if peek() and peek()[1] == "close":
                pos[0] += 1
                return ["(", ")"]
            inner = expr(0)
            assert peek() and peek()[1] == "close"
            pos[0] += 1
            return ["(", inner, ")"]
        if t[1] == "prefix":
            p = prio(t)
            operand = expr(p, prefix=True)
            return [t[0], operand]
        return t[0]

    def expr(min_p, prefix=False):
        left = primary()
        while True:
            t = peek()
            if t is None or t[1] == "close":
                break
            if t[1] == "postfix":
                p = prio(t)
                if p < min_p:
                    break
                pos[0] += 1
                left = attach_postfix(left, t[0], p)
                continue
            if t[1] == "infix":
                p = prio(t)
                op = t[0]
                consume = 1
            else:
                p = d[INVISIBLE_TIMES]["INFIX"]
                op = INVISIBLE_TIMES
                consume = 0
            if p < min_p:
                break
            pos[0] += consume
            right = expr(p)
            left = [left, op, right]
        return left

    def attach_postfix(left, op, p):
        """a postfix operator takes the last operand whose own binding is tighter than p"""
        if isinstance(left, list) and len(left) == 3 and left[0] != "(" and isinstance(left[1], str) and left[1] in d and "INFIX" in d[left[1]] and d[left[1]]["INFIX"] < p:
            return [left[0], left[1], attach_postfix(left[2], op, p)]
        if isinstance(left, list) and len(left) == 2 and left[0] != "(" and isinstance(left[0], str) and left[0] in d and "PREFIX" in d[left[0]] and d[left[0]]["PREFIX"] < p:
            return [left[0], attach_postfix(left[1], op, p)]
        return [left, op]

    tree = expr(0)
    assert pos[0] == len(tokens), "reference parser did not consume all tokens"
    return tree


def principal(node, d):
    """(kind, priority) of a row: infix / prefix / postfix / fenced / None"""
    if not isinstance(node, list):
        return None, None
    if node and node[0] == "(":
        return "fenced", None
    if len(node) == 2:
        first_is_op = isinstance(node[0], str) and node[0] in d
        if isinstance(node[1], str) and node[1] in d and "POSTFIX" in d[node[1]] and not first_is_op:
            return "postfix", d[node[1]]["POSTFIX"]
        if first_is_op and "PREFIX" in d[node[0]]:
            return "prefix", d[node[0]]["PREFIX"]
        return None, None
    if len(node) >= 3 and len(node) % 2 == 1:
        ops = node[1::2]
        if all(isinstance(o, str) and o in d and "INFIX" in d[o] for o in ops):
            return "infix", d[ops[0]]["INFIX"]
    return None, None


def collapse(node, d):
    """splice operand rows whose principal infix priority equals the parent's (associativity between different operators of one
    priority is not defined by the dictionary)"""
    if not isinstance(node, list):
        return node
    kids = [collapse(k, d) for k in node]
    kind, p = principal(kids, d)
    if kind != "infix":
        return kids
    out = []
    for i, k in enumerate(kids):
        if i % 2 == 0 and isinstance(k, list):
            kk, kp = principal(k, d)
            if kk == "infix" and kp == p:
                out.extend(k)
                continue
        out.append(k)
    return out


def tokens_to_tree(tokens, force_prefix_form=False):
    kids = []
    for i, (text, kind) in enumerate(tokens):
        if kind == "var":
            kids.append(gen.mi(text))
        elif kind == "num":
            kids.append(gen.mn(text))
        else:
            m = gen.mo(text)
            if force_prefix_form and kind == "prefix" and i + 1 < len(tokens) and tokens[i + 1][1] == "open":
                m.attrs["form"] = "prefix"
            kids.append(m)
    return kids


def has_prefix_before_open(tokens):
    return any(t[1] == "prefix" and i + 1 < len(tokens) and tokens[i + 1][1] == "open" for i, t in enumerate(tokens))


KNOWN_POSITION_SIG = "parse-differs | prefix operator directly before an open fence is typed by position, not by the dictionary"


def out_tree(e):
    """nested lists from returned MathML (mrow -> list, token -> text); U+2212 is MathCAT's '-'"""
    t = mml.local(e.tag)
    if t in ("mi", "mn", "mo", "mtext"):
        return (e.text or "")
    kids = [out_tree(k) for k in e]
    if t in ("math",):
        return kids[0] if len(kids) == 1 else kids
    if t == "mrow":
        return kids
    return [t] + kids          # a 2-D element would show up as a foreign node (never produced from the restricted grammar)


def norm_minus(node):
    if isinstance(node, list):
        return [norm_minus(k) for k in node]
    return node.replace("−", "-")


# ---------------------------------------------------------------------------------------------
# layer 1: invariants on every row
# ---------------------------------------------------------------------------------------------
def base_of(e):
    """embellished operator: the mo at the base of scripts/under-over"""
    while mml.local(e.tag) in ("msub", "msup", "msubsup", "munder", "mover", "munderover", "mmultiscripts") and len(e):
        e = e[0]
    return e


def row_problems(root, d, strict):
    """invariants of the statement on every mrow of a returned tree.  strict = the input came from the restricted grammar (every mo is a
    dictionary operator used in a dictionary form)"""
    out = []
    for row in root.iter():
        if mml.local(row.tag) != "mrow":
            continue
        kids = list(row)
        if len(kids) < 2:
            continue
        is_op = []
        for k in kids:
            b = base_of(k)
            is_op.append(mml.local(b.tag) == "mo" and (b.text or "") not in (" ",))
        texts = [(base_of(k).text or "") if is_op[i] else None for i, k in enumerate(kids)]
        # adjacent operands are always separated by an operator
        for i in range(len(kids) - 1):
            if not is_op[i] and not is_op[i + 1]:
                ta, tb = mml.local(kids[i].tag), mml.local(kids[i + 1].tag)
                if "mtext" in (ta, tb):
                    continue            # white space / text placeholders are kept out of the parse by design
                out.append(("adjacent-operands", "%s %s" % (ta, tb)))
                break
        if not strict:
            continue
        # operators in infix position of one row belong to one priority class
        infix_p = set()
        for i in range(1, len(kids) - 1):
            if is_op[i] and not is_op[i - 1] and not is_op[i + 1]:
                f = d.get(texts[i].replace("−", "-"))
                if f and "INFIX" in f:
                    infix_p.add(f["INFIX"])
        if len(infix_p) > 1:
            out.append(("mixed-priorities", "row mixes infix priorities %s" % sorted(infix_p)))
        # an operand row whose principal operator is infix/postfix binds at least as tightly as this row's operator
        if len(infix_p) == 1:
            p = next(iter(infix_p))
            for i, k in enumerate(kids):
                if is_op[i] or mml.local(k.tag) != "mrow":
                    continue
                sub = list(k)
                sub_op = [mml.local(base_of(s).tag) == "mo" for s in sub]
                if len(sub) >= 3 and sub_op[0] and sub_op[-1]:
                    continue            # fenced
                sp = None
                for j in range(1, len(sub) - 1):
                    if sub_op[j] and not sub_op[j - 1] and not sub_op[j + 1]:
                        f = d.get((base_of(sub[j]).text or "").replace("−", "-"))
                        if f and "INFIX" in f:
                            sp = f["INFIX"]
                            break
                if sp is None and len(sub) == 2 and sub_op[1] and not sub_op[0] and i > 0:
                    # a postfix row as the FIRST operand is forced (the postfix operator has nothing else to attach to), so it is not judged
                    f = d.get(base_of(sub[1]).text or "")
                    if f and "POSTFIX" in f:
                        sp = f["POSTFIX"]
                if sp is not None and sp < p:
                    out.append(("loose-operand-row", "operand row with priority %d inside a row of priority %d" % (sp, p)))
                    break
        # a matched pair of fences encloses exactly its contents
        if is_op[0] and is_op[-1] and texts[0] == "(" and texts[-1] == ")" and len(kids) > 3:
            out.append(("fence-contents", "parenthesised row has %d children between the fences" % (len(kids) - 2)))
    return out


# ---------------------------------------------------------------------------------------------
CONTEXTS = ["top", "mfrac", "msqrt", "msup", "mtd", "mfenced", "munder"]


def wrap(kids, ctx):
    row = gen.mrow(*kids)
    if ctx == "top":
        return gen.math(*[k.copy() for k in kids]), ()
    if ctx == "mfrac":
        return gen.math(gen.N("mfrac", [row, gen.mn("7")])), ("mfrac", 0)
    if ctx == "msqrt":
        return gen.math(gen.N("msqrt", [k.copy() for k in kids])), ("msqrt",)
    if ctx == "msup":
        return gen.math(gen.N("msup", [gen.mi("z"), row])), ("msup", 1)
    if ctx == "mtd":
        return gen.math(gen.N("mtable", [gen.N("mtr", [gen.N("mtd", [k.copy() for k in kids]), gen.N("mtd", [gen.mn("3")])])])), ("mtable", 0, 0)
    if ctx == "mfenced":
        e = gen.N("mfenced", [row])
        e.attrs = {"open": "[", "close": "]"}
        return gen.math(e), ("fenced",)
    if ctx == "munder":
        return gen.math(gen.N("munder", [row, gen.mo("_")])), ("munder", 0)
    raise ValueError(ctx)


def locate(root, where):
    """the element of the returned tree that holds the parsed row"""
    e = root
    kids = list(e)
    if len(kids) != 1:
        return None
    e = kids[0]
    if not where:
        return e
    tag = where[0]
    if tag == "fenced":
        if mml.local(e.tag) != "mrow" or len(list(e)) != 3:
            return None
        return list(e)[1]
    if mml.local(e.tag) != tag:
        return None
    if tag == "msqrt":
        return list(e)[0] if len(list(e)) == 1 else None
    if tag == "mtable":
        try:
            td = list(list(e)[0])[0]
            return list(td)[0] if len(list(td)) == 1 else None
        except IndexError:
            return None
    try:
        return list(e)[where[1]]
    except IndexError:
        return None


def judge_tokens(sess, tokens, ctx, d, force_prefix_form=False):
    """returns (kind or None, detail, result)"""
    tree, where = wrap(tokens_to_tree(tokens, force_prefix_form), ctx)
    r = sess.call("set_mathml", tree.xml(), timeout=30)
    if r is None or r["r"] != "ok":
        return None, "set_mathml " + ("died" if r is None else r["r"]), r
    try:
        root = ET.fromstring(r["v"])
    except ET.ParseError:
        return None, "unparsable", r
    probs = row_problems(root, d, strict=True)
    if probs:
        return probs[0][0], probs[0][1], r
    e = locate(root, where)
    if e is None:
        return None, "row not located", r
    got = collapse(norm_minus(out_tree(e)), d)
    want = collapse(norm_minus(reference_parse(tokens, d)), d)
    if got != want:
        return "parse-differs", "reference %s  MathCAT %s" % (show(want), show(got)), r
    return None, "", r


def show(node):
    if isinstance(node, list):
        return "[" + " ".join(show(k) for k in node) + "]"
    return {INVISIBLE_TIMES: "·"}.get(node, node)


def token_sig(tokens, d):
    """structural signature of a minimal token list: kinds with operator priorities"""
    out = []
    for text, kind in tokens:
        if kind in ("var", "num", "open", "close"):
            out.append({"var": "v", "num": "n", "open": "(", "close": ")"}[kind])
        else:
            f = d.get(text, {})
            p = f.get({"infix": "INFIX", "prefix": "PREFIX", "postfix": "POSTFIX"}[kind])
            forms = "".join(sorted(k[0] for k in f))
            out.append("%s%s[%s]" % (kind[:2], p, forms))
    return " ".join(out)


def balanced(tokens):
    depth = 0
    for t in tokens:
        if t[1] == "open":
            depth += 1
        elif t[1] == "close":
            depth -= 1
            if depth < 0:
                return False
    return depth == 0


_PREFIX_ONLY = []


def _prefix_only():
    if not _PREFIX_ONLY:
        d = load_dict()
        _PREFIX_ONLY.append(set(t for t, f in d.items() if set(f) == {"PREFIX"}))
    return _PREFIX_ONLY[0]


def wellformed(tokens):
    """still a sentence of the restricted grammar (the shrinker may only produce such)"""
    if not tokens or not balanced(tokens):
        return False
    prev = None
    for t in tokens:
        k = t[1]
        if k in ("infix", "postfix", "close") and (prev is None or prev in ("infix", "prefix", "open")):
            return False            # includes '()' : empty parentheses are not an operand of the restricted grammar
        if k in ("var", "num", "open", "prefix") and prev in ("var", "num", "close", "postfix"):
            if k == "prefix":
                # an operand directly followed by a prefix operator is a juxtaposition only when the operator has NO other form (otherwise
                # its position makes it infix or postfix), and here only after a postfix operator (n! ∑x): the statement's unique parse
                if prev != "postfix" or t[0] not in _prefix_only():
                    return False
            elif not Gen.adjacent_ok(("", prev if prev != "postfix" else "x"), ("", k)):
                return False
        prev = k
    return prev in ("var", "num", "close", "postfix")


def shard(spec):
    st = core.Stats()
    rng = random.Random(spec["seed"])
    d = load_dict()
    ops = usable_ops(d)
    g = Gen(rng, d, ops, usable_vars())
    deadline = time.time() + spec["time_budget"]
    seen = set()
    with core.Session({"TTS": "None"}) as sess:
        # pairs of operators of different priority classes: every infix operator next to a common one, both orders
        cases = []
        for op in spec["ops_slice"]:
            for other in ("+", "=", "×", "∧"):
                if other in g.infix and op in g.infix and g.infix[other] != g.infix[op]:
                    a, b, c = rng.sample(g.vars, 3)
                    cases.append(([(a, "var"), (op, "infix"), (b, "var"), (other, "infix"), (c, "var")], "top"))
                    cases.append(([(a, "var"), (other, "infix"), (b, "var"), (op, "infix"), (c, "var")], rng.choice(CONTEXTS)))
            if op in g.prefix:
                cases.append(([(op, "prefix"), ("x", "var"), ("+", "infix"), ("y", "var")], "top"))
                cases.append(([("x", "var"), ("=", "infix"), (op, "prefix"), ("y", "var")], rng.choice(CONTEXTS)))
            if op in g.postfix:
                cases.append(([("x", "var"), ("+", "infix"), ("y", "var"), (op, "postfix")], "top"))
                # a postfix operator directly followed by a prefix operator: the two operands are juxtaposed (implied multiplication)
                pres = sorted(g.prefix)
                for p_op in pres:
                    cases.append(([("y", "var"), (op, "postfix"), (p_op, "prefix"), ("x", "var")], rng.choice(CONTEXTS)))
                for p_op in rng.sample(pres, min(6, len(pres))):
                    cases.append(([("a", "var"), ("+", "infix"), ("y", "var"), (op, "postfix"), (p_op, "prefix"), ("x", "var"), ("+", "infix"), ("b", "var")], "top"))
        for _ in range(spec["n_random"]):
            cases.append((g.row(0, rng.randint(2, 7)), rng.choice(CONTEXTS)))
        for tokens, ctx in cases:
            if time.time() > deadline:
                st.count("stopped_by_time_budget")
                break
            if not wellformed(tokens):
                st.count("generator_rejects")
                continue
            kind, detail, r = judge_tokens(sess, tokens, ctx, d)
            st.evaluations += 1
            if r is None or r["r"] != "ok":
                st.count("set_mathml_not_ok_not_judged")
                continue
            st.nontrivial.add(core.h16(token_sig(tokens, d) + ctx))
            for t in tokens:
                if t[1] in ("infix", "prefix", "postfix"):
                    st.add("operators", t[0] + "/" + t[1])
            st.add("contexts", ctx)
            if len(st.samples) < 2 and len(tokens) > 6:
                st.sample({"context": ctx, "tokens": "".join(t[0] + " " for t in tokens), "reference_parse": show(collapse(norm_minus(reference_parse(tokens, d)), d))})
            if kind is None:
                continue
            st.count("raw_" + kind)
            if kind == "parse-differs" and has_prefix_before_open(tokens) and judge_tokens(sess, tokens, ctx, d, force_prefix_form=True)[0] is None:
                # classification by intervention: the disagreement disappears when the prefix operators in front of '(' carry form='prefix'
                st.count("raw_position_heuristic_prefix_before_fence")
                if "position" not in seen:
                    seen.add("position")
                    small = shrink.shrink_list(tokens, lambda ts: wellformed(ts) and has_prefix_before_open(ts) and judge_tokens(sess, ts, "top", d)[0] == kind
                                               and judge_tokens(sess, ts, "top", d, force_prefix_form=True)[0] is None, budget=120)
                    if not (judge_tokens(sess, small, "top", d)[0] == kind):
                        small = tokens
                    st.violations.append(core.violation(kind, KNOWN_POSITION_SIG, {"tokens": small, "context": "top"},
                                                        "minimal row: %s | %s" % (" ".join(t[0] for t in small), judge_tokens(sess, small, "top", d)[1])))
                else:
                    st.violations.append(core.violation(kind, KNOWN_POSITION_SIG, {"tokens": tokens, "context": ctx}, "same cause"))
                continue
            pre = (kind, tuple(sorted(set(t[0] for t in tokens if t[1] in ("infix", "prefix", "postfix"))))[:3])
            if pre in seen:
                continue
            seen.add(pre)
            small = shrink.shrink_list(tokens, lambda ts: wellformed(ts) and judge_tokens(sess, ts, "top", d)[0] == kind, budget=150)
            sctx = "top"
            if judge_tokens(sess, small, "top", d)[0] != kind:
                small, sctx = tokens, ctx
            k2, detail2, _ = judge_tokens(sess, small, sctx, d)
            sig = "%s | %s | %s" % (kind, token_sig(small, d), sctx if sctx != "top" else "-")
            st.violations.append(core.violation(kind, sig, {"tokens": small, "context": sctx},
                                                "minimal row: %s | %s" % (" ".join(t[0] for t in small), detail2 or detail)))
    return st.to_dict()


def layer1_shard(spec):
    """invariant validator (adjacent operands only: arbitrary mo content is not a dictionary operator) on the outputs of the textbook workload"""
    st = core.Stats()
    rng = random.Random(spec["seed"])
    d = load_dict()
    with core.Session({"TTS": "None"}) as sess:
        for _ in range(spec["n"]):
            tb = gen.Textbook(rng, max_depth=rng.choice([2, 3, 4]), p_ident=0.5)
            tree = tb.expression()[0]
            r = sess.call("set_mathml", tree.xml(), timeout=30)
            if r is None or r["r"] != "ok":
                continue
            st.evaluations += 1
            try:
                root = ET.fromstring(r["v"])
            except ET.ParseError:
                continue
            probs = [p for p in row_problems(root, d, strict=False)]
            st.count("textbook_rows_validated", sum(1 for e in root.iter() if mml.local(e.tag) == "mrow"))
            if probs:
                def still(t):
                    rr = sess.call("set_mathml", t.xml(), timeout=30)
                    if rr is None or rr["r"] != "ok":
                        return False
                    try:
                        return any(p[0] == probs[0][0] for p in row_problems(ET.fromstring(rr["v"]), d, strict=False))
                    except ET.ParseError:
                        return False
                small = shrink.shrink_tree(tree, still, budget=300)
                st.violations.append(core.violation(probs[0][0], "%s | textbook | %s" % (probs[0][0], shrink.abstract_shape(small)), {"mathml": small.xml()},
                                                    "%s in %s" % (probs[0][1], small.xml()[:400])))
                break
            st.nontrivial.add(core.h16(tree.shape()))
    return st.to_dict()


# ---------------------------------------------------------------------------------------------
# idiom rows: function application, set-builder / "such that" / "given" bars with prefix operators, nested fences — judged by the row
# invariants only (the reference parser does not model the function-name and vertical-bar heuristics)
# ---------------------------------------------------------------------------------------------
MATCH = {"(": ")", "[": "]", "{": "}", "⟨": "⟩", "⌈": "⌉", "⌊": "⌋"}
SAME = []          # fences whose opening and closing character are the same and that are not governed by the vertical-bar heuristics


def _extend_fences():
    """every other bracket pair of the dictionary (left fence whose next code point is a right fence), and the same-character fences"""
    d = load_dict()
    for t, f in sorted(d.items()):
        if len(t) != 1 or "LEFT_FENCE" not in f or t in MATCH or t in "|‖‘“":
            continue
        if "RIGHT_FENCE" in f and len(f) == 2:
            SAME.append(t)
            continue
        partner = chr(ord(t) + 1)
        if "RIGHT_FENCE" in d.get(partner, {}) and "LEFT_FENCE" not in d.get(partner, {}):
            MATCH[t] = partner


_extend_fences()


def idiom(rng, d):
    """returns (list of gen.N children, description)"""
    mi, mn, mo = gen.mi, gen.mn, gen.mo
    infix, prefix, postfix = usable_ops(d)
    hi = [o for o in infix if infix[o] > 850] or ["∘"]
    common = [o for o in "+-=<>×⋅÷±∈→≤∧∨∩∪⊂∘" if o in infix]
    pre = [o for o in ["-", "+", "¬", "∃", "∀", "∑", "√", "∂", "±", "∇"] if o in prefix] or ["-"]
    v = lambda: mi(rng.choice("abcxyzuvw"))
    f = lambda: mi(rng.choice(["f", "g", "h", "sin", "cos", "log", "F", "G"]))
    S = lambda: mi(rng.choice("STAB"))
    arg = lambda: rng.choice([lambda: [v()], lambda: [v(), mo(","), v()], lambda: [v(), mo("+"), mn(str(rng.randint(1, 9)))], lambda: [v(), mo(","), v(), mo(","), mn("2")]])()
    k = rng.random()
    if k < 0.35:
        op = rng.choice(hi + hi + common)
        kids = [f(), mo(op), f(), mo("(")] + arg() + [mo(")")]
        if rng.random() < 0.4:
            kids += [mo(rng.choice(["=", "+"])), v()]
        if rng.random() < 0.3:
            kids = [v(), mo(rng.choice(["=", "+"]))] + kids
        return kids, "function-application"
    if k < 0.6:
        p = rng.choice(pre)
        kids = [mo("{"), v(), mo("|"), mo(p), v(), mo(rng.choice(["∈", "<", "=", "≤"])), rng.choice([S, v, lambda: mn("0")])(), mo("}")]
        if rng.random() < 0.4:
            kids = [S(), mo("=")] + kids
        return kids, "set-builder-prefix"
    if k < 0.75:
        p = rng.choice(pre)
        return [v(), mo("|"), mo(p), v()] + ([mo("+"), v()] if rng.random() < 0.4 else []), "bar-prefix"
    if k < 0.87:
        p = rng.choice(pre)
        return [mi("P"), mo("("), S(), mo("|"), mo(p), S(), mo(")")] + ([mo("="), mn("0.5")] if rng.random() < 0.5 else []), "given-prefix"
    if k < 0.95:
        # an empty pair of fences followed by more of the row: f()+1, {} ∪ A, 2 f() = h() - x
        o = rng.choice(list(MATCH))
        head = rng.choice([[f()], [], [mn(str(rng.randint(2, 9))), f()]])
        if not head and o == "(":
            o = rng.choice(["{", "["])
        kids = head + [mo(o), mo(MATCH[o]), mo(rng.choice(common)), v()]
        if rng.random() < 0.4:
            kids += [mo(rng.choice(common)), f(), mo("("), mo(")")] + ([mo(rng.choice(common)), v()] if rng.random() < 0.5 else [])
        if rng.random() < 0.3:
            # ... inside an outer pair: ( f ( ) ), y = [ g ( ) + 1 ]
            o2 = rng.choice(list(MATCH))
            inner = head + [mo(o), mo(MATCH[o])] + ([mo(rng.choice(common)), v()] if rng.random() < 0.5 else [])
            kids = ([v(), mo("=")] if rng.random() < 0.4 else []) + [mo(o2)] + inner + [mo(MATCH[o2])]
        return kids, "empty-fences"
    if k < 0.975 and SAME:
        # a fence whose two forms are one character, opened right after an operand or an operator, closed in front of more of the row
        F = rng.choice(SAME)
        inner = rng.choice([lambda: [v()], lambda: [v(), mo(rng.choice(common)), v()], lambda: [mn(str(rng.randint(2, 9))), v()]])()
        head = rng.choice([[mn(str(rng.randint(2, 9)))], [v(), mo(rng.choice(common))], [v(), mo(rng.choice(common)), v()], []])
        kids = head + [mo(F)] + inner + [mo(F)]
        if rng.random() < 0.5:
            kids += [mo(rng.choice(common)), v()]
        if rng.random() < 0.25:
            o = rng.choice(list(MATCH))
            kids = [mo(o)] + kids + [mo(MATCH[o])] + ([mo("!")] if rng.random() < 0.4 else [])
        return kids, "same-character-fences"
    o1, o2 = rng.sample(list(MATCH), 2)
    return [mo(o1), v(), mo(rng.choice(common)), mo(o2), v(), mo(rng.choice(common)), v(), mo(MATCH[o2]), mo(MATCH[o1]), mo(rng.choice(common)), v()], "nested-fences"


def fence_problems(root):
    """every close fence is the last child of a row whose first child is its open fence (inputs here have balanced fences)"""
    out = []
    close = {v: k for k, v in MATCH.items()}
    for row in root.iter():
        if mml.local(row.tag) not in ("mrow", "math", "msqrt", "mtd"):
            continue
        kids = list(row)
        for i, k in enumerate(kids):
            if mml.local(k.tag) != "mo":
                continue
            t = k.text or ""
            if t in close:
                first = kids[0]
                if i != len(kids) - 1 or mml.local(first.tag) != "mo" or (first.text or "") != close[t]:
                    out.append(("unmatched-fence", "close fence %s is child %d of %d in a row that starts with %r" % (t, i + 1, len(kids), (first.text or mml.local(first.tag)))))
            elif t in MATCH:
                last = kids[-1]
                if i != 0 or mml.local(last.tag) != "mo" or (last.text or "") != MATCH[t]:
                    out.append(("unmatched-fence", "open fence %s is child %d of %d in a row that ends with %r" % (t, i + 1, len(kids), (last.text or mml.local(last.tag)))))
            elif t in SAME:
                ends = [j for j in (0, len(kids) - 1) if mml.local(kids[j].tag) == "mo" and (kids[j].text or "") == t]
                if i not in (0, len(kids) - 1) or len(ends) != 2 or len(kids) < 2:
                    out.append(("unmatched-fence", "fence %s is child %d of %d in a row that starts with %r and ends with %r" % (
                        t, i + 1, len(kids), kids[0].text or mml.local(kids[0].tag), kids[-1].text or mml.local(kids[-1].tag))))
    return out


def kids_balanced(kids):
    """the fences of an idiom row are balanced (the shrinker must not turn a row into one whose fences cannot match)"""
    stack = []
    for k in kids:
        t = k.text or ""
        if k.tag != "mo":
            continue
        if t in SAME:
            if stack and stack[-1] == t:
                stack.pop()
            else:
                stack.append(t)
        elif t in MATCH:
            stack.append(MATCH[t])
        elif t in MATCH.values():
            if not stack or stack.pop() != t:
                return False
    return not stack


def judge_idiom(sess, kids, d):
    tree = gen.math(*[k.copy() for k in kids])
    r = sess.call("set_mathml", tree.xml(), timeout=30)
    if r is None or r["r"] != "ok":
        return None, "", r
    try:
        root = ET.fromstring(r["v"])
    except ET.ParseError:
        return None, "", r
    probs = fence_problems(root) + [p for p in row_problems(root, d, strict=True) if p[0] in ("loose-operand-row", "adjacent-operands", "mixed-priorities")]
    if probs:
        return probs[0][0], probs[0][1] + " | " + show(out_tree(root)), r
    return None, "", r


def idiom_shard(spec):
    st = core.Stats()
    rng = random.Random(spec["seed"])
    d = load_dict()
    seen = set()
    with core.Session({"TTS": "None"}) as sess:
        for _ in range(spec["n"]):
            kids, what = idiom(rng, d)
            kind, detail, r = judge_idiom(sess, kids, d)
            st.evaluations += 1
            if r is None or r["r"] != "ok":
                st.count("idiom_set_mathml_not_ok")
                continue
            st.count("idiom_rows_" + what)
            st.nontrivial.add(core.h16("idiom" + "".join(k.text or "" for k in kids)))
            if kind is None:
                continue
            st.count("raw_idiom_" + kind)
            if (kind, what) in seen:
                continue
            seen.add((kind, what))
            small = shrink.shrink_list(kids, lambda ks: len(ks) >= 2 and kids_balanced(ks) and judge_idiom(sess, ks, d)[0] == kind, budget=80)
            sig = "%s | idiom:%s | %s" % (kind, what, " ".join("v" if k.tag == "mi" and len(k.text) == 1 else "n" if k.tag == "mn" else (k.text or "") for k in small))
            st.violations.append(core.violation(kind, sig, {"idiom": [[k.tag, k.text] for k in small]}, "minimal row: %s | %s" % (" ".join(k.text or "" for k in small), judge_idiom(sess, small, d)[1])))
    return st.to_dict()


# ---------------------------------------------------------------------------------------------
# embellished operators: decorating an infix operator with (nested) scripts / under-over scripts does not change the bracketing of its row
# ---------------------------------------------------------------------------------------------
EMB = ["msub", "msup", "msubsup", "munder", "mover", "munderover"]


def embellish(node, rng, depth):
    for _ in range(depth):
        tag = rng.choice(EMB)
        scripts = [rng.choice([gen.mi(rng.choice("ijkmn")), gen.mn(str(rng.randint(0, 9)))]) for _ in range(2 if tag in ("msubsup", "munderover") else 1)]
        node = gen.N(tag, [node] + scripts)
    return node


def out_tree_emb(e):
    """like out_tree, but an embellished operator counts as its base operator"""
    t = mml.local(e.tag)
    if t in ("mi", "mn", "mo", "mtext"):
        return (e.text or "")
    if t in EMB + ["mmultiscripts"] and mml.local(base_of(e).tag) == "mo":
        return base_of(e).text or ""
    kids = [out_tree_emb(k) for k in e]
    if t == "math":
        return kids[0] if len(kids) == 1 else kids
    if t == "mrow":
        return kids
    return [t] + kids


def judge_embellished(sess, tokens, which, depths, d, seed, force_prefix_form=False):
    """which: indices (into tokens) of infix operators to decorate; returns (kind or None, detail, ok?)"""
    plain = tokens_to_tree(tokens, force_prefix_form)
    rng = random.Random(seed)
    deco = [embellish(k.copy(), rng, depths[which.index(i)]) if i in which else k.copy() for i, k in enumerate(plain)]
    r1 = sess.call("set_mathml", gen.math(*plain).xml(), timeout=30)
    r2 = sess.call("set_mathml", gen.math(*deco).xml(), timeout=30)
    if r1 is None or r2 is None or r1["r"] != "ok" or r2["r"] != "ok":
        return None, "", False
    try:
        a = collapse(norm_minus(out_tree_emb(ET.fromstring(r1["v"]))), d)
        b = collapse(norm_minus(out_tree_emb(ET.fromstring(r2["v"]))), d)
    except ET.ParseError:
        return None, "", False
    if a != b:
        return "embellishment-changes-parse", "plain row %s  decorated row %s | decorated input %s" % (show(a), show(b), gen.math(*deco).xml()[:400]), True
    return None, "", True


def embellished_shard(spec):
    st = core.Stats()
    rng = random.Random(spec["seed"])
    d = load_dict()
    g = Gen(rng, d, usable_ops(d), usable_vars())
    seen = set()
    with core.Session({"TTS": "None"}) as sess:
        for n in range(spec["n"]):
            tokens = g.row(0, rng.randint(2, 5))
            if not wellformed(tokens):
                continue
            idx = [i for i, t in enumerate(tokens) if t[1] == "infix"]
            if not idx:
                continue
            which = sorted(rng.sample(idx, min(len(idx), rng.choice([1, 1, 2]))))
            depths = [rng.choice([1, 2, 2, 3]) for _ in which]
            sd = rng.randrange(1 << 30)
            kind, detail, ok = judge_embellished(sess, tokens, which, depths, d, sd)
            st.evaluations += 1
            if not ok:
                st.count("embellished_set_mathml_not_ok")
                continue
            st.count("embellished_rows_depth_%d" % max(depths))
            st.nontrivial.add(core.h16("emb" + token_sig(tokens, d) + repr(which) + repr(depths)))
            if kind is None:
                continue
            st.count("raw_" + kind)
            if has_prefix_before_open(tokens) and judge_embellished(sess, tokens, which, depths, d, sd, force_prefix_form=True)[0] is None:
                # classification by intervention (as in the reference-parser layer): the difference disappears when the prefix operators in front of
                # '(' carry form='prefix' -- the recorded position-heuristic defect, which types the operator next to such a prefix operator
                st.count("raw_position_heuristic_prefix_before_fence")
                st.violations.append(core.violation(kind, KNOWN_POSITION_SIG, {"tokens": tokens, "context": "top"}, "same cause (seen through a decorated operator)"))
                continue
            ops = tuple(tokens[i][0] for i in which)
            if ops in seen or len(seen) > 6:
                continue
            seen.add(ops)

            def still(ts_which):
                ts, wh, dp = ts_which
                return judge_embellished(sess, ts, wh, dp, d, sd)[0] == kind
            # shrink: drop tokens that are not decorated, keeping the row well formed
            best = (tokens, which, depths)
            changed = True
            while changed:
                changed = False
                ts, wh, dp = best
                for i in range(len(ts)):
                    if i in wh:
                        continue
                    for span in (2, 1):
                        cand = ts[:i] + ts[i + span:]
                        if any(i <= w < i + span for w in wh):
                            continue
                        wh2 = [w - span if w > i else w for w in wh]
                        if len(cand) >= 3 and wellformed(cand) and all(cand[w][1] == "infix" for w in wh2) and still((cand, wh2, dp)):
                            best = (cand, wh2, dp)
                            changed = True
                            break
                    if changed:
                        break
            ts, wh, dp = best
            for j in range(len(dp)):
                while dp[j] > 1 and still((ts, wh, dp[:j] + [dp[j] - 1] + dp[j + 1:])):
                    dp = dp[:j] + [dp[j] - 1] + dp[j + 1:]
            sig = "%s | %s | decorated %s depth %s" % (kind, token_sig(ts, d), ",".join("#%d" % w for w in wh), ",".join(str(x) for x in dp))
            st.violations.append(core.violation(kind, sig, {"embellished": {"tokens": ts, "which": wh, "depths": dp, "seed": sd}},
                                                "minimal row: %s | %s" % (" ".join(t[0] for t in ts), judge_embellished(sess, ts, wh, dp, d, sd)[1])))
    return st.to_dict()


def replay(witness):
    d = load_dict()
    if "embellished" in witness:
        w = witness["embellished"]
        with core.Session({"TTS": "None"}) as sess:
            toks = [tuple(t) for t in w["tokens"]]
            kind, detail, ok = judge_embellished(sess, toks, list(w["which"]), list(w["depths"]), d, w["seed"])
            if kind:
                return [core.violation(kind, "%s | %s | decorated %s depth %s" % (kind, token_sig(toks, d), ",".join("#%d" % x for x in w["which"]), ",".join(str(x) for x in w["depths"])), witness, detail)]
        return []
    if "idiom" in witness:
        kids = [gen.N(t, text=x) for t, x in witness["idiom"]]
        with core.Session({"TTS": "None"}) as sess:
            kind, detail, r = judge_idiom(sess, kids, d)
            if kind:
                sig = "%s | idiom:%s | %s" % (kind, witness.get("what", "-"), " ".join("v" if k.tag == "mi" and len(k.text) == 1 else "n" if k.tag == "mn" else (k.text or "") for k in kids))
                return [core.violation(kind, sig, witness, detail)]
        return []
    out = []
    with core.Session({"TTS": "None"}) as sess:
        if "tokens" in witness:
            tokens = [tuple(t) for t in witness["tokens"]]
            kind, detail, r = judge_tokens(sess, tokens, witness.get("context", "top"), d)
            if kind == "parse-differs" and has_prefix_before_open(tokens) and judge_tokens(sess, tokens, witness.get("context", "top"), d, force_prefix_form=True)[0] is None:
                out.append(core.violation(kind, KNOWN_POSITION_SIG, witness, detail))
            elif kind:
                ctx = witness.get("context", "top")
                out.append(core.violation(kind, "%s | %s | %s" % (kind, token_sig(tokens, d), ctx if ctx != "top" else "-"), witness, detail))
        else:
            r = sess.call("set_mathml", witness["mathml"], timeout=30)
            if r is not None and r["r"] == "ok":
                probs = row_problems(ET.fromstring(r["v"]), d, strict=False)
                if probs:
                    out.append(core.violation(probs[0][0], "%s | textbook | %s" % (probs[0][0], shrink.abstract_shape(gen.from_xml(witness["mathml"]))), witness, probs[0][1]))
    return out


def run(tier, seed):
    t0 = time.time()
    core.build_driver("native")
    d = load_dict()
    infix, prefix, postfix = usable_ops(d)
    all_ops = sorted(set(infix) | set(prefix) | set(postfix))
    rng = random.Random(core.sub_seed(seed, PROP))
    rng.shuffle(all_ops)
    nsh = core.NPROC
    n_random = (60000 if tier == "quick" else 2400000) // nsh
    specs = [{"seed": core.sub_seed(seed, PROP, i), "ops_slice": all_ops[i::nsh], "n_random": n_random, "time_budget": 70 if tier == "quick" else 1500} for i in range(nsh)]
    results = core.run_shards(shard, specs)
    l1 = [{"seed": core.sub_seed(seed, PROP, "l1", i), "n": 600 if tier == "quick" else 20000} for i in range(nsh)]
    results += core.run_shards(layer1_shard, l1)
    results += core.run_shards(idiom_shard, [{"seed": core.sub_seed(seed, PROP, "idiom", i), "n": 1500 if tier == "quick" else 60000} for i in range(nsh)])
    results += core.run_shards(embellished_shard, [{"seed": core.sub_seed(seed, PROP, "emb", i), "n": 1200 if tier == "quick" else 50000} for i in range(nsh)])
    stats, errors = core.Stats.merge(results)
    known, fixed_failures, extra_v = core.replay_findings(PROP, replay)
    stats.violations.extend(extra_v)
    return core.conclude(
        PROP, tier, seed, "exploration", stats,
        {"dictionary_operators_total": len(d), "usable_infix": len(infix), "usable_prefix": len(prefix), "usable_postfix": len(postfix)},
        ["priorities and forms are read from src/operator-info.in with a regex reader (the dictionary is the specification here)",
         "excluded from the reference parse, as documented heuristics: vertical bars, colon/ratio, number separators (, . ;), pseudo-script characters, "
         "function application (variables on the function-name lists are not used), mixed fractions (no adjacent numbers)",
         "trees are compared after collapsing operand rows of the same infix priority as their parent (associativity between different operators of one priority is not defined by the dictionary)"],
        t0,
        rule="rows of the restricted grammar (single-letter variables, integers, every usable single-character dictionary operator in its infix/prefix/postfix form, implied "
             "multiplication, parentheses) at top level and inside mfrac/msqrt/msup/mtd/mfenced/munder: each operator is paired with operators of other priority classes in both "
             "orders, then random rows of 2-7 terms; MathCAT's bracketing is compared with an independent Pratt parser over the dictionary priorities and every returned mrow is "
             "validated against the row invariants; idiom rows (function application, bars, empty fence pairs, nested fences) judged by invariants and fence matching; "
             "metamorphic phase: decorating infix operators with 1-3 nested script / under-over elements must not change the bracketing of the row; non-trivial = set_mathml Ok and both oracles applied; distinct by (token kinds with priorities, context)",
        min_nontrivial=1000, harness_errors=errors, known_replayed=known, fixed_failures=fixed_failures)
