"""Recogniser of the W3C MathML 4 intent grammar, written from the specification (shares no code with MathCAT):

    intent             := self-property-list | expression
    self-property-list := property+ S
    expression         := S ( term property* | application ) S
    term               := concept-or-literal | number | reference
    concept-or-literal := NCName
    number             := '-'? \\d+ ( '.' \\d+ )?
    reference          := '$' NCName
    application        := expression '(' arguments? S ')'
    arguments          := expression ( ',' expression )*
    property           := S ':' NCName
    S                  := [ \\t\\n\\r]*

NCName is the production of "Namespaces in XML 1.0" over the Name characters of XML 1.0 (5th edition).

The specification leaves a border that implementations draw differently: which non-ASCII characters may be part of a name, whether
non-ASCII white space separates tokens, whether an application may have an empty argument list (the grammar says yes, earlier prose and
MathCAT say no) and whether a bare property list may stand as the head or as an argument of an application (the grammar above says
no; the earlier working-draft grammar  intent := S (term property* | property+ | application) S,  application := intent '(' arguments? S ')',
arguments := intent (',' intent)*  says yes, and so does MathCAT).  A value is therefore judged under several readings:
    LEGAL     every reading accepts it and no reading needed one of the disputed constructs
    ILLEGAL   every reading rejects it, even with all disputed constructs allowed
    DISPUTED  anything else
For values made of ASCII characters all readings coincide, so such a value is DISPUTED only through those constructs."""
import sys

LEGAL, ILLEGAL, DISPUTED = "legal", "illegal", "disputed"

_START = [(0x41, 0x5A), (0x5F, 0x5F), (0x61, 0x7A), (0xC0, 0xD6), (0xD8, 0xF6), (0xF8, 0x2FF), (0x370, 0x37D), (0x37F, 0x1FFF),
          (0x200C, 0x200D), (0x2070, 0x218F), (0x2C00, 0x2FEF), (0x3001, 0xD7FF), (0xF900, 0xFDCF), (0xFDF0, 0xFFFD), (0x10000, 0xEFFFF)]
_EXTRA = [(0x2D, 0x2E), (0x30, 0x39), (0xB7, 0xB7), (0x300, 0x36F), (0x203F, 0x2040)]
# Unicode White_Space property (PropList.txt), the non-ASCII members
_UWS = {0x85, 0xA0, 0x1680, 0x2028, 0x2029, 0x202F, 0x205F, 0x3000} | set(range(0x2000, 0x200B))
_S = " \t\n\r"

STRICT, LIBERAL, LIBERAL_WS_NAME = "strict", "liberal", "liberal-ws-name"
READINGS = (STRICT, LIBERAL, LIBERAL_WS_NAME)


def _in(ranges, cp):
    for lo, hi in ranges:
        if lo <= cp <= hi:
            return True
    return False


def is_space(ch, reading):
    if ch in _S:
        return True
    return reading == LIBERAL and ord(ch) in _UWS


def is_name_start(ch, reading):
    cp = ord(ch)
    if cp < 0x80 or reading == STRICT:
        return _in(_START, cp)
    if reading == LIBERAL and cp in _UWS:
        return False
    return True


def is_name_char(ch, reading):
    cp = ord(ch)
    if cp < 0x80 or reading == STRICT:
        return _in(_START, cp) or _in(_EXTRA, cp)
    if reading == LIBERAL and cp in _UWS:
        return False
    return True


def is_ncname(s, reading=STRICT):
    return bool(s) and is_name_start(s[0], reading) and all(is_name_char(c, reading) for c in s[1:])


class Bad(Exception):
    pass


def tokenize(s, reading, partial=False):
    """list of (kind, text): kind in NAME NUM REF PROP ( , )   — raises Bad on a character that starts no token
    (partial=True: the tokens up to there, then one ('BAD', rest) token)"""
    out = []
    i, n = 0, len(s)
    while i < n:
        ch = s[i]
        if is_space(ch, reading):
            i += 1
            continue
        if ch in "(),":
            out.append((ch, ch))
            i += 1
            continue
        if ch in ":$":
            j = i + 1
            if j < n and is_name_start(s[j], reading):
                j += 1
                while j < n and is_name_char(s[j], reading):
                    j += 1
                out.append(("PROP" if ch == ":" else "REF", s[i:j]))
                i = j
                continue
            if partial:
                return out + [("BAD", s[i:])]
            raise Bad("'%s' not followed by a name at %d" % (ch, i))
        if is_name_start(ch, reading):
            j = i + 1
            while j < n and is_name_char(s[j], reading):
                j += 1
            out.append(("NAME", s[i:j]))
            i = j
            continue
        if ch in "0123456789" or (ch == "-" and i + 1 < n and s[i + 1] in "0123456789"):
            j = i + 1
            while j < n and s[j] in "0123456789":
                j += 1
            if j + 1 < n and s[j] == "." and s[j + 1] in "0123456789":
                j += 2
                while j < n and s[j] in "0123456789":
                    j += 1
            out.append(("NUM", s[i:j]))
            i = j
            continue
        if partial:
            return out + [("BAD", s[i:])]
        raise Bad("character U+%04X starts no token at %d" % (ord(ch), i))
    return out


class Node:
    """AST: head is ('NAME'|'NUM'|'REF', text) or None (disputed head-less application), props [':p', ...],
    calls = list of argument lists (each a list of Node) applied one after the other"""
    __slots__ = ("head", "props", "calls")

    def __init__(self, head, props, calls):
        self.head, self.props, self.calls = head, props, calls

    def refs(self):
        out = []
        if self.head is not None and self.head[0] == "REF":
            out.append(self.head[1][1:])
        for args in self.calls:
            for a in args:
                out.extend(a.refs())
        return out

    def depth(self):
        d = 0
        for args in self.calls:
            for a in args:
                d = max(d, 1 + a.depth())
        return d


class _Parser:
    def __init__(self, toks):
        self.t = toks
        self.i = 0
        self.used_empty_args = False
        self.used_headless = False
        self.used_property_arg = False

    def peek(self):
        return self.t[self.i][0] if self.i < len(self.t) else None

    def take(self):
        tok = self.t[self.i]
        self.i += 1
        return tok

    def expression(self, allow_headless=False):
        k = self.peek()
        head, props = None, []
        if k in ("NAME", "NUM", "REF"):
            head = self.take()
        elif k == "PROP" and allow_headless:
            pass
        else:
            raise Bad("expected a term, found %s" % (k,))
        while self.peek() == "PROP":
            props.append(self.take()[1])
        calls = []
        while self.peek() == "(":
            self.take()
            args = []
            if self.peek() == ")":
                self.used_empty_args = True
            else:
                args.append(self.argument())
                while self.peek() == ",":
                    self.take()
                    args.append(self.argument())
            if self.peek() != ")":
                raise Bad("expected ')', found %s" % (self.peek(),))
            self.take()
            calls.append(args)
        if head is None and calls:
            self.used_headless = True
        return Node(head, props, calls)


    def argument(self):
        if self.peek() == "PROP":
            a = self.expression(allow_headless=True)
            self.used_property_arg = True
            return a
        return self.expression()


def parse(s, reading=STRICT):
    """returns (Node, used_empty_args, used_headless_application, used_property_argument) or raises Bad.  A property-only value gives a Node with
    head None and no calls."""
    old = sys.getrecursionlimit()
    if old < 20000:
        sys.setrecursionlimit(20000)
    toks = tokenize(s, reading)
    if not toks:
        raise Bad("empty value")
    p = _Parser(toks)
    node = p.expression(allow_headless=True)
    if p.i != len(toks):
        raise Bad("unparsed input from token %d (%s)" % (p.i, toks[p.i][0]))
    return node, p.used_empty_args, p.used_headless, p.used_property_arg


def trailing_input(value, reading=LIBERAL):
    """a left-to-right parse of one expression (or property list) succeeds on a proper prefix and input is left over,
    e.g. 'f(x) y', ':p q', 'f)' — as opposed to values that break inside the expression, e.g. 'f(x', 'f(,)'"""
    toks = tokenize(value, reading, partial=True)
    if not toks:
        return False
    p = _Parser(toks)
    try:
        p.expression(allow_headless=True)
    except (Bad, IndexError, RecursionError):
        return False
    return 0 < p.i < len(toks)


class Judgement:
    __slots__ = ("cls", "why", "node", "property_only")

    def __init__(self, cls, why, node):
        self.cls, self.why, self.node = cls, why, node
        self.property_only = node is not None and node.head is None and not node.calls


def judge(value):
    """syntax only: Judgement(cls, why, AST of the strict reading if it parses else of the first reading that parses)"""
    results = []
    for r in READINGS:
        try:
            results.append(parse(value, r))
        except Bad as e:
            results.append(e)
        except RecursionError:
            results.append(Bad("nesting too deep for the recogniser"))
    ok = [x for x in results if not isinstance(x, Exception)]
    if not ok:
        return Judgement(ILLEGAL, str(results[0]), None)
    node = ok[0][0]
    if len(ok) < len(results):
        return Judgement(DISPUTED, "readings of non-ASCII characters differ", node)
    shapes = set(shape(x[0]) for x in ok)
    if len(shapes) > 1:
        return Judgement(DISPUTED, "readings tokenise differently", node)
    if any(x[1] for x in ok):
        return Judgement(DISPUTED, "empty argument list", node)
    if any(x[2] for x in ok):
        return Judgement(DISPUTED, "property list as head of an application", node)
    if any(x[3] for x in ok):
        return Judgement(DISPUTED, "property list as an argument", node)
    return Judgement(LEGAL, "", node)


def shape(node):
    h = "-" if node.head is None else node.head[0] + ":" + node.head[1]
    return h + "".join(node.props) + "".join("(" + ",".join(shape(a) for a in args) + ")" for args in node.calls)


def token_classes(value):
    """abstract spelling of a value for signatures: token classes under the liberal reading, characters that start no token
    by class.  Never contains concrete names or numbers."""
    out = []
    i, n = 0, len(value)
    s = value
    while i < n:
        ch = s[i]
        cp = ord(ch)
        if ch in _S:
            j = i
            while j < n and s[j] in _S:
                j += 1
            out.append("S")
            i = j
            continue
        if cp in _UWS:
            out.append("UWS")
            i += 1
            continue
        if ch in "(),":
            out.append(ch)
            i += 1
            continue
        if ch in ":$" and i + 1 < n and is_name_start(s[i + 1], LIBERAL):
            j = i + 2
            while j < n and is_name_char(s[j], LIBERAL):
                j += 1
            body = s[i + 1:j]
            out.append(("PROP" if ch == ":" else "REF") + _name_class(body))
            i = j
            continue
        if is_name_start(ch, LIBERAL):
            j = i + 1
            while j < n and is_name_char(s[j], LIBERAL):
                j += 1
            body = s[i:j]
            out.append(("SILENTNAME" if not body.strip("_-") else "NAME") + _name_class(body))
            i = j
            continue
        if ch in "0123456789" or (ch == "-" and i + 1 < n and s[i + 1] in "0123456789"):
            j = i + 1
            while j < n and s[j] in "0123456789":
                j += 1
            if j + 1 < n and s[j] == "." and s[j + 1] in "0123456789":
                j += 2
                while j < n and s[j] in "0123456789":
                    j += 1
            out.append("NUM")
            i = j
            continue
        out.append("'%s'" % ch if cp < 0x80 else "U%dB" % len(ch.encode("utf-8")))
        i += 1
    return " ".join(out)


def _name_class(body):
    if all(ord(c) < 0x80 for c in body):
        return ""
    if is_ncname(body, STRICT):
        return "+u"          # non-ASCII, a strict NCName
    return "+x"              # non-ASCII, not a strict NCName
