"""Core of the runtime-monitoring framework: driver build, driver sessions, sharded runner,
known findings, evidence and verdict printing.  Python 3.11, standard library only."""
import fcntl
import hashlib
import json
import multiprocessing
import os
import random
import re
import select
import shutil
import signal
import subprocess
import sys
import tempfile
import time
import traceback

VERIF = os.path.dirname(os.path.dirname(os.path.abspath(__file__)))
# The registered checks always run against /repo and write below /verif.  For experiments (seeded changes applied to a scratch
# worktree, several people working at once) MATHCAT_REPO points the whole framework at another checkout and VERIF_SCRATCH moves
# every output (target dirs, work files, evidence, replay files) out of /verif.
REPO = os.path.abspath(os.environ.get("MATHCAT_REPO", "/repo"))
RULES = os.path.join(REPO, "Rules")
HARNESS_SRC = os.path.join(VERIF, "harness")
_OUT = os.path.abspath(os.environ["VERIF_SCRATCH"]) if os.environ.get("VERIF_SCRATCH") else VERIF
HARNESS = HARNESS_SRC if (REPO == "/repo" and _OUT == VERIF) else os.path.join(_OUT, "harness")
TARGET = os.path.join(_OUT, "target")
WORK = os.path.join(_OUT, "work")
EVIDENCE = os.path.join(_OUT, "evidence")
REPLAY = os.path.join(_OUT, "replay")
FINDINGS_FILE = os.path.join(VERIF, "known_findings.json")
FINDINGS_DIR = os.path.join(VERIF, "known_findings.d")
NPROC = int(os.environ.get("VERIF_NPROC", "0")) or min(16, os.cpu_count() or 4)

TRIPLE = "x86_64-unknown-linux-gnu"


class Inconclusive(Exception):
    """Harness failure: never a verdict about the property."""


# --------------------------------------------------------------------------------------------
# building the driver
# --------------------------------------------------------------------------------------------
FLAVOURS = {
    # name: (target dir, cargo args, env additions, path of binary relative to target dir)
    "native": ("native", ["build", "--release", "--offline"], {}, "release/mcdriver"),
    "dev": ("native", ["build", "--offline"], {}, "debug/mcdriver"),
    "asan": ("asan", ["+nightly", "build", "--release", "--offline", "--target", TRIPLE],
             {"RUSTFLAGS": "-Zsanitizer=address -Cforce-frame-pointers=yes"}, TRIPLE + "/release/mcdriver"),
    "tsan": ("tsan", ["+nightly", "build", "--release", "--offline", "-Zbuild-std", "--target", TRIPLE],
             {"RUSTFLAGS": "-Zsanitizer=thread"}, TRIPLE + "/release/mcdriver"),
}


def driver_path(flavour="native"):
    tdir, _, _, rel = FLAVOURS[flavour]
    return os.path.join(TARGET, tdir, rel)


def build_driver(flavour="native", quiet=True):
    """(Re)build the driver against the current working tree of /repo.  Serialised with flock."""
    tdir, args, extra_env, rel = FLAVOURS[flavour]
    os.makedirs(TARGET, exist_ok=True)
    lock_path = os.path.join(TARGET, ".lock-" + tdir)
    env = dict(os.environ)
    env.update(extra_env)
    env["CARGO_TARGET_DIR"] = os.path.join(TARGET, tdir)
    env["CARGO_NET_OFFLINE"] = "true"
    env.pop("MathCATRulesDir", None)
    lock_src = os.path.join(REPO, "Cargo.lock")
    lock_dst = os.path.join(HARNESS, "Cargo.lock")
    with open(lock_path, "w") as lock:
        fcntl.flock(lock, fcntl.LOCK_EX)
        if HARNESS != HARNESS_SRC:
            _materialise_harness()
        if not os.path.exists(lock_dst) and os.path.exists(lock_src):
            shutil.copy(lock_src, lock_dst)
        t0 = time.time()
        p = subprocess.run(["cargo"] + args, cwd=HARNESS, env=env, stdout=subprocess.PIPE, stderr=subprocess.STDOUT, text=True)
        if p.returncode != 0:
            sys.stderr.write(p.stdout[-6000:])
            raise Inconclusive("driver build failed for flavour %s" % flavour)
        if not quiet:
            sys.stderr.write("built %s driver in %.1fs\n" % (flavour, time.time() - t0))
    path = os.path.join(TARGET, tdir, rel)
    if not os.path.exists(path):
        raise Inconclusive("driver binary missing: " + path)
    return path


def _materialise_harness():
    """copy of the driver crate whose path dependency points at MATHCAT_REPO (scratch runs only)"""
    os.makedirs(os.path.join(HARNESS, "src"), exist_ok=True)
    os.makedirs(os.path.join(HARNESS, ".cargo"), exist_ok=True)
    for rel in ("src/main.rs", "src/json.rs", ".cargo/config.toml"):
        src, dst = os.path.join(HARNESS_SRC, rel), os.path.join(HARNESS, rel)
        data = open(src, "rb").read()
        if not os.path.exists(dst) or open(dst, "rb").read() != data:
            with open(dst, "wb") as f:
                f.write(data)
    toml = open(os.path.join(HARNESS_SRC, "Cargo.toml")).read().replace('path = "/repo"', 'path = "%s"' % REPO)
    dst = os.path.join(HARNESS, "Cargo.toml")
    if not os.path.exists(dst) or open(dst).read() != toml:
        with open(dst, "w") as f:
            f.write(toml)


# --------------------------------------------------------------------------------------------
# driver sessions
# --------------------------------------------------------------------------------------------
class DriverDied(Exception):
    def __init__(self, returncode, open_op, stderr_tail):
        Exception.__init__(self, "driver died rc=%s during %s" % (returncode, json.dumps(open_op)[:300]))
        self.returncode = returncode
        self.open_op = open_op
        self.stderr_tail = stderr_tail


class DriverTimeout(Exception):
    def __init__(self, open_op, seconds):
        Exception.__init__(self, "driver call exceeded %ss: %s" % (seconds, json.dumps(open_op)[:300]))
        self.open_op = open_op
        self.seconds = seconds


def clean_env(extra=None):
    env = {}
    for k in ("PATH", "HOME", "LANG", "LC_ALL", "RUSTUP_HOME", "CARGO_HOME", "LD_LIBRARY_PATH"):
        if k in os.environ:
            env[k] = os.environ[k]
    xdg = os.path.join(WORK, "xdg-empty")
    os.makedirs(xdg, exist_ok=True)
    env["XDG_CONFIG_HOME"] = xdg      # never read a user's ~/.config/MathCAT/prefs.yaml
    env["RUST_BACKTRACE"] = "0"
    if extra:
        env.update(extra)
    return env


class Driver:
    """One driver subprocess.  Records call and return at the client boundary (self.log, optional)."""

    def __init__(self, flavour="native", env=None, timeout=20.0, stack_kb=8192, keep_log=False, wrapper=None):
        self.flavour = flavour
        self.timeout = timeout
        self.keep_log = keep_log
        self.log = []
        self.ncalls = 0
        self.buf = b""
        self.stderr_file = tempfile.TemporaryFile(dir=_workdir())
        e = clean_env(env)
        e["MCDRIVER_STACK_KB"] = str(stack_kb)
        cmd = [driver_path(flavour)]
        if wrapper:
            cmd = list(wrapper) + cmd
        self.p = subprocess.Popen(cmd, stdin=subprocess.PIPE, stdout=subprocess.PIPE, stderr=self.stderr_file, env=e)
        self.fd = self.p.stdout.fileno()

    # -- low level ---------------------------------------------------------------------------
    def _stderr_tail(self, n=4000):
        try:
            self.stderr_file.seek(0, 2)
            size = self.stderr_file.tell()
            self.stderr_file.seek(max(0, size - n))
            return self.stderr_file.read().decode("utf-8", "replace")
        except Exception:
            return ""

    def _readline(self, timeout, open_op):
        deadline = time.time() + timeout
        while b"\n" not in self.buf:
            remaining = deadline - time.time()
            if remaining <= 0:
                self.kill()
                raise DriverTimeout(open_op, timeout)
            r, _, _ = select.select([self.fd], [], [], min(remaining, 1.0))
            if not r:
                continue
            chunk = os.read(self.fd, 1 << 16)
            if not chunk:
                rc = self.p.wait()
                raise DriverDied(rc, open_op, self._stderr_tail())
            self.buf += chunk
        line, self.buf = self.buf.split(b"\n", 1)
        return line

    def raw(self, obj, timeout=None):
        data = (json.dumps(obj, ensure_ascii=True) + "\n").encode("ascii")
        self.ncalls += 1
        try:
            self.p.stdin.write(data)
            self.p.stdin.flush()
        except (BrokenPipeError, OSError):
            rc = self.p.wait()
            raise DriverDied(rc, obj, self._stderr_tail())
        line = self._readline(timeout or self.timeout, obj)
        try:
            res = json.loads(line.decode("utf-8", "surrogateescape"))
        except ValueError:
            raise Inconclusive("driver protocol error: %r" % line[:200])
        if res.get("r") == "driver_error":
            raise Inconclusive("driver error: %s for %s" % (res.get("e"), json.dumps(obj)[:200]))
        if self.keep_log:
            self.log.append((obj, res))
        return res

    # -- convenience --------------------------------------------------------------------------
    def call(self, op, *args, s=None, timeout=None):
        o = {"op": op, "a": list(args)}
        if s:
            o["s"] = s
        return self.raw(o, timeout)

    def batch(self, ops, s=None, timeout=None):
        """ops: list of (op, arg, ...) tuples; returns list of result dicts"""
        o = {"op": "batch", "a": [{"op": t[0], "a": list(t[1:])} for t in ops]}
        if s:
            o["s"] = s
        return self.raw(o, timeout)["v"]

    def fresh(self, ops, timeout=None):
        o = {"op": "fresh", "a": [{"op": t[0], "a": list(t[1:])} for t in ops]}
        return self.raw(o, timeout)["v"]

    def init(self, prefs=None, rules_dir=None, s=None):
        ops = [("set_rules_dir", rules_dir or RULES)]
        for k, v in (prefs or {}).items():
            ops.append(("set_preference", k, v))
        res = self.batch(ops, s=s)
        for (op, r) in zip(ops, res):
            if r["r"] != "ok":
                raise Inconclusive("driver init failed: %s -> %s" % (op, r))
        return res

    def alive(self):
        return self.p.poll() is None

    def kill(self):
        try:
            self.p.kill()
        except Exception:
            pass
        try:
            self.p.wait(timeout=5)
        except Exception:
            pass

    def close(self):
        try:
            if self.p.poll() is None:
                try:
                    self.p.stdin.write(b'{"op":"quit"}\n')
                    self.p.stdin.flush()
                    self.p.stdin.close()
                except Exception:
                    pass
                try:
                    self.p.wait(timeout=10)
                except Exception:
                    self.kill()
        finally:
            try:
                self.stderr_file.close()
            except Exception:
                pass

    def __enter__(self):
        return self

    def __exit__(self, *a):
        self.close()


class Session:
    """A driver configured with a fixed set of preferences; restarted transparently when it dies.
    prefs is an ordered dict of preference name -> value applied after set_rules_dir."""

    def __init__(self, prefs=None, flavour="native", rules_dir=None, **driver_kw):
        self.prefs = dict(prefs or {})
        self.flavour = flavour
        self.rules_dir = rules_dir
        self.driver_kw = driver_kw
        self.d = None
        self.restarts = 0

    def ensure(self):
        if self.d is None or not self.d.alive():
            if self.d is not None:
                self.d.close()
                self.restarts += 1
            self.d = Driver(self.flavour, **self.driver_kw)
            self.d.init(self.prefs, rules_dir=self.rules_dir)
        return self.d

    def batch(self, ops, timeout=None):
        """returns the list of results, or None when the driver died / timed out (the session restarts on next use);
        the exception is kept in self.last_failure"""
        try:
            return self.ensure().batch(ops, timeout=timeout)
        except (DriverDied, DriverTimeout) as e:
            self.last_failure = e
            self.close()
            return None

    def call(self, op, *args, timeout=None):
        r = self.batch([(op,) + tuple(args)], timeout=timeout)
        return None if r is None else r[0]

    def close(self):
        if self.d is not None:
            self.d.close()
            self.d = None

    def __enter__(self):
        return self

    def __exit__(self, *a):
        self.close()


def init_ops(prefs=None, rules_dir=None):
    ops = [("set_rules_dir", rules_dir or RULES)]
    for k, v in (prefs or {}).items():
        ops.append(("set_preference", k, v))
    return ops


def _workdir():
    os.makedirs(WORK, exist_ok=True)
    return WORK


def describe_exit(rc):
    if rc is None:
        return "running"
    if rc < 0:
        try:
            return "signal " + signal.Signals(-rc).name
        except ValueError:
            return "signal %d" % -rc
    return "exit %d" % rc


def run_miri(ops, timeout=3600, env_extra=None):
    """Run a batch script (list of op dicts, 'quit' appended) in the driver under Miri (cargo +nightly miri run).  Rule loading costs many
    minutes, so this is for the thorough tier only.  Tree Borrows is used because Stacked Borrows objects to the XML DOM dependency
    (sxd-document raw.rs) on the first parse, which is outside the repository.  Returns (list of result dicts, stderr text, return code or None on timeout)."""
    os.makedirs(WORK, exist_ok=True)
    if HARNESS != HARNESS_SRC:
        _materialise_harness()
    lock_dst = os.path.join(HARNESS, "Cargo.lock")
    if not os.path.exists(lock_dst) and os.path.exists(os.path.join(REPO, "Cargo.lock")):
        shutil.copy(os.path.join(REPO, "Cargo.lock"), lock_dst)
    env = dict(os.environ)
    env.update({"CARGO_TARGET_DIR": os.path.join(TARGET, "miri"), "CARGO_NET_OFFLINE": "true",
                "MIRIFLAGS": "-Zmiri-disable-isolation -Zmiri-tree-borrows", "XDG_CONFIG_HOME": os.path.join(WORK, "xdg-empty")})
    env.pop("MathCATRulesDir", None)
    env.update(env_extra or {})
    os.makedirs(env["XDG_CONFIG_HOME"], exist_ok=True)
    script = "".join(json.dumps(o, ensure_ascii=True) + "\n" for o in list(ops) + [{"op": "quit"}])
    out_f = tempfile.NamedTemporaryFile(dir=_workdir(), prefix="miri-out-", delete=False)
    err_f = tempfile.NamedTemporaryFile(dir=_workdir(), prefix="miri-err-", delete=False)
    rc = None
    try:
        p = subprocess.Popen(["cargo", "+nightly", "miri", "run", "--offline"], cwd=HARNESS, env=env, stdin=subprocess.PIPE, stdout=out_f, stderr=err_f)
        try:
            p.stdin.write(script.encode("ascii"))
            p.stdin.close()
        except OSError:
            pass
        try:
            rc = p.wait(timeout=timeout)
        except subprocess.TimeoutExpired:
            p.kill()
            p.wait()
            rc = None
        out_f.flush()
        err_f.flush()
        results = []
        with open(out_f.name, "rb") as f:
            for line in f.read().decode("utf-8", "replace").splitlines():
                try:
                    results.append(json.loads(line))
                except ValueError:
                    pass          # a partial last line when the interpreter was stopped
        with open(err_f.name, "rb") as f:
            stderr = f.read().decode("utf-8", "replace")[-6000:]
    finally:
        for f in (out_f, err_f):
            try:
                f.close()
                os.unlink(f.name)
            except OSError:
                pass
    return results, stderr, rc


# --------------------------------------------------------------------------------------------
# seeds, hashing
# --------------------------------------------------------------------------------------------
def load_factor(cap=6.0):
    """how much slower than on an idle machine a time-budgeted phase must expect to run right now (1 = idle): 1-minute load average per
    core, capped.  Checks whose floor is 'every unit was run' stretch their time budget by it, so that a busy machine makes them slower,
    not inconclusive."""
    try:
        return max(1.0, min(cap, os.getloadavg()[0] / float(os.cpu_count() or 1)))
    except (OSError, AttributeError):
        return 1.0


def get_seed():
    try:
        return int(os.environ.get("VERIF_SEED", "0"))
    except ValueError:
        return 0


def sub_seed(*parts):
    h = hashlib.sha256(("|".join(str(p) for p in parts)).encode()).digest()
    return int.from_bytes(h[:8], "big")


def h16(s):
    if not isinstance(s, (bytes, bytearray)):
        s = str(s).encode("utf-8", "surrogatepass")
    return hashlib.sha1(s).hexdigest()[:16]


# --------------------------------------------------------------------------------------------
# violations, known findings
# --------------------------------------------------------------------------------------------
def violation(kind, sig, witness, detail=""):
    """kind: oracle sub-check; sig: structural signature (stable across seeds); witness: JSON-able replay data"""
    return {"kind": kind, "sig": sig, "witness": witness, "detail": detail}


def load_findings(prop):
    """known_findings.json plus known_findings.d/*.json (all committed, never written at run time)"""
    entries = []
    files = [FINDINGS_FILE] if os.path.exists(FINDINGS_FILE) else []
    if os.path.isdir(FINDINGS_DIR):
        files += [os.path.join(FINDINGS_DIR, f) for f in sorted(os.listdir(FINDINGS_DIR)) if f.endswith(".json")]
    for path in files:
        with open(path) as f:
            entries.extend(json.load(f).get("findings", []))
    opened = [e for e in entries if e.get("property") == prop and not e.get("fixed")]
    fixed = [e for e in entries if e.get("property") == prop and e.get("fixed")]
    return opened, fixed


PREDICATES = {}     # name -> fn(violation, params) -> bool ; registered by the property modules


def match_finding(v, findings):
    """A finding matches by exact signature, by signature regex, or by a named predicate over the minimal witness
    (the predicate may replay variants of the witness); 'signature_regex' and 'predicate' must both hold when both are given."""
    for f in findings:
        ok = None
        if f.get("signature") is not None:
            ok = f["signature"] == v["sig"]
        if f.get("signature_regex") is not None:
            ok = (ok is not False) and re.search(f["signature_regex"], v["sig"]) is not None
        if ok is not False and f.get("predicate") is not None:
            fn = PREDICATES.get(f["predicate"]["name"])
            try:
                ok = bool(fn and fn(v, f["predicate"]))
            except Inconclusive:
                raise
            except Exception:
                ok = False
        if ok:
            return f
    return None


def replay_findings(prop, replay_fn):
    """Replay the stored witness of every open and every fixed finding of this property.
    Returns (known_replayed {id: still fails?}, fixed_failures [violations], extra [violations that a known witness
    produced but that do not match its own signature])."""
    opened, fixed = load_findings(prop)
    known, fixed_failures, extra = {}, [], []
    for f in opened:
        if f.get("witness") is None:
            continue
        vs = replay_fn(f["witness"])
        known[f["id"]] = any(match_finding(v, [f]) is not None for v in vs)
        extra.extend(v for v in vs if match_finding(v, opened) is None)
    for f in fixed:
        if f.get("witness") is None:
            continue
        for v in replay_fn(f["witness"]):
            other = match_finding(v, opened)
            if other is not None:
                # the witness of a repaired defect also runs into a DIFFERENT defect that is recorded as open: that one is reported under its own id
                known[other["id"]] = True
                continue
            v = dict(v)
            v["sig"] = "regression-of-fixed:" + f["id"] + ":" + v["sig"]
            fixed_failures.append(v)
    return known, fixed_failures, extra


# --------------------------------------------------------------------------------------------
# sharded execution
# --------------------------------------------------------------------------------------------
def _shard_entry(args):
    fn, spec = args
    try:
        return fn(spec)
    except Inconclusive as e:
        return {"harness_error": "Inconclusive: %s" % e}
    except Exception:
        return {"harness_error": traceback.format_exc()}


def run_shards(fn, specs, procs=None):
    """Run fn(spec) for each spec in worker processes.  fn must be a module-level function."""
    procs = procs or NPROC
    if len(specs) == 1 or procs == 1:
        return [_shard_entry((fn, s)) for s in specs]
    ctx = multiprocessing.get_context("fork")
    with ctx.Pool(min(procs, len(specs))) as pool:
        return pool.map(_shard_entry, [(fn, s) for s in specs], chunksize=1)


class Stats:
    """Mergeable per-shard statistics."""

    def __init__(self):
        self.evaluations = 0
        self.nontrivial = set()        # hashes of distinct non-trivial cases
        self.samples = []
        self.violations = []
        self.counters = {}
        self.sets = {}
        self.inconclusive = 0
        self.notes = []

    def count(self, key, n=1):
        self.counters[key] = self.counters.get(key, 0) + n

    def add(self, key, value):
        self.sets.setdefault(key, set()).add(value)

    def sample(self, s, limit=4):
        if len(self.samples) < limit:
            self.samples.append(s)

    def to_dict(self):
        return {"evaluations": self.evaluations, "nontrivial": list(self.nontrivial), "samples": self.samples,
                "violations": self.violations, "counters": self.counters,
                "sets": {k: sorted(v) for k, v in self.sets.items()}, "inconclusive": self.inconclusive, "notes": self.notes}

    @staticmethod
    def merge(dicts):
        out = Stats()
        errors = []
        for d in dicts:
            if d is None:
                continue
            if "harness_error" in d:
                errors.append(d["harness_error"])
                continue
            out.evaluations += d["evaluations"]
            out.nontrivial.update(d["nontrivial"])
            for s in d["samples"]:
                if len(out.samples) < 8:
                    out.samples.append(s)
            out.violations.extend(d["violations"])
            for k, v in d["counters"].items():
                out.counters[k] = out.counters.get(k, 0) + v
            for k, v in d["sets"].items():
                out.sets.setdefault(k, set()).update(v)
            out.inconclusive += d["inconclusive"]
            out.notes.extend(d["notes"])
        return out, errors


# --------------------------------------------------------------------------------------------
# evidence + verdict
# --------------------------------------------------------------------------------------------
def write_evidence(prop, tier, seed, level, coverage, assumptions, wall_s, violations):
    os.makedirs(EVIDENCE, exist_ok=True)
    ev = {"property_id": prop, "tier": tier, "seed": seed, "level": level, "coverage": coverage,
          "assumptions": assumptions, "wall_s": round(wall_s, 2), "violations": violations}
    tmp = os.path.join(EVIDENCE, ".%s.json.tmp" % prop)
    with open(tmp, "w") as f:
        json.dump(ev, f, indent=1, ensure_ascii=False, sort_keys=False)
        f.write("\n")
    os.replace(tmp, os.path.join(EVIDENCE, prop + ".json"))


def write_replay(prop, v, seed, tier):
    d = os.path.join(REPLAY, prop)
    os.makedirs(d, exist_ok=True)
    path = os.path.join(d, h16(v["sig"]) + ".json")
    with open(path, "w") as f:
        json.dump({"property": prop, "signature": v["sig"], "kind": v["kind"], "detail": v["detail"],
                   "witness": v["witness"], "seed": seed, "tier": tier,
                   "replay_cmd": "./check %s --replay %s" % (prop, path)}, f, indent=1, ensure_ascii=False)
        f.write("\n")
    return path


def conclude(prop, tier, seed, level, stats, coverage_extra, assumptions, t0, rule, min_nontrivial=2,
             known_replayed=None, harness_errors=None, fixed_failures=None):
    """Cluster violations by signature, classify against known findings, write evidence, print verdict lines.
    Returns the process exit code."""
    opened, fixed = load_findings(prop)
    clusters = {}
    for v in stats.violations:
        c = clusters.setdefault(v["sig"], {"v": v, "n": 0})
        c["n"] += v.get("count", 1)
    new = []
    known_counts = {}
    for sig, c in sorted(clusters.items()):
        f = match_finding(c["v"], opened)
        if f is not None:
            known_counts[f["id"]] = known_counts.get(f["id"], 0) + c["n"]
        else:
            new.append(c)
    lines = []
    known_report = []
    for f in opened:
        reproduced = (known_replayed or {}).get(f["id"])
        n = known_counts.get(f["id"], 0)
        if reproduced or n:
            lines.append("KNOWN-FINDING: property=%s %s" % (prop, f["what"]))
        known_report.append({"id": f["id"], "witness_still_fails": bool(reproduced), "matched_in_workload": n})
    rc = 0
    viol_out = []
    for c in new:
        path = write_replay(prop, c["v"], seed, tier)
        lines.append("VIOLATION property=%s replay=%s" % (prop, path))
        viol_out.append({"signature": c["v"]["sig"], "kind": c["v"]["kind"], "count": c["n"], "detail": c["v"]["detail"][:600], "replay": path})
        rc = 1
    for ff in (fixed_failures or []):
        path = write_replay(prop, ff, seed, tier)
        lines.append("VIOLATION property=%s replay=%s" % (prop, path))
        viol_out.append({"signature": ff["sig"], "kind": ff["kind"], "count": 1, "detail": "regression of a fixed finding: " + ff["detail"][:500], "replay": path})
        rc = 1
    coverage = {"evaluations": stats.evaluations, "distinct_nontrivial": len(stats.nontrivial), "rule": rule,
                "samples": stats.samples[:8] if stats.samples else []}
    coverage["counters"] = dict(sorted(stats.counters.items()))
    for k, v in sorted(stats.sets.items()):
        vv = sorted(v)
        coverage["distinct_" + k] = len(vv)
        coverage["seen_" + k] = vv if len(vv) <= 60 else vv[:60] + ["… %d more" % (len(vv) - 60)]
    coverage["inconclusive_cases"] = stats.inconclusive
    coverage["known_findings"] = known_report
    coverage["new_violation_clusters"] = viol_out
    if stats.notes:
        coverage["notes"] = stats.notes[:20]
    coverage.update(coverage_extra or {})
    verdict = "violated" if rc else "held"
    if harness_errors:
        coverage["harness_errors"] = [e[-1500:] for e in harness_errors[:5]]
    if not rc and (harness_errors or len(stats.nontrivial) < min_nontrivial or not stats.samples):
        verdict = "inconclusive"
    coverage["verdict"] = verdict
    write_evidence(prop, tier, seed, level, coverage, assumptions, time.time() - t0, len(viol_out))
    for l in lines:
        print(l)
    print("%s %s tier=%s seed=%d evaluations=%d distinct_nontrivial=%d known=%d new=%d wall=%.1fs" % (
        prop, verdict.upper(), tier, seed, stats.evaluations, len(stats.nontrivial),
        sum(1 for k in known_report if k["witness_still_fails"] or k["matched_in_workload"]), len(viol_out), time.time() - t0))
    sys.stdout.flush()
    if rc:
        return 1
    if verdict == "inconclusive":
        for e in (harness_errors or [])[:3]:
            sys.stderr.write(e[-3000:] + "\n")
        print("INCONCLUSIVE property=%s (harness failure or too few observations; not a verdict)" % prop)
        return 2
    return 0
