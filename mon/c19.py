"""C19 — illegal intent values are ignored or reported as configured; a well-formed name(args) intent is honoured.

Runtime monitor over get_spoken_text.  The oracle is (a) an own recogniser of the W3C intent grammar (c19_grammar.py) plus the
specification's scoping rule for $references, which decide for every intent attribute of an expression whether it is legal,
illegal (syntax / dangling reference / out-of-scope reference / nests an illegal value) or disputed between readings of the
specification, and which attributes an intent processor has to look at; (b) metamorphic relations inside one session:
speech under IntentErrorRecovery=IgnoreIntent == speech of the same expression without the illegal attributes, Error mode returns
Err, a second call answers the same, the attribute is still on the live tree (get_navigation_mathml), and speech in IgnoreIntent
mode after Error-mode calls on the same tree is unchanged; (c) for made-up concept names applied to $references: the concept words
and every planted literal of the referenced operands are in the speech."""
import os
import random
import re
import time
import xml.etree.ElementTree as ET

from . import c19_grammar as G
from . import configs, core, gen, mml, shrink

PROP = "C19"
LIT_RX = re.compile(r"\d\d[.,]\d\d")
HOST_2D = ("mfrac", "msup", "msub", "msqrt", "mroot", "mover", "munder", "mtable")
HOST_TOKENS = ("mn", "mi", "mtext", "mo")
NOT_OPERAND = ("mo", "mtr", "mlabeledtr", "mtd", "none", "mprescripts", "annotation", "annotation-xml", "semantics")
NSHARDS = 16
DEPTH_BUCKETS = [(0, "0"), (2, "1-2"), (5, "3-5"), (20, "6-20"), (50, "21-50"), (100, "51-100"), (200, "101-200"), (10 ** 9, ">200")]

# --------------------------------------------------------------------------------------------
# analysis of an expression: which intent attributes are legal / illegal / disputed, and which ones a processor must look at
# --------------------------------------------------------------------------------------------


def scope_args(host):
    """$name on host refers to the first descendant in document order with arg=name; the search does not descend into elements
    that carry arg or intent (MathML 4, 'intent' chapter)."""
    out = {}

    def rec(e):
        for c in e:
            a = c.get("arg")
            if a is not None:
                out.setdefault(a, c)
                continue
            if c.get("intent") is not None:
                continue
            rec(c)
    rec(host)
    return out


class Analysis:
    def __init__(self, root):
        self.root = root
        self.attrs = [e for e in root.iter() if e.get("intent") is not None]
        self.j = {}
        self.eff = {}
        self.scope = {}
        for e in self.attrs:
            self.j[e] = G.judge(e.get("intent"))
        for e in self.attrs:
            self._effective(e)
        self.live = []
        self._visit(root)
        self.dead = [e for e in self.attrs if e not in self.live]
        live_cls = [self.eff[e][0] for e in self.live]
        if not self.live:
            self.cls = None
        elif G.DISPUTED in live_cls:
            self.cls = G.DISPUTED
        elif G.ILLEGAL in live_cls:
            self.cls = G.ILLEGAL
        else:
            self.cls = G.LEGAL
        if self.cls == G.ILLEGAL:
            self.remove = [e for e in self.live if self.eff[e][0] == G.ILLEGAL]
        elif self.cls == G.DISPUTED:
            self.remove = [e for e in self.live if self.eff[e][0] != G.LEGAL]
        else:
            self.remove = list(self.attrs)

    def _effective(self, e):
        if e in self.eff:
            return self.eff[e]
        j = self.j[e]
        if j.cls == G.ILLEGAL:
            self.eff[e] = (G.ILLEGAL, "syntax")
            return self.eff[e]
        if j.cls == G.DISPUTED:
            self.eff[e] = (G.DISPUTED, j.why)
            return self.eff[e]
        sc = self.scope[e] = scope_args(e)
        res = (G.LEGAL, "")
        for name in j.node.refs():
            t = sc.get(name)
            if t is None:
                anywhere = any(d is not e and d.get("arg") == name for d in e.iter())
                res = (G.ILLEGAL, "out-of-scope-reference" if anywhere else "dangling-reference")
                break
            if t.get("intent") is not None:
                c2, w2 = self._effective(t)
                if c2 == G.ILLEGAL:
                    res = (G.ILLEGAL, "nests-illegal")
                    break
                if c2 == G.DISPUTED:
                    res = (G.DISPUTED, "nests-disputed")
        self.eff[e] = res
        return res

    def _visit(self, e):
        if e.get("intent") is not None:
            if e not in self.live:
                self.live.append(e)
            cls = self.eff[e][0]
            j = self.j[e]
            if cls != G.LEGAL or j.property_only:
                for c in e:
                    self._visit(c)
                return
            self._visit_refs(e)
            return
        for c in e:
            self._visit(c)

    def _visit_refs(self, e):
        sc = self.scope.get(e) or scope_args(e)
        for name in self.j[e].node.refs():
            t = sc.get(name)
            if t is None:
                continue
            if t.get("intent") is not None:
                if t not in self.live:
                    self.live.append(t)
                    if self.j[t].node is not None and not self.j[t].property_only:
                        self._visit_refs(t)
                    elif self.j[t].property_only:
                        for c in t:
                            self._visit(c)
            else:
                for c in t:
                    self._visit(c)

    def summary(self):
        return sorted((e.get("intent").strip(), self.eff[e][0], self.eff[e][1], e in self.live) for e in self.attrs)

    def describe(self, e):
        return "%s[%s%s: %s]" % (mml.local(e.tag), self.eff[e][0], "/" + self.eff[e][1] if self.eff[e][1] else "",
                                 G.token_classes(e.get("intent"))[:160])

    def abstract(self, e):
        """what the signature keeps of one attribute: standing and coarse shape of the value (no host tag, no names)"""
        return "%s%s:%s" % (self.eff[e][0], "/" + self.eff[e][1].replace(" ", "-") if self.eff[e][1] else "", value_shape(e.get("intent")))

    def abstract_all(self):
        """the attributes a processor looks at; next to illegal or disputed ones, legal attributes are listed only when they start
        with or contain a property list (the one legal form that makes the library re-match the element itself)"""
        keep = [e for e in self.live if self.cls == G.LEGAL or self.eff[e][0] != G.LEGAL or "property" in value_shape(e.get("intent"))]
        return " ; ".join(sorted(set(self.abstract(e) for e in keep))) or "-"


def value_shape(v):
    toks = [t for t in G.token_classes(v).split(" ") if t and t not in ("S", "UWS")]
    if not toks:
        return "empty"
    flags = []
    if toks[0].startswith("PROP"):
        flags.append("property-first")
    if any(toks[i].startswith("PROP") and toks[i - 1] in ("(", ",") for i in range(1, len(toks))):
        flags.append("property-argument")
    if G.judge(v).cls == G.ILLEGAL and G.trailing_input(v):
        flags.append("trailing-input")
    if not flags:
        if any(not all(ord(c) < 0x80 for c in t) for t in v):
            flags.append("non-ascii")
        else:
            flags.append("ascii")
    return ",".join(flags)


def serialise(root, drop=()):
    """XML of the expression with the intent attribute removed from the elements in drop"""
    saved = [(e, e.get("intent")) for e in drop]
    for e, _ in saved:
        del e.attrib["intent"]
    try:
        return ET.tostring(root, encoding="unicode")
    finally:
        for e, v in saved:
            e.set("intent", v)


def canon_key(e, drop_ids):
    """structure of a MathML tree without generated ids and without the intent attribute of the elements whose id() is in drop_ids"""
    attrs = tuple(sorted((k, v) for k, v in e.attrib.items()
                         if k not in ("id", "data-id-added") and not (k == "intent" and id(e) in drop_ids)))
    return (mml.local(e.tag), attrs, (e.text or "").strip(), tuple(canon_key(c, drop_ids) for c in e))


def intents_of(root):
    return sorted(e.get("intent") for e in root.iter() if e.get("intent") is not None)


# --------------------------------------------------------------------------------------------
# running one expression and judging it
# --------------------------------------------------------------------------------------------
def prefs_for(cfg):
    return {"TTS": "None", "Language": cfg["lang"], "SpeechStyle": cfg["style"], "IntentErrorRecovery": "IgnoreIntent"}


class Sess(core.Session):
    def __init__(self, cfg):
        core.Session.__init__(self, prefs_for(cfg))
        self.cfg = cfg
        self.decimal = None

    def get_decimal(self):
        if self.decimal is None:
            r = self.call("get_preference", "DecimalSeparators")
            self.decimal = (r.get("v") or ".")[0] if r and r["r"] == "ok" else "."
        return self.decimal


I_REF_SET, I_REF, I_SET, I_I1, I_NAVI, I_I2, _, I_SET2, I_E1, I_NAVE, I_E2, _, I_X, I_NAVX = range(1, 15)


def ops_for(xml_with, xml_ref):
    return [("set_preference", "IntentErrorRecovery", "IgnoreIntent"),
            ("set_mathml", xml_ref), ("get_spoken_text",),
            ("set_mathml", xml_with), ("get_spoken_text",), ("get_navigation_mathml",), ("get_spoken_text",),
            ("set_preference", "IntentErrorRecovery", "Error"),
            ("set_mathml", xml_with), ("get_spoken_text",), ("get_navigation_mathml",), ("get_spoken_text",),
            ("set_preference", "IntentErrorRecovery", "IgnoreIntent"),
            ("get_spoken_text",), ("get_navigation_mathml",)]


def res_key(r):
    """what two answers must agree on: kind of result and, when Ok, the value"""
    if r["r"] == "ok":
        return ("ok", r["v"] if not isinstance(r["v"], list) else r["v"][0])
    return (r["r"],)


def short(r, n=300):
    if r["r"] == "ok":
        v = r["v"] if not isinstance(r["v"], list) else r["v"][0]
        return "Ok(%r)" % v[:n]
    if r["r"] == "panic":
        return "PANIC(%s at %s)" % (r["p"]["msg"][:200], r["p"]["fn"].split(" <- ")[0])
    return "Err(%s)" % " | ".join(l for l in (r.get("e") or "").splitlines() if l.startswith("caused by") or "ntent" in l)[-n:]


def norm(s):
    return re.sub(r"\s+", "", s).lower()


def msg_class(msg):
    m = re.sub(r"'[^']*'|\"[^\"]*\"|`[^`]*`", "'…'", msg)
    m = re.sub(r"\d+", "N", m)
    return m[:100]


class Outcome:
    def __init__(self):
        self.violations = []        # (kind, detail, extra signature part)
        self.cls = None
        self.status = "judged"      # judged | trivial | died | set-mathml-failed | canonicalisation-differs | ...
        self.nontrivial = False
        self.notes = []             # counters to bump
        self.analysis = None
        self.speech = None
        self.detail = ""

    def kinds(self):
        return set(v[0] for v in self.violations)


def find_dying_op(cfg, ops):
    """re-run the operations one at a time in a new process; returns (index, op, exit description) or None"""
    d = core.Driver("native")
    try:
        d.init(prefs_for(cfg))
        for i, op in enumerate(ops):
            try:
                d.call(*op, timeout=60)
            except core.DriverDied as e:
                return i, op, core.describe_exit(e.returncode)
            except core.DriverTimeout:
                return None
        return None
    finally:
        d.close()


def reached_intent(sess, xml_with, mode):
    """guard, not oracle: did the library look at any intent attribute while speaking (rule 'intent-exists' of Rules/intent.yaml fired)?
    None when unknown."""
    r = sess.batch([("set_preference", "IntentErrorRecovery", mode), ("set_mathml", xml_with), ("rule_hits",), ("get_spoken_text",),
                    ("rule_hits",), ("set_preference", "IntentErrorRecovery", "IgnoreIntent")])
    if r is None or r[4]["r"] != "ok" or not isinstance(r[4]["v"], dict):
        return None
    if r[3]["r"] != "ok":
        return "err"
    n = 0
    for k, c in r[4]["v"].items():
        t = k.split("|")
        if len(t) >= 4 and t[0] == "Intent" and (t[3] == "intent-exists" or (t[1].endswith("/intent.yaml") and t[2] == "!*" and t[3] != "turn-off")):
            n += c if isinstance(c, int) else 1
    return n > 0


def judge_xml(sess, xml, made_up=()):
    """Run one expression under both recovery settings and judge it.  Everything the oracle needs is derived from the XML."""
    out = Outcome()
    try:
        root = ET.fromstring(xml)
    except ET.ParseError:
        out.status = "not-xml"
        return out
    an = out.analysis = Analysis(root)
    out.cls = an.cls
    if an.cls is None:
        out.status = "trivial"
        return out
    xml_with = serialise(root)
    xml_ref = serialise(root, an.remove)
    ops = ops_for(xml_with, xml_ref)
    r = sess.batch(ops, timeout=60)
    if r is None:
        fail = getattr(sess, "last_failure", None)
        out.status = "died"
        if isinstance(fail, core.DriverDied):
            where = find_dying_op(sess.cfg, ops)
            if where is not None and where[1][0] != "set_mathml" and where[0] > I_REF:
                again = find_dying_op(sess.cfg, ops)
                if again is not None and again[0] == where[0]:
                    out.violations.append(("abort", "the process died (%s) in %s (operation %d of the case) although the expression without the "
                                                    "intent attribute is spoken" % (where[2], where[1][0], where[0]), "%s:%s" % (where[2], where[1][0])))
                    out.status = "judged"
        return out
    for i, x in enumerate(r):
        if x["r"] == "panic" and ops[i][0] != "set_mathml":
            out.violations.append(("panic", "%s (operation %d, %s mode) panicked: %s at %s" % (
                ops[i][0], i, "Error" if I_SET2 <= i <= I_E2 else "IgnoreIntent", x["p"]["msg"][:300], x["p"]["fn"]),
                "%s:%s" % (x["p"]["fn"].split(" <- ")[0], msg_class(x["p"]["msg"]))))
    if out.violations:
        return out
    if r[I_SET]["r"] != "ok" or r[I_SET2]["r"] != "ok" or r[I_REF_SET]["r"] != "ok":
        out.status = "set-mathml-" + ("panic" if "panic" in (r[I_SET]["r"], r[I_REF_SET]["r"], r[I_SET2]["r"]) else "err")   # C08's business
        return out
    try:
        canon_ref = ET.fromstring(r[I_REF_SET]["v"])
        canon = ET.fromstring(r[I_SET]["v"])
        canon2 = ET.fromstring(r[I_SET2]["v"])
        navs = {}
        for name, i in (("after IgnoreIntent calls", I_NAVI), ("after Error calls", I_NAVE), ("after Error then IgnoreIntent calls", I_NAVX)):
            navs[name] = ET.fromstring(r[i]["v"][0]) if r[i]["r"] == "ok" else None
    except ET.ParseError:
        out.status = "unparsable-mathml-returned"        # C02's business
        return out
    # the expression MathCAT holds must still carry the author's intent attributes (a dropped or duplicated attribute is C01/C02's business).
    # Their standing is the one they have in the author's expression: when the clean-up of set_mathml changes what a value means (a kept
    # row merged with its only surviving child turns '$x' into a self-reference), the case is judged by the input all the same.
    can = Analysis(canon)
    if sorted(x[0] for x in can.summary()) != sorted(x[0] for x in an.summary()):
        out.status = "canonicalisation-changed-intent-attributes"
        return out
    standing_changed = can.summary() != an.summary()
    nesting_by_clean_up = False
    if standing_changed:
        out.notes.append("clean_up_changes_intent_standing")
        # One change of standing is the tolerated behaviour of DESIGN 6/C19 reached through the clean-up: a wrapper that renders nothing
        # (mpadded, mstyle, one-child mrow) is dissolved and its arg moves onto a child that carries an illegal intent, so the outer value
        # now references an element with an illegal value directly ('nests illegally').  Written that way in the input
        # (<mover intent='f($b)'><mn arg='b' intent=''>..) the outer attribute counts as illegal too and both are ignored; the same
        # expectation cannot be demanded from the input's standing, so only the standing-independent relations are judged.
        diffs = [(x, y) for x, y in zip(an.summary(), can.summary()) if x != y]
        nests = ((G.ILLEGAL, "nests-illegal"), (G.DISPUTED, "nests-disputed"))
        nesting_by_clean_up = (any(x[1:3] != y[1:3] for x, y in diffs)
                               and all(x[1:3] == y[1:3] or (x[1] == G.LEGAL and y[1:3] in nests) for x, y in diffs)
                               and any(x[1] != G.LEGAL for x in an.summary()))
    removed_values = [e.get("intent").strip() for e in an.remove]
    drop = set()
    for e in can.attrs:
        v = e.get("intent").strip()
        if v in removed_values:
            removed_values.remove(v)
            drop.add(id(e))
    same_canon = canon_key(canon, drop) == canon_key(canon_ref, set())
    REF, I1, I2, E1, E2, X = r[I_REF], r[I_I1], r[I_I2], r[I_E1], r[I_E2], r[I_X]
    out.speech = {"ref": short(REF, 200), "ignore": short(I1, 200), "error": short(E1, 200)}
    desc = "; ".join(an.describe(e) for e in an.live)
    facts = "intent attributes: %s | IgnoreIntent -> %s | Error -> %s | without the attribute(s) -> %s" % (desc, short(I1), short(E1), short(REF))
    out.detail = facts

    def bad(kind, what, extra=""):
        if standing_changed:
            extra = (extra + "+" if extra else "") + "standing-changed-by-clean-up"
            what += " | set_mathml returned " + " ".join(mml.strip_ids(r[I_SET]["v"]).split())[:500]
        out.violations.append((kind, what + " | " + facts, extra))

    # -- every class: same answer twice, live tree intact, Error-mode calls leave no trace -----------------------
    if res_key(I2) != res_key(I1):
        bad("second-call-differs", "IgnoreIntent: second get_spoken_text gave %s" % short(I2), "ignore")
    if res_key(E2) != res_key(E1):
        bad("second-call-differs", "Error: second get_spoken_text gave %s" % short(E2), "error")
    if res_key(X) != res_key(I1):
        bad("after-error-differs", "IgnoreIntent speech on the tree that Error-mode calls had worked on gave %s" % short(X))
    want = intents_of(canon)
    for name, nav in navs.items():
        if nav is None:
            out.notes.append("get_navigation_mathml_failed")
        elif intents_of(nav) != want:
            got = intents_of(nav)
            lost = list(want)
            for v in got:
                if v in lost:
                    lost.remove(v)
            bad("attr-lost", "intent attributes on the live tree %s: %s, expected %s" % (name, got, want),
                "%s:lost=%s" % (name.replace(" ", "-"), "+".join(sorted(set(value_shape(v) for v in lost))) or "none(changed)"))
    # -- class specific ------------------------------------------------------------------------------------------
    if nesting_by_clean_up:
        out.notes.append("clean_up_puts_illegal_value_on_referenced_element")
        out.status = "judged-standing-independent-relations-only"
        return out
    ref_ok = REF["r"] == "ok"
    if not ref_ok:
        out.notes.append("reference_speech_failed")
    if an.cls == G.ILLEGAL:
        out.nontrivial = E1["r"] == "err"
        if I1["r"] != "ok" and ref_ok:
            bad("ignore-failed", "IgnoreIntent: an illegal intent value made get_spoken_text fail")
        elif I1["r"] == "ok" and ref_ok:
            if not same_canon:
                out.notes.append("canonicalisation_differs_with_attribute")
            elif I1["v"] != REF["v"]:
                bad("ignore-differs", "IgnoreIntent: speech differs from the speech of the expression without the illegal attribute(s)")
        if E1["r"] == "ok":
            # guard: with only the illegal attributes left in the expression, does the library look at any of them?
            reached = reached_intent(sess, serialise(root, [e for e in an.attrs if e not in an.remove]), "Error")
            if reached is None:
                out.notes.append("reach_unknown")
            elif reached == "err" and not _only_property_values_above(root, an):
                out.notes.append("illegal_attribute_hidden_by_another_attribute")
            elif reached == "err":
                # the only other attributes above the illegal one are property-only values (':literal', ':prefix', ...): they name no concept
                # and reference nothing, so the content below them is still read and the illegal value must be reported
                bad("illegal-accepted", "Error: get_spoken_text returned Ok although the value is illegal (%s) and the intent attributes above it "
                                        "are properties only" % ", ".join(sorted(set(an.eff[e][1] for e in an.remove))), "below-property-only")
            elif not reached:
                out.notes.append("illegal_attribute_never_looked_at")
            else:
                bad("illegal-accepted", "Error: get_spoken_text returned Ok although the value is illegal (%s)" % ", ".join(
                    sorted(set(an.eff[e][1] for e in an.remove))))
    else:
        # disputed between readings, or legal: whichever way MathCAT reads the value, both settings must tell the same story
        if E1["r"] == "ok":
            out.nontrivial = ref_ok and same_canon and E1["v"] != REF["v"]
            if res_key(I1) != res_key(E1):
                bad("modes-differ", "the value is accepted in Error mode but IgnoreIntent speaks something else")
            out.notes.append("mathcat_reads_as_legal:" + an.cls)
        else:
            out.nontrivial = True
            out.notes.append("mathcat_reads_as_illegal:" + an.cls)
            if I1["r"] != "ok" and ref_ok:
                # not covered by the statement: e.g. a known concept name applied to the wrong number of arguments fails in its speech rule
                out.notes.append("speech_fails_in_both_modes_on_a_value_that_is_not_clearly_illegal")
            elif I1["r"] == "ok" and ref_ok and same_canon and len(an.live) == 1 and an.remove == an.live and I1["v"] != REF["v"]:
                # (only with a single attribute in play is it clear which value the Err of Error mode was about)
                bad("ignore-differs", "IgnoreIntent: the value is rejected in Error mode but speech differs from the speech without the attribute")
        if an.cls == G.LEGAL:
            positive(out, an, made_up, I1, E1, REF, sess, xml_with, bad)
    return out


_PROPS_ONLY = re.compile(r"^\s*(:[A-Za-z_][A-Za-z0-9_.\-]*)+\s*$")


def _only_property_values_above(root, an):
    """the only OTHER intent attributes of the expression are property-only values on ancestors of every illegal attribute's element (an
    attribute elsewhere -- a sibling, a descendant -- can change which rule looks at the element, so it may still hide the illegal one)"""
    parent = {c: p for p in root.iter() for c in p}
    others = [e for e in an.attrs if e not in an.remove]
    if not others:
        return False
    for o in others:
        if not _PROPS_ONLY.match(o.get("intent") or ""):
            return False
    for e in an.remove:
        anc = set()
        q = parent.get(e)
        while q is not None:
            anc.add(q)
            q = parent.get(q)
        if any(o not in anc for o in others):
            return False
    return True


def clear_cut(an, e, made_up):
    """name($r1,$r2,...) with a made-up ASCII name: returns (name, [targets]) or None"""
    j = an.j[e]
    node = j.node
    if j.cls != G.LEGAL or node is None or node.head is None or node.head[0] != "NAME" or node.props or len(node.calls) != 1:
        return None
    name = node.head[1]
    if name not in made_up or not name.strip("_-") or not all(ord(c) < 0x80 for c in e.get("intent")):
        return None
    args = node.calls[0]
    if not args or any(a.head is None or a.head[0] != "REF" or a.props or a.calls for a in args):
        return None
    sc = an.scope.get(e) or scope_args(e)
    return name, [sc[a.head[1][1:]] for a in args]


def positive(out, an, made_up, I1, E1, REF, sess, xml_with, bad):
    """third sentence of the statement: a well-formed name(args) intent on well-formed arguments is honoured"""
    # only attributes a processor reaches from the top (not those evaluated through a reference of another attribute)
    tops = []
    if not all(plain(an.j[e].node, made_up) and all(ord(ch) < 0x80 for ch in e.get("intent")) for e in an.live):
        # clear-cut only: every attribute involved is built from made-up names, numbers and references (no properties, no known
        # concept whose own rule decides wording and arity, no non-ASCII names)
        out.notes.append("positive_skipped_other_than_plain_values_involved")
        return
    for e in an.live:
        cc = clear_cut(an, e, made_up)
        if cc is not None:
            tops.append((e, cc))
    if not tops:
        return
    referenced = set()
    for e in an.live:
        sc = an.scope.get(e) or {}
        if an.j[e].node is not None:
            for nme in an.j[e].node.refs():
                if nme in sc:
                    referenced.add(sc[nme])
    problems = []
    for e, (name, targets) in tops:
        if e in referenced:
            continue        # spoken as the argument of another concept: the outer rule decides the wording
        if REF["r"] != "ok":
            out.notes.append("positive_skipped_reference_speech_fails")       # the expression cannot be spoken with or without intent: C04's
            continue
        ref_speech = norm(REF["v"])
        host_lits = [d.text.strip() for d in e.iter() if mml.local(d.tag) == "mn" and LIT_RX.fullmatch((d.text or "").strip())]
        if any(l not in ref_speech for l in host_lits):
            out.notes.append("positive_skipped_host_not_fully_spoken_without_intent")     # e.g. a script the language's rules never speak: C04's
            continue
        if E1["r"] != "ok" or I1["r"] != "ok":
            problems.append((e, "legal-rejected", "%s on <%s> is well formed and its references resolve, but get_spoken_text fails" % (e.get("intent"), mml.local(e.tag)), ""))
            continue
        words = [w for w in re.split(r"[-_]+", name) if w]
        lits = []
        for t in targets:
            if any(d.get("intent") is not None for d in t.iter()):
                continue
            for d in t.iter():
                if mml.local(d.tag) == "mn" and LIT_RX.fullmatch((d.text or "").strip()):
                    lit = d.text.strip()
                    if lit in ref_speech:       # an operand that is lost without any intent is C04's
                        lits.append(lit)
        for label, r in (("IgnoreIntent", I1), ("Error", E1)):
            sp = norm(r["v"])
            missing_w = [w for w in words if w.lower() not in sp]
            missing_l = [l for l in lits if l not in sp]
            if missing_w or missing_l:
                problems.append((e, "legal-not-honoured", "%s: speech %r lacks %s of intent %r" % (
                    label, r["v"][:300], "concept word(s) %s" % missing_w if missing_w else "referenced literal(s) %s" % missing_l, e.get("intent")),
                    "concept" if missing_w else "literal"))
                break
        out.notes.append("positive_checked")
        out.notes.append("positive_literals_checked:%d" % len(lits))
    for e, k, w, x in problems:
        # guard 1: with only this attribute left in the expression, does the library look at it?
        reached = reached_intent(sess, serialise(an.root, [a for a in an.attrs if a is not e]), "IgnoreIntent")
        if reached is False:
            out.notes.append("legal_attribute_never_looked_at")
            continue
        if reached is None:
            out.notes.append("reach_unknown")
            continue
        # guard 2: is the place of the host spoken at all by this language's rules?  (a number put there must be heard)
        spoken = host_position_spoken(sess, an, e)
        if spoken is False:
            out.notes.append("positive_skipped_host_position_never_spoken")        # an operand the rules drop with or without intent: C04's
        elif spoken is None:
            out.notes.append("reach_unknown")
        else:
            bad(k, w, x)


def plain(node, made_up):
    if node is None:
        return False
    if node.props:
        return False
    if node.head is None:
        return False
    kind, text = node.head
    if kind == "NAME" and not (text in made_up or text.startswith("_")):
        return False
    return all(plain(a, made_up) for args in node.calls for a in args)


def host_position_spoken(sess, an, e):
    """replace the host by a number that occurs nowhere else (all intent attributes removed) and listen for it"""
    dec = sess.get_decimal()
    text = "".join(an.root.itertext())
    probe = next(("%d%s%d" % (a, dec, b) for a in (97, 96, 95, 94) for b in (83, 82, 81) if "%d" % a not in text and "%d" % b not in text), None)
    if probe is None:
        return None
    saved = (e.tag, dict(e.attrib), e.text, list(e))
    others = [(a, a.get("intent")) for a in an.attrs if a is not e]
    try:
        e.tag = "mn"
        e.attrib.clear()
        e.text = probe
        for c in list(e):
            e.remove(c)
        for a, _ in others:
            del a.attrib["intent"]
        xml = ET.tostring(an.root, encoding="unicode")
    finally:
        e.tag, e.text = saved[0], saved[2]
        e.attrib.clear()
        e.attrib.update(saved[1])
        for c in saved[3]:
            e.append(c)
        for a, v in others:
            a.set("intent", v)
    r = sess.batch([("set_mathml", xml), ("get_spoken_text",)])
    if r is None or r[0]["r"] != "ok" or r[1]["r"] != "ok":
        return None
    return probe in norm(r[1]["v"])


# --------------------------------------------------------------------------------------------
# workload: hosts
# --------------------------------------------------------------------------------------------
def node_at(tree, path):
    cur = tree
    for i in path:
        cur = cur.kids[i]
    return cur


def is_prefix(p, q):
    return len(p) <= len(q) and q[:len(p)] == p


def host_candidates(tree):
    """paths of elements on which an intent attribute does not change canonicalisation (DESIGN 6/C19 W)"""
    two_d, rows, toks = [], [], []
    for n, p in tree.walk():
        if not p:
            continue
        if n.tag in HOST_2D:
            two_d.append(p)
        elif n.tag == "mrow" and n.kids is not None and len(n.kids) >= 2:
            rows.append(p)
        elif n.kids is None and n.tag in HOST_TOKENS:
            toks.append(p)
    return two_d, rows, toks


def operand_paths(tree, host_path):
    out = []
    for n, p in node_at(tree, host_path).walk(host_path):
        if p == host_path or n.tag in NOT_OPERAND:
            continue
        if n.kids is not None and not n.kids:
            continue
        out.append(p)
    return out


ARG_NAMES = ["a", "b", "c", "n", "m", "x1", "arg-two", "p_3", "k.1", "Z"]
ARG_NAMES_U = ["Δx", "名", "é"]


def label_args(tree, host_path, rng, kmax=4, prefer_literals=0.7, used=None, avoid=()):
    """give up to kmax operand descendants of the host an arg attribute (no labelled element inside another one);
    returns {name: path}"""
    cands = operand_paths(tree, host_path)
    rng.shuffle(cands)
    lits = [p for p in cands if node_at(tree, p).tag == "mn"]
    others = [p for p in cands if node_at(tree, p).tag != "mn"]
    order = []
    while lits or others:
        src = lits if (lits and (not others or rng.random() < prefer_literals)) else others
        order.append(src.pop())
    names = [n for n in ARG_NAMES if not used or n not in used]
    rng.shuffle(names)
    if rng.random() < 0.1:
        names = names + ARG_NAMES_U
    chosen = {}
    k = rng.randint(1, kmax)
    for p in order:
        if len(chosen) >= k or not names:
            break
        if any(is_prefix(q, p) or is_prefix(p, q) for q in list(chosen.values()) + list(avoid)):
            continue
        n = node_at(tree, p)
        if "arg" in n.attrs or "intent" in n.attrs:
            continue
        name = names.pop()
        n.attrs["arg"] = name
        chosen[name] = p
    return chosen


# --------------------------------------------------------------------------------------------
# workload: intent values
# --------------------------------------------------------------------------------------------
MADE_UP = ["blorp", "my-concept", "zorble", "quux_frob", "snarfle-wug", "glimbo", "frobnitz", "wug_zib-tak", "Blorp", "plugh.xyzzy"]
KNOWN = ["power", "plus", "binomial", "factorial", "sine", "minus", "divide", "absolute-value", "vector", "set", "derivative", "limit", "sum"]
PROPS = [":prefix", ":infix", ":postfix", ":function", ":silent", ":literal", ":zib", ":foo-bar", ":int", ":unit", ":blank"]
MULTIBYTE = ["\u00e9", "\u00df", "\u00d7", "\u00f7", "\u00b7", "\u00b5", "\u00ac", "\u00a0", "\u0301", "\u03b1", "\u03a9", "\u0436", "\u05d0", "\u0639",
             "\u200b", "\u200d", "\u2003", "\u2028", "\u20ac", "\u2192", "\u2211", "\u2212", "\u221a", "\u4e2d", "\u540d", "\u3000", "\ufe59", "\uff08", "\uff09",
             "\uff0c", "\uff1a", "\uff04", "\U0001d4b3", "\U0001d538", "\U0001f407", "\U0001f600", "\U000e0041", "\ufffd", "\ufdfa", "\u0663", "\u203f"]
ASCII_EDIT = list("(),:$.-_ 0a'\"<&;/\\[]{}|*+=#@!?^~`%")
SPECIAL = ["", " ", "(", ")", ",", ":", "$", "-", ".", "_", "__", "_-_", "-_", "()", "f()", "f( )", "f(,)", "f(a,)", "f(,a)", "f(a,,b)", "f(a b)", "f a", "f(a))", "f((a)",
           "(a)", "f(a)(", "f(a):p", "f(a)b", "f(a)(b)", "a:", "a: p", ":", "::p", "a:p:", ":p(", ":p()", ":p(a)", ":p q", ":p:q", ":p :q", "a :p", "1.", ".5", "--1",
           "1e5", "0x1F", "1.5.2", "1,5", "-0.5", "007", "3x", "3 x", "x 3", "$$a", "$1", "$a$b", "$ a", "$a b", "$-a", "f($)", "f(x", "f(x,", "f)", "f,g",
           "f(g(h(", ")))", "f(x)(y)(z)", "f g(x)", "f(x) g", "a,b", "a(b)(c)(", "a()()", "f(:p)", "f(a:p:q, b :r)", "'f'", "\"f\"", "f(a;b)", "f[a]", "f{a}",
           "<f>", "a&b", "a=b", "a+b", "a*b", "a/b", "f(a/b)", "#f", "a#", "a@b", "a|b", "a\\b", "a^b", "a~b", "a`b", "a%b", "a!", "a?"]


class ValueGen:
    def __init__(self, rng, refs, dangling=("zz", "q9", "nope")):
        self.rng = rng
        self.refs = list(refs)
        self.dangling = list(dangling)

    def ws(self, p=0.15):
        r = self.rng
        if r.random() < p:
            return r.choice([" ", "  ", " ", "\t", "\n", " \r\n "])
        return ""

    def name(self):
        r = self.rng
        x = r.random()
        if x < 0.6:
            return r.choice(MADE_UP)
        if x < 0.75:
            return r.choice(KNOWN)
        if x < 0.85:
            return "_" + r.choice(["lit", "of", "x-y", "_"])
        if x < 0.9:
            return r.choice(["_", "__", "_-_", "_-"])
        return r.choice(["é", "naïve", "Δ-op", "名前", "𝒳", "🐇", "a·b", "x́y", "٣"])

    def term(self, toks):
        r = self.rng
        x = r.random()
        if self.refs and x < 0.35:
            toks.append("$" + r.choice(self.refs))
        elif x < 0.5:
            toks.append(r.choice(["0", "1", "2", "-3", "12.5", "-0.25", "100"]))
        else:
            toks.append(self.name())

    def expr(self, toks, depth):
        r = self.rng
        self.term(toks)
        while r.random() < 0.2:
            toks.append(r.choice(PROPS))
        if depth > 0 and r.random() < 0.6:
            for _ in range(1 if r.random() < 0.85 else 2):
                toks.append("(")
                for i in range(r.randint(1, 3)):
                    if i:
                        toks.append(",")
                    self.expr(toks, depth - 1)
                toks.append(")")

    def legal_tokens(self, depth=None):
        r = self.rng
        toks = []
        if r.random() < 0.1:
            for _ in range(r.randint(1, 3)):
                toks.append(r.choice(PROPS))
            return toks
        self.expr(toks, r.choice([0, 1, 1, 2, 2, 3]) if depth is None else depth)
        return toks

    def join(self, toks):
        out = [self.ws(0.1)]
        for t in toks:
            out.append(t)
            out.append(self.ws())
        return "".join(out)

    def legal(self):
        return self.join(self.legal_tokens())

    def clear_cut(self):
        """name($a,$b,...) over the available references"""
        r = self.rng
        name = r.choice(MADE_UP)
        k = r.randint(1, min(4, len(self.refs) + 1))
        refs = [r.choice(self.refs) for _ in range(k)] if r.random() < 0.3 else r.sample(self.refs, min(k, len(self.refs)))
        toks = [name, "("]
        for i, a in enumerate(refs):
            if i:
                toks.append(",")
            toks.append("$" + a)
        toks.append(")")
        return (self.join(toks) if r.random() < 0.4 else "".join(toks)), name

    def mutate(self, s):
        """one edit of a string"""
        r = self.rng
        chars = list(s)
        kind = r.choice(["delete", "insert-ascii", "insert-mb", "replace-ascii", "replace-mb", "swap", "truncate", "dup-token", "drop-token", "dangle", "insert-mb-at-delim"])
        if not chars:
            return r.choice(ASCII_EDIT + MULTIBYTE), kind
        i = r.randrange(len(chars))
        if kind == "delete":
            del chars[i]
        elif kind == "insert-ascii":
            chars.insert(r.randint(0, len(chars)), r.choice(ASCII_EDIT))
        elif kind == "insert-mb":
            chars.insert(r.randint(0, len(chars)), r.choice(MULTIBYTE))
        elif kind == "insert-mb-at-delim":
            pos = [k for k, c in enumerate(chars) if c in "(),:$"]
            if pos:
                k = r.choice(pos)
                chars.insert(k + r.choice([0, 1]), r.choice(MULTIBYTE))
            else:
                chars.insert(i, r.choice(MULTIBYTE))
        elif kind == "replace-ascii":
            chars[i] = r.choice(ASCII_EDIT)
        elif kind == "replace-mb":
            chars[i] = r.choice(MULTIBYTE)
        elif kind == "swap" and len(chars) > 1:
            i = min(i, len(chars) - 2)
            chars[i], chars[i + 1] = chars[i + 1], chars[i]
        elif kind == "truncate":
            chars = chars[:i]
        elif kind in ("dup-token", "drop-token"):
            toks = re.findall(r"[(),]|[:$]?[^\s(),:$]+|\s+|.", s)
            if toks:
                k = r.randrange(len(toks))
                if kind == "dup-token":
                    toks.insert(k, toks[k])
                else:
                    del toks[k]
                chars = list("".join(toks))
        elif kind == "dangle":
            m = list(re.finditer(r"\$[^\s(),:$]+", s))
            if m:
                x = r.choice(m)
                chars = list(s[:x.start()] + "$" + r.choice(self.dangling) + s[x.end():])
            else:
                chars += list("($%s)" % r.choice(self.dangling))
        return "".join(chars), kind

    def unicode_junk(self):
        r = self.rng
        x = r.random()
        mb = r.choice(MULTIBYTE)
        ref = "$" + (r.choice(self.refs) if self.refs else "a")
        if x < 0.5:
            pat = r.choice(["{m}(", "({m}", "f({m},", "{m})", "f(x){m}", ":{m}", "${m}", "{m}:{m}({m})", "f( {m} )", "f({m})", "{m}({r})", "{m}({r}",
                            "f({r}{m})", "f({r},{m}", "{m}{m}(", "{m},", ",{m}", "{m}${m}", "f:{m}({r})", "{r}{m}", "{m}{r}", "f({r}){m}(", " {m} ", "{m}",
                            "{m}.5", "1.{m}", "-{m}", "1{m}", "f{m}g({r})", "{m}(({r})", "f({r} {m})"])
            return pat.replace("{m}", mb).replace("{r}", ref)
        n = r.randint(1, 12)
        out = []
        for _ in range(n):
            y = r.random()
            if y < 0.4:
                out.append(r.choice("(),:$ "))
            elif y < 0.6:
                out.append(r.choice("abfx019-_."))
            else:
                out.append(r.choice(MULTIBYTE))
        return "".join(out)

    def deep(self, max_depth):
        """nested applications / chained heads / wide argument lists, legal by construction"""
        r = self.rng
        d = r.choice([5, 10, 20, 40, 80, 120, 160, 200])
        d = min(d, max_depth)
        leaf = ("$" + r.choice(self.refs)) if self.refs and r.random() < 0.7 else r.choice(["7", "x", "zorble"])
        kind = r.choice(["nest", "nest", "nest2", "chain", "wide", "props"])
        f = r.choice(MADE_UP[:6])
        if kind == "nest":
            return (f + "(") * d + leaf + ")" * d
        if kind == "nest2":
            return (f + "(1,") * d + leaf + ")" * d
        if kind == "chain":
            return f + ("(" + leaf + ")") * d
        if kind == "wide":
            return f + "(" + ",".join([leaf] * min(d * 3, 150)) + ")"
        return f + "".join(r.choice(PROPS) for _ in range(d)) + "(" + leaf + ")"


# --------------------------------------------------------------------------------------------
# workload: scenarios.  Each returns (tree, made_up names vouched for, generator label) or None
# --------------------------------------------------------------------------------------------
def pick_host(tree, rng, want="any"):
    two_d, rows, toks = host_candidates(tree)
    if want == "container":
        pool = two_d + rows
        return rng.choice(pool) if pool else None
    x = rng.random()
    for pool, p in ((two_d, 0.45), (rows, 0.75), (toks, 1.0)):
        if x < p and pool:
            if pool is toks:
                # operands rather than operators: an <mo> is often consumed by the parent's rule and never looked at
                ops = [q for q in pool if node_at(tree, q).tag == "mo"]
                rest = [q for q in pool if node_at(tree, q).tag != "mo"]
                if rest and (not ops or rng.random() < 0.85):
                    return rng.choice(rest)
            return rng.choice(pool)
    pool = two_d + rows + toks
    return rng.choice(pool) if pool else None


def sc_positive(tree, rng):
    hp = pick_host(tree, rng, "container")
    if hp is None:
        return None
    args = label_args(tree, hp, rng, prefer_literals=0.8)
    if not args:
        return None
    vg = ValueGen(rng, list(args))
    val, name = vg.clear_cut()
    node_at(tree, hp).attrs["intent"] = val
    return tree, [name], "positive"


def illegal_value(vg, rng, max_depth):
    x = rng.random()
    if x < 0.42:
        v, kind = vg.mutate(vg.legal())
        return v, "mutation:" + kind
    if x < 0.5:
        v, kind = vg.mutate(vg.clear_cut()[0] if vg.refs else vg.legal())
        return v, "mutation:" + kind
    if x < 0.72:
        return vg.unicode_junk(), "unicode"
    if x < 0.84:
        return rng.choice(SPECIAL), "special"
    if x < 0.92:
        v = vg.deep(max_depth)
        if rng.random() < 0.6:
            v, kind = vg.mutate(v)
            return v, "deep-mutation:" + kind
        return v, "deep"
    # references that resolve nowhere
    toks = vg.legal_tokens()
    name = rng.choice(vg.dangling)
    idx = [i for i, t in enumerate(toks) if t.startswith("$")]
    if idx:
        toks[rng.choice(idx)] = "$" + name
    else:
        toks += ["(", "$" + name, ")"] if not toks[0].startswith(":") else []
        if toks[0].startswith(":"):
            toks = [rng.choice(MADE_UP), "(", "$" + name, ")"]
    return vg.join(toks), "dangling"


def sc_single(tree, rng, max_depth):
    hp = pick_host(tree, rng)
    if rng.random() < 0.1:
        # an operator character written as an identifier (<mi>-</mi>, <mi>|</mi>: converters do that): the clean-up re-tags such a token by
        # its text, and an attribute that is to be ignored must not change that
        ops = [p for n, p in tree.walk() if p and n.kids is None and n.tag == "mo" and (n.text or "") in ("-", "+", "|", "(", ")", "=", "<", "−", "!", ",")]
        if ops:
            hp = rng.choice(ops)
            node_at(tree, hp).tag = "mi"
    if hp is None:
        return None
    host = node_at(tree, hp)
    args = label_args(tree, hp, rng) if host.kids is not None and rng.random() < 0.8 else {}
    vg = ValueGen(rng, list(args))
    val, label = illegal_value(vg, rng, max_depth)
    host.attrs["intent"] = val
    return tree, list(MADE_UP), label


def sc_legal(tree, rng):
    hp = pick_host(tree, rng)
    if hp is None:
        return None
    host = node_at(tree, hp)
    args = label_args(tree, hp, rng) if host.kids is not None else {}
    vg = ValueGen(rng, list(args))
    host.attrs["intent"] = vg.legal()
    return tree, list(MADE_UP), "grammar-derived"


def descendants_hosts(tree, hp, containers_only=False):
    two_d, rows, toks = host_candidates(tree)
    pool = two_d + rows + ([] if containers_only else [q for q in toks if node_at(tree, q).tag != "mo"])
    return [q for q in pool if is_prefix(hp, q) and q != hp]


def sc_nested(tree, rng, max_depth):
    """several intent attributes: references to an element with an illegal value, illegal below illegal, disjoint illegal ones,
    illegal below a property-only value, references that only resolve by descending past an arg/intent element"""
    kind = rng.choice(["ref-to-illegal", "ref-to-illegal", "illegal-below-illegal", "disjoint", "below-property", "below-property", "out-of-scope", "out-of-scope",
                       "shadowed", "ref-to-legal", "legal-below-property"])
    ap = pick_host(tree, rng, "container")
    if ap is None:
        return None
    A = node_at(tree, ap)
    inner = descendants_hosts(tree, ap)
    if kind == "disjoint":
        two_d, rows, toks = host_candidates(tree)
        pool = two_d + rows + [q for q in toks if node_at(tree, q).tag != "mo"]
        others = [q for q in pool if not is_prefix(ap, q) and not is_prefix(q, ap)]
        if not others:
            return None
        bp = rng.choice(others)
        for p in (ap, bp):
            n = node_at(tree, p)
            args = label_args(tree, p, rng, kmax=2) if n.kids is not None else {}
            n.attrs["intent"] = illegal_value(ValueGen(rng, list(args)), rng, 20)[0]
        return tree, list(MADE_UP), "nested:" + kind
    if not inner:
        return None
    hp = rng.choice(inner)
    H = node_at(tree, hp)
    if kind in ("ref-to-illegal", "ref-to-legal"):
        hargs = label_args(tree, hp, rng, kmax=2) if H.kids is not None else {}
        vg = ValueGen(rng, list(hargs))
        if kind == "ref-to-illegal":
            H.attrs["intent"] = illegal_value(vg, rng, 20)[0] if rng.random() < 0.6 else rng.choice(
                ["zorble glimbo", "zorble)", "zorble,", "7 8", "zorble($%s) x" % (list(hargs) + ["zz"])[0], "glimbo(1))", ":zib x", "$zz"])
        else:
            H.attrs["intent"] = vg.legal()
        H.attrs["arg"] = "h"
        if kind == "ref-to-illegal" and rng.random() < 0.3:
            # a second element with the same arg name LATER in the scope: the reference still means the first one (and its illegal value)
            later = [p for p in operand_paths(tree, ap) if p > hp and not is_prefix(hp, p) and node_at(tree, p).kids is None
                     and "arg" not in node_at(tree, p).attrs and "intent" not in node_at(tree, p).attrs]      # tokens only: a wrapper may be dissolved by the clean-up, arg and all
            if later:
                node_at(tree, rng.choice(later)).attrs["arg"] = "h"
        others = label_args(tree, ap, rng, kmax=2, used={"h"}, avoid=[hp]) if rng.random() < 0.6 else {}
        name = rng.choice(MADE_UP)
        refs = ["$h"] + ["$" + k for k in others]
        rng.shuffle(refs)
        A.attrs["intent"] = "%s(%s)" % (name, ",".join(refs))
        return tree, [name], "nested:" + kind
    if kind == "illegal-below-illegal":
        for n, p in ((A, ap), (H, hp)):
            args = label_args(tree, p, rng, kmax=2) if n.kids is not None else {}
            n.attrs["intent"] = illegal_value(ValueGen(rng, list(args)), rng, 20)[0]
        return tree, list(MADE_UP), "nested:" + kind
    if kind == "legal-below-property":
        # a clear-cut name(args) value below a property-only value: the properties say how the outer element is read, the inner concept
        # and its arguments must still be spoken
        inner_c = [q for q in inner if node_at(tree, q).kids]
        if not inner_c:
            return None
        hp = rng.choice(inner_c)
        args = label_args(tree, hp, rng, prefer_literals=0.8)
        if not args:
            return None
        val, name = ValueGen(rng, list(args)).clear_cut()
        node_at(tree, hp).attrs["intent"] = val
        A.attrs["intent"] = rng.choice([":zib", ":foo-bar:int", ":literal", ":literal", " :zib "])
        return tree, [name], "nested:" + kind
    if kind == "below-property":
        A.attrs["intent"] = rng.choice([":zib", ":foo-bar:int", ":silent", ":prefix", ":literal", ":literal", ":blank", " :zib "])
        args = label_args(tree, hp, rng, kmax=2) if H.kids is not None else {}
        H.attrs["intent"] = illegal_value(ValueGen(rng, list(args)), rng, 20)[0]
        return tree, list(MADE_UP), "nested:" + kind
    # out-of-scope / shadowed: A references $a; an element M between A and the labelled operand carries arg or intent
    inner_c = descendants_hosts(tree, ap, containers_only=True)
    if not inner_c:
        return None
    mp = rng.choice(inner_c)
    M = node_at(tree, mp)
    targs = label_args(tree, mp, rng, kmax=1, prefer_literals=0.9)
    if not targs:
        return None
    tname = list(targs)[0]
    wrap = rng.choice(["arg", "property", "application", "illegal"])
    if wrap == "arg":
        M.attrs["arg"] = "m"
    elif wrap == "property":
        M.attrs["intent"] = ":zib"
    elif wrap == "application":
        M.attrs["intent"] = "glimbo($%s)" % tname
    else:
        M.attrs["intent"] = "glimbo($%s" % tname
    name = rng.choice(MADE_UP[:4])
    if kind == "shadowed":
        # a second operand with the same arg name that IS in scope (later or earlier in document order, outside M)
        outside = [p for p in operand_paths(tree, ap) if not is_prefix(mp, p) and not is_prefix(p, mp)
                   and "arg" not in node_at(tree, p).attrs and node_at(tree, p).tag == "mn"]
        if not outside:
            return None
        node_at(tree, rng.choice(outside)).attrs["arg"] = tname
    A.attrs["intent"] = "%s($%s)" % (name, tname)
    return tree, [name, "glimbo"], "nested:%s:%s" % (kind, wrap)


def vanishing(rng):
    """a child that renders nothing and that the clean-up of set_mathml removes from a row"""
    k = rng.randrange(11)
    if k == 0:
        return gen.N("mphantom", [gen.mo(rng.choice(["|", ")", "+"]))])
    if k == 1:
        return gen.N("mphantom", [gen.mn("5")])
    if k == 2:
        return gen.mtext("")
    if k == 3:
        return gen.mtext(rng.choice([" ", "  ", "\u00a0"]))
    if k == 4:
        return gen.N("mspace", width=rng.choice(["1em", "0.5em", "2pt"]))
    if k == 5:
        return gen.N("maligngroup")
    if k == 6:
        return gen.N("malignmark")
    if k == 7:
        return gen.N("mrow", [])
    if k == 8:
        return gen.N(rng.choice(["mi", "mo", "mn"]), text="")
    if k == 9:
        return gen.N(rng.choice(["mstyle", "mpadded"]), [])
    return gen.N("mrow", [gen.N("mphantom", [gen.mi("x")])])


def sc_vanishing(tree, rng, tb, max_depth):
    """the intent sits on a row whose other children are removed by the clean-up, so that exactly the referenced child survives
    (control: two surviving children); the row stands in the place of an operand of a random expression"""
    n_surv = 1 if rng.random() < 0.65 else 2
    names = rng.sample(ARG_NAMES, n_surv)
    surv = []
    for nme in names:
        x = rng.random()
        try:
            k = tb.literal() if x < 0.7 else (gen.mi(rng.choice(gen.VARS)) if x < 0.85 else gen.N("mfrac", [tb.literal(), tb.literal()]))
        except RuntimeError:
            k = gen.mi(rng.choice(gen.VARS))
        k.attrs["arg"] = nme
        surv.append(k)
    kids = list(surv)
    if n_surv == 2 and rng.random() < 0.5:
        kids.insert(1, gen.mo(rng.choice(["+", "-", "="])))
    for _ in range(rng.choice([1, 1, 2, 3])):
        kids.insert(rng.randint(0, len(kids)), vanishing(rng))
    row = gen.mrow(*kids)
    vg = ValueGen(rng, names)
    if rng.random() < 0.75:
        name = rng.choice(MADE_UP)
        refs = ["$" + a for a in names]
        if rng.random() < 0.2:
            refs.append(rng.choice(refs))
        row.attrs["intent"] = "%s(%s)" % (name, rng.choice([",", ", ", " , "]).join(refs))
        made = [name]
    else:
        row.attrs["intent"] = illegal_value(vg, rng, min(max_depth, 20))[0]
        made = list(MADE_UP)
    # put the row in the place of an operand token of the expression (or next to the whole expression)
    leaves = [p for n, p in tree.walk() if p and n.kids is None and n.tag in ("mn", "mi")]
    if leaves and rng.random() < 0.8:
        p = rng.choice(leaves)
        node_at(tree, p[:-1]).kids[p[-1]] = row
    else:
        tree.kids = [gen.mrow(row, gen.mo("="), *tree.kids)]
    return tree, made, "vanishing-siblings:%d" % n_surv


def make_case(rng, decimal, max_depth):
    """returns (gen.N tree, made_up, label)"""
    for _ in range(30):
        tb = gen.Textbook(rng, decimal=decimal, max_depth=rng.choice([1, 2, 2, 3]))
        tree, _ = tb.expression()
        x = rng.random()
        if x < 0.15:
            c = sc_positive(tree, rng)
        elif x < 0.21:
            c = sc_vanishing(tree, rng, tb, max_depth)
        elif x < 0.70:
            c = sc_single(tree, rng, max_depth)
        elif x < 0.80:
            c = sc_legal(tree, rng)
        else:
            c = sc_nested(tree, rng, max_depth)
        if c is not None:
            return c
    t = gen.math(gen.N("mfrac", [gen.mn("17%s29" % decimal, arg="a"), gen.mn("35%s46" % decimal)], intent="blorp($a"))
    return t, list(MADE_UP), "fallback"


# --------------------------------------------------------------------------------------------
# shrinking and signatures
# --------------------------------------------------------------------------------------------
def cfg_sig(cfg):
    parts = []
    if cfg["lang"] != "en":
        parts.append("lang=" + cfg["lang"])
    if cfg["style"] != "ClearSpeak":
        parts.append("style=" + cfg["style"])
    return ",".join(parts) or "default"


LANGUAGE_KINDS = ("legal-not-honoured", "legal-rejected")      # kinds whose cause may sit in a language's rule files


def make_sig(kind, extra, xml, cfg):
    """structural signature: oracle sub-check | detail class | standing and coarse shape of the attributes a processor looks at
    [| host elements and configuration for the kinds that depend on a language's rules]"""
    try:
        an = Analysis(ET.fromstring(xml))
        attrs = an.abstract_all()
        hosts = ",".join(sorted(set(mml.local(e.tag) for e in an.live)))
    except ET.ParseError:
        attrs, hosts = "?", "?"
    if kind in ("attr-lost", "panic", "abort"):
        # which kind of attribute disappeared and when / panic function and message class / signal and call: the whole story
        return "%s | %s" % (kind, extra)
    sig = "%s | %s | %s" % (kind, extra, attrs)
    if kind in LANGUAGE_KINDS:
        sig += " | %s | %s" % (hosts, cfg_sig(cfg))
    return sig


def minimise(cfg, tree, made_up, kind, full=True):
    """shrink the expression, then the intent values character by character, then try the default configuration.
    full=False (budget for shrinking used up): only the configuration step, so that the signature names a language only if it matters"""
    sess = Sess(cfg)
    try:
        def still(t):
            return kind in judge_xml(sess, t.xml(), made_up).kinds()
        small = tree
        if full:
            small = shrink.shrink_tree(tree, still, budget=400, leaf_factory=lambda: [gen.mn("17%s29" % sess.get_decimal()), gen.mi("x")])
        # shrink the values, longest first
        for _ in range(2 if full else 0):
            for n, p in sorted(small.walk(), key=lambda np: -len(np[0].attrs.get("intent", ""))):
                if "intent" not in n.attrs:
                    continue

                def with_value(chars, p=p):
                    t2 = small.copy()
                    node_at(t2, p).attrs["intent"] = "".join(chars)
                    return t2
                chars = shrink.shrink_list(list(n.attrs["intent"]), lambda cs: still(with_value(cs)), budget=150)
                small = with_value(chars)
            # arg attributes that do not matter
            for n, p in list(small.walk()):
                if "arg" in n.attrs:
                    t2 = small.copy()
                    del node_at(t2, p).attrs["arg"]
                    if still(t2):
                        small = t2
    finally:
        sess.close()
    for trial in ({"lang": "en", "style": "ClearSpeak"}, {"lang": cfg["lang"], "style": "ClearSpeak"}, {"lang": "en", "style": cfg["style"]}):
        if trial == cfg or trial["style"] not in configs.styles(trial["lang"]):
            continue
        s2 = Sess(trial)
        try:
            t2 = small.copy()
            dec = s2.get_decimal()
            for n, _ in t2.walk():
                if n.tag == "mn" and n.text and LIT_RX.fullmatch(n.text):
                    n.text = n.text[:2] + dec + n.text[3:]
            if kind in judge_xml(s2, t2.xml(), made_up).kinds():
                return trial, t2
        finally:
            s2.close()
    return cfg, small


def violations_of(cfg, xml, made_up, out):
    vs = []
    for kind, detail, extra in out.violations:
        vs.append(core.violation(kind, make_sig(kind, extra, xml, cfg), {"cfg": cfg, "mathml": xml, "made_up": list(made_up)}, detail[:1500]))
    return vs


# --------------------------------------------------------------------------------------------
# shard, replay, run
# --------------------------------------------------------------------------------------------
def shard(spec):
    st = core.Stats()
    rng = random.Random(spec["seed"])
    deadline = time.time() + spec["time_budget"]
    seen_pre = {}
    shrunk = 0
    for cfg, n in spec["plan"]:
        sess = Sess(cfg)
        try:
            dec = sess.get_decimal()
            for i in range(n):
                if time.time() > deadline:
                    st.count("stopped_by_time_budget")
                    break
                tree, made_up, label = make_case(rng, dec, spec["max_depth"])
                xml = tree.xml()
                t1 = time.time()
                out = judge_xml(sess, xml, made_up)
                dt = time.time() - t1
                st.evaluations += 1
                st.count("cases_" + label.split(":")[0])
                st.count("status_" + out.status)
                st.add("configs", "%s/%s" % (cfg["lang"], cfg["style"]))
                if dt > 5:
                    st.count("slow_cases_over_5s")
                if out.status == "died":
                    st.inconclusive += 1
                    continue
                an = out.analysis
                if an is None or an.cls is None:
                    continue
                st.count("class_" + an.cls)
                for e in an.live:
                    c, w = an.eff[e]
                    st.count("live_attr_%s%s" % (c, "_" + w.replace(" ", "-") if c == G.ILLEGAL else ""))
                    st.add("host_elements", mml.local(e.tag))
                    v = e.get("intent")
                    if any(ord(ch) > 0x7f for ch in v):
                        st.count("values_with_multibyte_characters")
                        if re.search(r"[^\x00-\x7f][(),:$]|[(),:$][^\x00-\x7f]", v):
                            st.count("values_with_multibyte_character_next_to_delimiter")
                    if an.j[e].node is not None:
                        d = an.j[e].node.depth()
                        st.add("nesting_depth_of_values", next(b for b in DEPTH_BUCKETS if d <= b[0])[1])
                if an.dead:
                    st.count("cases_with_attributes_no_processor_looks_at")
                for nme in out.notes:
                    if nme.startswith("positive_literals_checked:"):
                        st.count("positive_literals_checked", int(nme.split(":")[1]))
                    else:
                        st.count(nme)
                if out.status == "judged" and out.nontrivial:
                    st.nontrivial.add(core.h16("|".join(an.describe(e) for e in an.live) + "|" + cfg["lang"]))
                    if len(st.sets.get("token_class_strings", ())) < 1500:
                        st.add("token_class_strings", " ; ".join(G.token_classes(e.get("intent"))[:60] for e in an.live)[:100])
                if out.status == "judged" and out.speech and out.nontrivial and not any(s["class"] == an.cls for s in st.samples):
                    st.sample({"class": an.cls, "workload": label, "config": cfg_sig(cfg), "mathml": xml[:700],
                               "judged_as": [an.describe(e) for e in an.live], "speech": out.speech}, limit=3)
                if not out.violations:
                    continue
                for kind, detail, extra in out.violations:
                    st.count("raw_violations_" + kind)
                    pre = make_sig(kind, extra, xml, cfg)
                    if pre in seen_pre:
                        seen_pre[pre]["count"] = seen_pre[pre].get("count", 1) + 1
                        continue
                    full = shrunk < spec["max_shrinks"] and time.time() < deadline + 120
                    shrunk += 1
                    mcfg, small = minimise(cfg, tree, made_up, kind, full=full)
                    s3 = Sess(mcfg)
                    try:
                        o3 = judge_xml(s3, small.xml(), made_up)
                    finally:
                        s3.close()
                    mine = [v for v in o3.violations if v[0] == kind]
                    if mine:
                        k3, d3, x3 = mine[0]
                        v = core.violation(kind, make_sig(kind, x3, small.xml(), mcfg), {"cfg": mcfg, "mathml": small.xml(), "made_up": list(made_up)},
                                           ("minimal witness " if full else "(expression not minimised) ") + small.xml()[:1500] + " | " + d3[:1200])
                    else:
                        v = core.violation(kind, pre, {"cfg": cfg, "mathml": xml, "made_up": list(made_up)}, "(minimisation lost it) " + detail[:1200])
                    seen_pre[pre] = v
                    st.violations.append(v)
        finally:
            sess.close()
    return st.to_dict()


def pred_optional_word_prefix_drop(v, params):
    """The speech.rs is_repetitive() defect recorded as C04-optional-word-prefix-drop (whatever precedes an optional word inside one
    replacement string is deleted when the text before ends with that word) also swallows 'name of,' in front of a first argument whose
    speech starts with an optional word ('raised to the | frobnitz of, the 1 by 1 determinant').  Holds when the language has optional
    words, the host element alone (nothing spoken before it) is honoured, and putting a plain identifier in the place of the first
    referenced operand brings the concept back in the original context."""
    from . import c04
    if v["kind"] != "legal-not-honoured":
        return False
    w = v["witness"]
    cfg = w["cfg"]
    opt = c04.optional_words(cfg["lang"])
    if not opt:
        return False
    made_up = w.get("made_up", MADE_UP)
    root = ET.fromstring(w["mathml"])
    an = Analysis(root)
    sess = Sess(cfg)
    try:
        for e in an.live:
            cc = clear_cut(an, e, made_up)
            if cc is None or not cc[1]:
                continue
            first = cc[1][0]
            # (a) the host alone, with nothing spoken in front of it, is honoured
            alone = ET.Element("math")
            alone.append(ET.fromstring(ET.tostring(e, encoding="unicode")))
            alone[0].tail = None
            o1 = judge_xml(sess, ET.tostring(alone, encoding="unicode"), made_up)
            if o1.status != "judged" or "positive_checked" not in o1.notes or "legal-not-honoured" in o1.kinds():
                continue
            # (b) in the original place, with a plain identifier as first argument, it is honoured as well
            saved = (first.tag, dict(first.attrib), first.text, list(first))
            try:
                first.tag, first.text = "mi", "x"
                for c in list(first):
                    first.remove(c)
                first.attrib.clear()
                if "arg" in saved[1]:
                    first.set("arg", saved[1]["arg"])
                variant = ET.tostring(root, encoding="unicode")
            finally:
                first.tag, first.text = saved[0], saved[2]
                first.attrib.clear()
                first.attrib.update(saved[1])
                for c in saved[3]:
                    first.append(c)
            o2 = judge_xml(sess, variant, made_up)
            if o2.status == "judged" and "positive_checked" in o2.notes and "legal-not-honoured" not in o2.kinds():
                return True
        return False
    finally:
        sess.close()


core.PREDICATES["c19_optional_word_prefix_drop"] = pred_optional_word_prefix_drop


def pred_mi_sequence_merge(v, params):
    """canonicalize.rs merge_mi_sequence() joins adjacent one-letter <mi>s into a word it knows ('t' 'r' -> 'tr', 's' 'i' 'n' -> 'sin') and
    keeps only the first letter's attributes.  Holds when a referenced operand of the witness is a one-letter <mi> next to another one-letter
    <mi> in a row, and the expression returned by set_mathml no longer has an element with that arg."""
    if v["kind"] not in ("legal-rejected", "legal-not-honoured") or "standing-changed-by-clean-up" not in v["sig"]:
        return False
    w = v["witness"]
    root = ET.fromstring(w["mathml"])
    parent = {c: p for p in root.iter() for c in p}
    an = Analysis(root)

    def one_letter_mi(x):
        return x is not None and mml.local(x.tag) == "mi" and len((x.text or "").strip()) == 1 and len(x) == 0
    candidates = []
    for e in an.live:
        if an.eff[e][0] != G.LEGAL or an.j[e].node is None:
            continue
        sc = an.scope.get(e) or {}
        for nme in an.j[e].node.refs():
            t = sc.get(nme)
            p = parent.get(t)
            if not one_letter_mi(t) or p is None or mml.local(p.tag) not in ("mrow", "math"):
                continue
            kids = list(p)
            i = kids.index(t)
            if (i > 0 and one_letter_mi(kids[i - 1])) or (i + 1 < len(kids) and one_letter_mi(kids[i + 1])):
                candidates.append(nme)
    if not candidates:
        return False
    sess = Sess(w["cfg"])
    try:
        r = sess.call("set_mathml", w["mathml"])
        if r is None or r["r"] != "ok":
            return False
        canon = ET.fromstring(r["v"])
        args = set(x.get("arg") for x in canon.iter() if x.get("arg") is not None)
        return any(nme not in args for nme in candidates)
    finally:
        sess.close()


core.PREDICATES["c19_mi_sequence_merge"] = pred_mi_sequence_merge


def replay(witness):
    cfg = witness["cfg"]
    sess = Sess(cfg)
    try:
        out = judge_xml(sess, witness["mathml"], witness.get("made_up", MADE_UP))
        return violations_of(cfg, witness["mathml"], witness.get("made_up", MADE_UP), out)
    finally:
        sess.close()


def plan_for(i, total, cfgs, rng):
    """each shard: 40 % English (both styles alternate over the shards), the rest over two other configurations"""
    en = [c for c in cfgs if c["lang"] == "en"]
    others = [c for c in cfgs if c["lang"] != "en"]
    per = total // NSHARDS
    plan = [(en[i % len(en)], int(per * 0.4))]
    a = others[(2 * i) % len(others)]
    b = others[(2 * i + 1) % len(others)]
    plan.append((a, int(per * 0.3)))
    plan.append((b, per - int(per * 0.4) - int(per * 0.3)))
    return plan


def run(tier, seed):
    t0 = time.time()
    core.build_driver("native")
    rng = random.Random(core.sub_seed(seed, PROP))
    cfgs = [{"lang": l, "style": s} for l in configs.languages() for s in configs.styles(l)]
    total = int(os.environ.get("C19_CASES", "0")) or (30000 if tier == "quick" else 800000)
    budget = 70 if tier == "quick" else 1500
    if core.NPROC < 16:
        budget = int(budget * 16 / core.NPROC)
    specs = [{"seed": core.sub_seed(seed, PROP, i), "plan": plan_for(i, total, cfgs, rng), "time_budget": budget, "max_depth": 200,
              "max_shrinks": 8} for i in range(NSHARDS)]
    results = core.run_shards(shard, specs)
    stats, errors = core.Stats.merge(results)
    known, fixed_failures, extra_v = core.replay_findings(PROP, replay)
    stats.violations.extend(extra_v)
    return core.conclude(
        PROP, tier, seed, "exploration", stats, {"grammar_readings": list(G.READINGS)},
        ["the W3C MathML 4 intent grammar and its scoping rule for $references are the reference for 'illegal'; values on which readings of the "
         "specification differ (non-ASCII name characters, non-ASCII white space, empty argument lists, a property list as head or argument of an "
         "application) are only checked for consistency between the two recovery settings; 'Error must return Err' and 'IgnoreIntent never fails' are "
         "demanded for values that every reading rejects",
         "the positive half is judged only for plain values (made-up ASCII names, numbers, references; no properties) whose host position is spoken "
         "by the language's rules without any intent; a legal value on which speech fails in both settings (known concept, wrong arity) is counted only",
         "an illegal attribute that the library never looks at (rule_hits shows no 'intent-exists' match, e.g. an operator consumed by its "
         "parent's rule) cannot yield an error and is counted, not judged",
         "set_mathml failures are C08's; a different canonical form with and without the attribute disables the equality relation for that case"],
        t0,
        rule="random textbook expressions with intent attributes planted on tokens, mfrac/msup/msub/msqrt/mroot/mover/munder/mtable and rows with >= 2 children: "
             "grammar-derived values, single-edit mutations, arbitrary Unicode next to delimiters, nesting up to depth 200, dangling / out-of-scope / duplicate "
             "references, properties, rows whose other children vanish in the clean-up, several attributes per expression; both IntentErrorRecovery settings in every shipped language and style. "
             "non-trivial = the intent mechanism observably acted (Error mode returned Err for the value, or speech differs from the speech without the attribute); "
             "distinct by (host element, verdict of the recogniser, token-class spelling of the value, language)",
        min_nontrivial=1500 if tier == "quick" else 10000, harness_errors=errors, known_replayed=known, fixed_failures=fixed_failures)
