"""C10 helper: which rule files a preference assignment selects.

An independent re-implementation of the DOCUMENTED selection (docs/users.md: "If the regional variant is not found among the
speech rules, the speech will fall back to using the main language.  If speech rules for the main language can not be found,
English is used") over a plain directory listing of Rules/.  It shares no code with MathCAT's prefs.rs and is used only to
judge the `loaded_files` hook: the table a getter just used must have been loaded from the file the CURRENT preferences select."""
import os
import re

from . import core

STYLE_SUFFIX = "_Rules.yaml"


def _isfile(*p):
    return os.path.isfile(os.path.join(*p))


def _isdir(*p):
    return os.path.isdir(os.path.join(*p))


def _chain(base, tag, default):
    """directories to search, most specific first: <base>/<main>/<region>, <base>/<main>; the default's directory when the main
    directory does not exist at all"""
    parts = tag.split("-")
    main, region = parts[0], (parts[1] if len(parts) > 1 else "")
    out = []
    if region and _isdir(base, main, region):
        out.append(os.path.join(base, main, region))
    if main and _isdir(base, main):
        out.append(os.path.join(base, main))
    if not out:
        out.append(os.path.join(base, default))
    return out


def _pick(rules, base, tag, default, name):
    """set of acceptable absolute paths for file `name` (a set because 'some other style of the same language' is not unique)"""
    chain = _chain(base, tag, default)
    for d in chain:
        if _isfile(d, name):
            return {os.path.join(d, name)}
    if name == "intent.yaml" and _isfile(rules, name):
        return {os.path.join(rules, name)}            # the language-independent intent rules live in Rules/ itself
    if name.endswith(STYLE_SUFFIX):
        # unknown / unavailable style: some style of the same language, most specific directory first
        for d in chain:
            alts = {os.path.join(d, f) for f in os.listdir(d) if f.endswith(STYLE_SUFFIX)}
            if alts:
                return alts
    dd = os.path.join(base, default)
    if _isfile(dd, name):
        return {os.path.join(dd, name)}
    if name.endswith(STYLE_SUFFIX):
        return {os.path.join(dd, f) for f in os.listdir(dd) if f.endswith(STYLE_SUFFIX)}
    return set()


def effective_language(prefs):
    """language tag the speech files follow: the explicit Language; for Language=Auto the tag given through LanguageAuto;
    English when nothing was ever chosen (prefs.yaml ships Language: Auto)"""
    lang = prefs.get("Language", "Auto")
    if lang == "Auto":
        lang = prefs.get("LanguageAuto") or "en"
    return lang


def expected(prefs, rules=None):
    """{table: {"rule": set(paths), "unicode": set(paths), "definitions": set(paths)}} for the five tables"""
    rules = os.path.realpath(rules or core.RULES)
    lbase, bbase = os.path.join(rules, "Languages"), os.path.join(rules, "Braille")
    lang = effective_language(prefs)
    style = prefs.get("SpeechStyle", "ClearSpeak")
    code = prefs.get("BrailleCode", "Nemeth")
    sp_uni = _pick(rules, lbase, lang, "en", "unicode.yaml")
    sp_def = _pick(rules, lbase, lang, "en", "definitions.yaml")
    out = {}
    for table, name in (("Intent", "intent.yaml"), ("Speech", style + STYLE_SUFFIX), ("OverView", "overview.yaml"), ("Navigation", "navigate.yaml")):
        out[table] = {"rule": _pick(rules, lbase, lang, "en", name), "unicode": sp_uni, "definitions": sp_def}
    out["Braille"] = {"rule": _pick(rules, bbase, code, "UEB", code + STYLE_SUFFIX),
                      "unicode": _pick(rules, bbase, code, "UEB", "unicode.yaml"),
                      "definitions": _pick(rules, bbase, code, "UEB", "definitions.yaml")}
    return out


def check_table(entry, want):
    """entry: one element of the loaded_files hook; want: expected()[table].  Returns a list of (sub-check, detail)."""
    bad = []
    if entry.get("error"):
        return bad                       # the table is in its error state: the getter failed, nothing was 'used'
    rf = entry.get("rule_files") or []
    if not rf or not entry.get("n_patterns"):
        bad.append(("empty-table", "table %s was used but holds no rules (files %s)" % (entry.get("table"), rf[:1])))
        return bad
    if rf[0] != entry.get("pref_rule_file"):
        bad.append(("stale-rule-file", "table %s was loaded from %s but the preferences select %s" % (entry["table"], rf[0], entry.get("pref_rule_file"))))
    if rf[0] not in want["rule"]:
        bad.append(("wrong-rule-file", "table %s was loaded from %s; the current preferences select %s" % (entry["table"], rf[0], sorted(want["rule"]))))
    us = entry.get("unicode_short_files") or []
    if not us or us[0] not in want["unicode"]:
        bad.append(("wrong-unicode-file", "table %s uses the character table %s; the current preferences select %s" % (entry["table"], us[:1], sorted(want["unicode"]))))
    elif not entry.get("unicode_short_len"):
        bad.append(("empty-unicode", "table %s: character table %s is loaded but empty" % (entry["table"], us[0])))
    df = entry.get("definitions_files") or []
    if not df or df[0] not in want["definitions"]:
        bad.append(("wrong-definitions-file", "table %s uses the definitions %s; the current preferences select %s" % (entry["table"], df[:1], sorted(want["definitions"]))))
    return bad


# --------------------------------------------------------------------------------------------
# workload helpers read from the tree (workload only, never the oracle)
# --------------------------------------------------------------------------------------------
_KEY = re.compile(r'^\s*-\s*"(.)"\s*:')


def table_chars(path):
    out = set()
    try:
        with open(path, encoding="utf-8") as f:
            for line in f:
                m = _KEY.match(line)
                if m:
                    out.add(m.group(1))
    except OSError:
        pass
    return out


def discriminating_chars(rules=None, limit=40):
    """characters that are in the SHORT character table of some languages / braille codes but only in the full table (or in no table)
    of others — the ones a character table that is not cleared on reload would get wrong.  Sorted, deterministic."""
    rules = rules or core.RULES
    out = []
    for base in ("Languages", "Braille"):
        tables = {}
        b = os.path.join(rules, base)
        for d in sorted(os.listdir(b)):
            p = os.path.join(b, d, "unicode.yaml")
            if d != "zz" and os.path.isfile(p):
                tables[d] = table_chars(p)
        if len(tables) < 2:
            continue
        union = set().union(*tables.values())
        inter = set.intersection(*tables.values())
        cand = sorted(c for c in union - inter if not c.isspace() and c not in "<>&'\"" and ord(c) > 0x20)
        # prefer characters missing from few tables first (most switch pairs expose them)
        cand.sort(key=lambda c: (sum(1 for t in tables.values() if c in t), c))
        out.extend(cand[:limit // 2])
    return out
